"""C12 — CSR banks give software exact, side-effect-free register semantics (DESIGN.md §4 C12).

The reference is a register-file model derived from the *description* (sizes, kinds, ordering, atomic flag, fields),
not from `simple_csrs`: word -> (register, bit range) by ordering; atomic registers commit when their LAST address
is written (the contract stated in the CSRStorage docstring)."""
import itertools
import fsmc  # noqa
from migen import *
from litex.soc.interconnect import csr_bus
from litex.soc.interconnect.csr import *
from fsmc.explore import Explorer, replay_stock, Harness
from fsmc.design import MachineryError

PROPERTY = "C12"
LEVEL = "model_checking"
RULE = ("BFS to closure of (real CSRBank/CSR SRAM FHDL x register-file reference) under every bus operation (idle / write any word incl. "
        "first word past the bank and same offset in another page, 3 data values / read) x device-side inputs per cycle")
ASSUMPTIONS = [
    "2-state zero-delay FHDL semantics of litex.gen.sim",
    "bus data alphabet {0, all-ones, 0xA5..}; status alphabet of 3 values; a device update coinciding with a bus write to the same register: the bus data lands on the addressed bits, the device value on the others",
    "dat_r follows the addressed word one cycle later whenever the page matches, regardless of re; strobes repeat if we/re are held (DESIGN 4b)",
    "atomic_write contract: writes to all but the last address are staged, the register changes in one cycle when the last address is written",
    "register menus of 1..3 registers, bus 8 and 32 bit, ordering big/little, bank address 0/3, paging 0x400/0x800",
]


def words_of(size, busword, ordering):
    n = (size + busword - 1)//busword
    idx = list(reversed(range(n))) if ordering == "big" else list(range(n))
    return [(i, i*busword, min(size, (i + 1)*busword)) for i in idx]      # address order: (word index, lo, hi)


class Spec:
    def __init__(self, kind, size=None, atomic=False, wfd=False, fields=None, reset=0, read_only=True, n=None):
        self.kind, self.atomic, self.wfd, self.fields, self.reset, self.read_only, self.n = kind, atomic, wfd, fields, reset, read_only, n
        self.given_offsets = None
        if fields:
            # reference placement: an explicit offset is taken as it is, offset=None means "right after the previous field"
            self.given_offsets = [o for (_, s, o, _, _) in fields]
            placed, run = [], 0
            for (fn, s, o, p, r) in fields:
                o = run if o is None else o
                placed.append((fn, s, o, p, r))
                run = o + s
            self.fields = fields = placed
            size = max(o + s for (_, s, o, _, _) in fields)
            self.reset = sum(r << o for (_, s, o, _, r) in fields)
        self.size = size

    def make(self, name):
        flds = [CSRField(fn, size=s, offset=(o if self.given_offsets is None else self.given_offsets[k]), pulse=p, reset=r)
                for k, (fn, s, o, p, r) in enumerate(self.fields or [])]
        if self.kind == "storage":
            return CSRStorage(self.size, reset=self.reset, fields=flds, atomic_write=self.atomic, write_from_dev=self.wfd, name=name, n=self.n)
        if self.kind == "status":
            if flds:
                return CSRStatus(fields=flds, name=name, n=self.n)
            return CSRStatus(self.size, fields=[], name=name, read_only=self.read_only, n=self.n)
        return CSR(self.size, name=name, n=self.n)


class Holder(Module, AutoCSR):
    pass


class DUT(Module):
    def __init__(self, specs, busword, ordering, address, paging, sort):
        self.bus = csr_bus.Interface(data_width=busword, address_width=14)
        self.regs = [s.make(f"r{k}") for k, s in enumerate(specs)]
        if sort:
            h = Holder()
            for k, r in enumerate(self.regs):
                setattr(h, f"r{k}", r)
            desc = h.get_csrs(sort=True)
        else:
            desc = list(self.regs)
        self.desc = desc
        self.submodules.bank = csr_bus.CSRBank(desc, address=address, bus=self.bus, paging=paging, ordering=ordering)


def pat(k, width):
    m = (1 << width) - 1
    return (0, m, int("A5" * ((width + 7)//8), 16) & m, int("3C" * ((width + 7)//8), 16) & m)[k]


class CsrHarness(Harness):
    def __init__(self, name, specs, busword=8, ordering="big", address=0, paging=0x800, sort=False):
        self.name, self.specs, self.busword, self.ordering = name, specs, busword, ordering
        self.address, self.paging, self.sort = address, paging, sort
        self.cov = set()

    def build(self):
        self.dut = DUT(self.specs, self.busword, self.ordering, self.address, self.paging, self.sort)
        return self.dut

    def bind(self, D):
        d = self.dut
        bw = self.busword
        self.adr, self.we, self.re = D.i(d.bus.adr), D.i(d.bus.we), D.i(d.bus.re)
        self.dat_w, self.dat_r = D.i(d.bus.dat_w), D.i(d.bus.dat_r)
        self.page = self.paging//4
        # reference placement of registers: description order; with sort=True the documented location rule
        order = list(range(len(self.specs)))
        if self.sort:
            fixed = {s.n: k for k, s in enumerate(self.specs) if s.n is not None}
            free = [k for k, s in enumerate(self.specs) if s.n is None]
            nslots = max(len(self.specs), max(fixed) + 1 if fixed else 0)
            order = []
            for slot in range(nslots):
                if slot in fixed:
                    order.append(fixed[slot])
                elif free:
                    order.append(free.pop(0))
                else:
                    order.append(None)          # reserved filler (1-bit raw CSR)
        self.regs = []       # model registers in address order
        a = 0
        for k in order:
            if k is None:
                self.regs.append(dict(kind="reserved", base=a, words=[(0, 0, 1)], size=1, sig={}))
                a += 1
                continue
            s, r = self.specs[k], d.regs[k]
            w = words_of(s.size, bw, self.ordering)
            sig = {}
            if s.kind == "storage":
                sig = dict(storage=D.i(r.storage), re=D.i(r.re))
                if s.wfd:
                    sig.update(dwe=D.i(r.we), ddat=D.i(r.dat_w))
                sig["fields"] = [(D.i(getattr(r.fields, fn)), sz, o, p) for (fn, sz, o, p, _) in (s.fields or [])]
            elif s.kind == "status":
                sig = dict(status=D.i(r.status), we=D.i(r.we), re=D.i(r.re))
                # a status built from fields: the device drives the field signals, `status` is their documented composition
                sig["sfields"] = [(D.i(getattr(r.fields, fn)), sz, o, rst) for (fn, sz, o, p, rst) in (s.fields or [])]
                if not s.read_only:
                    sig["r"] = D.i(r.r)
            else:
                sig = dict(r=D.i(r.r), re=D.i(r.re), w=D.i(r.w), we=D.i(r.we))
            self.regs.append(dict(kind=s.kind, base=a, words=w, size=s.size, sig=sig, spec=s, k=k))
            a += len(w)
        self.nwords = a
        base = self.address*self.page
        adrs = [base + i for i in range(self.nwords)] + [base + self.nwords, base + self.page + 0, base + self.page + max(0, self.nwords - 1)]
        self.adrs = sorted(set(adrs))
        self.busops = [("idle",)] + [("w", x, k) for x in self.adrs for k in range(3)] + [("r", x) for x in self.adrs]
        dev = []
        for m in self.regs:
            if m["kind"] == "status" or m["kind"] == "raw":
                dev.append([("v", k) for k in range(3)])
            elif m["kind"] == "storage" and m["spec"].wfd:
                dev.append([("n",), ("d", 1), ("d", 3)])
            else:
                dev.append([("n",)])
        self.devops = list(itertools.product(*dev))
        # static: address ranges of registers are disjoint (by construction of `a`) and match the bank's simple CSR count
        self.static_err = None
        if len(d.bank.simple_csrs) != self.nwords:
            self.static_err = ("layout.words", f"bank has {len(d.bank.simple_csrs)} bus words, the reference layout of the description has {self.nwords}")

    def env_init(self):
        st = []
        for m in self.regs:
            if m["kind"] == "storage":
                st.append((m["spec"].reset, tuple(0 for _ in m["words"]), 0))      # value, staged words, re_d
            elif m["kind"] == "status":
                st.append((0, 0))                                                   # r, re_d
            else:
                st.append(())
        return (tuple(st), 0)

    def locate(self, adr):
        """-> (sel, register index, position in address order) or (sel, None, None)"""
        if adr // self.page != self.address:
            return False, None, None
        off = adr % self.page
        for ri, m in enumerate(self.regs):
            if m["base"] <= off < m["base"] + len(m["words"]):
                return True, ri, off - m["base"]
        return True, None, None

    def choices(self, env):
        out = []
        for b in self.busops:
            for dv in self.devops:
                out.append((b, dv))      # incl. a device update in the very cycle of a bus write to the same register (the bus write must land)
        return out

    def drive(self, v, env, ch):
        b, dv = ch
        v[self.we] = v[self.re] = 0
        v[self.adr] = 0
        v[self.dat_w] = 0
        if b[0] == "w":
            v[self.we], v[self.adr], v[self.dat_w] = 1, b[1], pat(b[2], self.busword)
        elif b[0] == "r":
            v[self.re], v[self.adr] = 1, b[1]
        for m, op in zip(self.regs, dv):
            s = m["sig"]
            if m["kind"] == "status" and s["sfields"]:
                for (fi, sz, o, rst) in s["sfields"]:
                    if not rst:          # a field declared with a reset value is left undriven: it reads as that value (e.g. i2s rx_conf / tx_conf)
                        v[fi] = (pat(op[1], m["size"]) >> o) & ((1 << sz) - 1)
            elif m["kind"] == "status":
                v[s["status"]] = pat(op[1], m["size"])
            elif m["kind"] == "raw":
                v[s["w"]] = pat(op[1], m["size"])
            elif op[0] == "d":
                v[s["dwe"]], v[s["ddat"]] = 1, pat(op[1], m["size"])

    def observe(self, v, env, ch):
        b, dv = ch
        st, datr = env
        if self.static_err is not None:
            return env, self.static_err, 0
        if v[self.dat_r] != datr:
            return env, ("read.dat_r", f"dat_r exp {datr:#x} got {v[self.dat_r]:#x} (value of the word addressed in the previous cycle, 0 if not selected)"), 0
        adr = b[1] if b[0] in ("w", "r") else 0
        sel, ri, pos = self.locate(adr)
        wr = b[0] == "w"
        rd = b[0] == "r"
        dat = pat(b[2], self.busword) if wr else 0
        st2 = []
        datr2 = 0
        for i, (m, s0, op) in enumerate(zip(self.regs, st, dv)):
            sg = m["sig"]
            hit = sel and ri == i
            last = hit and pos == len(m["words"]) - 1
            if hit:
                wi, lo, hi = m["words"][pos]
            if m["kind"] == "storage":
                val, staged, re_d = s0
                if v[sg["storage"]] != val:
                    return env, ("write.storage", f"r{m['k']}.storage exp {val:#x} got {v[sg['storage']]:#x}"), 0
                if v[sg["re"]] != re_d:
                    return env, ("strobe.re", f"r{m['k']}.re exp {re_d} got {v[sg['re']]}"), 0
                for (fi, sz, o, p) in sg["fields"]:
                    exp = (val >> o) & ((1 << sz) - 1)
                    if p and not re_d:
                        exp = 0
                    if v[fi] != exp:
                        return env, ("field.pulse" if p else "field.offset", f"r{m['k']} field@{o} exp {exp:#x} got {v[fi]:#x}"), 0
                spec = m["spec"]
                val2, staged2 = val, staged
                if op[0] == "d":
                    val2 = pat(op[1], m["size"])
                if hit and wr:
                    d = dat & ((1 << (hi - lo)) - 1)
                    if spec.atomic and len(m["words"]) > 1:
                        if last:
                            full = 0
                            for p2, (wj, l2, h2) in enumerate(m["words"]):
                                full |= (d if p2 == pos else staged[p2]) << l2
                            val2 = full
                            self.cov.add(("atomic_commit", i))
                        else:
                            staged2 = staged[:pos] + (d,) + staged[pos + 1:]
                    else:
                        val2 = (val2 & ~(((1 << (hi - lo)) - 1) << lo)) | (d << lo)
                st2.append((val2, staged2, int(bool(last and wr))))
                if hit:
                    datr2 = (val >> lo) & ((1 << (hi - lo)) - 1)
            elif m["kind"] == "status":
                r_, re_d = s0
                cur = pat(op[1], m["size"])
                if sg["sfields"]:
                    cur = sum((rst if rst else (cur >> o) & ((1 << sz) - 1)) << o for (fi, sz, o, rst) in sg["sfields"])     # gaps between fields read 0
                    if v[sg["status"]] != cur:
                        return env, ("field.offset", f"r{m['k']}.status exp {cur:#x} (fields at their declared offsets) got {v[sg['status']]:#x}"), 0
                exp_we = int(bool(last and rd))
                if v[sg["we"]] != exp_we:
                    return env, ("strobe.we", f"r{m['k']}.we exp {exp_we} got {v[sg['we']]}"), 0
                if v[sg["re"]] != re_d:
                    return env, ("strobe.re", f"r{m['k']}.re exp {re_d} got {v[sg['re']]}"), 0
                r2 = r_
                if not m["spec"].read_only:
                    if v[sg["r"]] != r_:
                        return env, ("write.r", f"r{m['k']}.r exp {r_:#x} got {v[sg['r']]:#x}"), 0
                    if hit and wr:
                        d = dat & ((1 << (hi - lo)) - 1)
                        r2 = (r_ & ~(((1 << (hi - lo)) - 1) << lo)) | (d << lo)
                st2.append((r2, int(bool(last and wr))))
                if hit:
                    datr2 = (cur >> lo) & ((1 << (hi - lo)) - 1)
            elif m["kind"] == "raw":
                cur = pat(op[1], m["size"])
                if v[sg["re"]] != int(bool(hit and wr)) or v[sg["we"]] != int(bool(hit and rd)):
                    return env, ("strobe.raw", f"r{m['k']} raw CSR re/we exp {int(bool(hit and wr))}/{int(bool(hit and rd))} got {v[sg['re']]}/{v[sg['we']]}"), 0
                if hit and wr and v[sg["r"]] != dat & ((1 << m["size"]) - 1):
                    return env, ("write.raw", f"r{m['k']}.r exp {dat & ((1 << m['size']) - 1):#x} got {v[sg['r']]:#x}"), 0
                st2.append(())
                if hit:
                    datr2 = cur
            else:
                st2.append(())
        self.cov.add((b[0], sel, ri is not None))
        return (tuple(st2), datr2), None, 0

    def cover_report(self):
        return dict(access_classes=len(self.cov))

    def vacuity(self):
        return None if len(self.cov) >= 4 else "too few access classes"


# ---------------------------------------------------------------------------------------------------
REGISTRY = {}


def reg(name, tier, **kw):
    REGISTRY[name] = (tier, lambda: CsrHarness(name, **kw))


S = Spec
for b in (8, 32):
    for ordering in ("big", "little"):
        t = "quick" if (b == 8) else "thorough"
        base = f"bus{b},{ordering}"
        reg(f"bank[{base}] storage({b-1}) storage(1) status({b})", "quick", specs=[S("storage", b - 1), S("storage", 1), S("status", b)], busword=b, ordering=ordering)
        reg(f"bank[{base}] storage({b+1}) status({b+1})", "quick", specs=[S("storage", b + 1), S("status", b + 1)], busword=b, ordering=ordering)
        reg(f"bank[{base}] storage({b+1},atomic) storage({b})", "quick", specs=[S("storage", b + 1, atomic=True), S("storage", b)], busword=b, ordering=ordering)
        reg(f"bank[{base}] storage({b+1},atomic,wfd) storage(2)", "quick", specs=[S("storage", b + 1, atomic=True, wfd=True), S("storage", 2)], busword=b, ordering=ordering)
        reg(f"bank[{base},addr3,page0x400] storage({b},wfd) status({b},rw) raw(3)", "quick",
            specs=[S("storage", b, wfd=True), S("status", b, read_only=False), S("raw", 3)], busword=b, ordering=ordering, address=3, paging=0x400)
        if b == 8:
            reg(f"bank[{base}] storage(17,atomic) status(9)", "quick", specs=[S("storage", 17, atomic=True), S("status", 9)], busword=b, ordering=ordering)
            reg(f"bank[{base}] storage(16) storage(17)", "thorough", specs=[S("storage", 16), S("storage", 17)], busword=b, ordering=ordering)
            reg(f"bank[{base}] status(17,rw) storage(9,wfd)", "thorough", specs=[S("status", 17, read_only=False), S("storage", 9, wfd=True)], busword=b, ordering=ordering)
            # a software-writable status wider than the bus (write-one-to-clear registers of wide event managers): `r` must carry every written
            # word in its own slice, in both orderings
            reg(f"bank[{base}] status(10,rw) storage(2)", "quick", specs=[S("status", 10, read_only=False), S("storage", 2)], busword=b, ordering=ordering)
        reg(f"bank[{base}] storage(fields: a@0:2 pulse, b@3:3 reset5, c@{b}:2) storage(2)", "quick",
            specs=[S("storage", fields=[("a", 2, 0, True, 0), ("b", 3, 3, False, 5), ("c", 2, b, False, 1)]), S("storage", 2)], busword=b, ordering=ordering)
    reg(f"bank[bus{b},big] storage(fields: a@0:2, b@4:3 reset5, c@auto:2 reset2, d@auto:1 pulse) storage(2)", "quick",
        specs=[S("storage", fields=[("a", 2, 0, False, 0), ("b", 3, 4, False, 5), ("c", 2, None, False, 2), ("d", 1, None, True, 0)]), S("storage", 2)],
        busword=b, ordering="big")
    reg(f"bank[bus{b},big] status(fields: a@0:2, b@3:3 reset5 undriven, c@{b}:2, d@auto:1 reset1 undriven) storage(2)", "quick",
        specs=[S("status", fields=[("a", 2, 0, False, 0), ("b", 3, 3, False, 5), ("c", 2, b, False, 0), ("d", 1, None, False, 1)]), S("storage", 2)],
        busword=b, ordering="big")
    reg(f"bank[bus{b},big,sorted] storage(4,n=2) storage({b+1}) status(3)", "quick",
        specs=[S("storage", 4, n=2), S("storage", b + 1), S("status", 3)], busword=b, ordering="big", sort=True)
    reg(f"bank[bus{b},big,sorted] storage(4,n=4) raw(2,n=0) storage(3)", "quick",
        specs=[S("storage", 4, n=4), S("raw", 2, n=0), S("storage", 3)], busword=b, ordering="big", sort=True)


def configs(tier):
    return [(n,) for n, (t, f) in REGISTRY.items() if t == "quick" or tier == "thorough"] + [(AGG,)]


def tuple_deep(x):
    return tuple(tuple_deep(y) for y in x) if isinstance(x, (list, tuple)) else x


AGG = "fields.aggregate(1..3 fields, sizes 1..3, offsets None/0/1/2/4/7, exhaustive)"


def run_aggregate(name):
    """every field list of the menu through the real CSRFieldAggregate: placement (explicit offset kept, None = right after the
    previous field), rejection of out-of-order / overlapping lists, register size and reset composition."""
    import itertools
    from litex.soc.interconnect.csr import CSRFieldAggregate, CSRAccess
    offs, sizes = (None, 0, 1, 2, 4, 7), (1, 2, 3)
    n_eval, distinct, viol = 0, set(), {}
    for n in (1, 2, 3):
        for combo in itertools.product(itertools.product(sizes, offs), repeat=n):
            n_eval += 1
            run, exp, ok = 0, [], True
            for (sz, o) in combo:
                if o is None:
                    o = run
                elif o < run:
                    ok = False
                    break
                exp.append(o)
                run = o + sz
            fields = [CSRField(f"f{k}", size=sz, offset=o, reset=(1 << sz) - 1 - k % 2) for k, (sz, o) in enumerate(combo)]
            try:
                agg = CSRFieldAggregate(fields, CSRAccess.ReadWrite)
                got = ([f.offset for f in fields], agg.get_size(), agg.get_reset())
            except ValueError:
                got = None
            if ok:
                want = (exp, exp[-1] + combo[-1][0], sum((((1 << sz) - 1 - k % 2) << o) for k, ((sz, _), o) in enumerate(zip(combo, exp))))
            else:
                want = None
            distinct.add((tuple(exp), ok))
            if got != want:
                rule = "fields.placement" if (ok and got is not None) else ("fields.rejected_valid" if ok else "fields.accepted_overlap")
                if rule not in viol:
                    viol[rule] = dict(rule=rule, msg=f"fields (size, offset) {list(combo)}: CSRFieldAggregate gives (offsets, size, reset) {got}, the documented placement gives {want}",
                                      detail=dict(fields=[list(c) for c in combo]), trace=None)
    return dict(cfg=name, evaluations=n_eval, distinct=len(distinct), exhaustive=True, violations=list(viol.values()),
                sample=dict(fields=[[2, 0], [3, 4], [2, None]], offsets=[0, 4, 7]))


def replay_aggregate(rec):
    from litex.soc.interconnect.csr import CSRFieldAggregate, CSRAccess
    combo = [tuple(c) for c in rec["detail"]["fields"]]
    r = run_aggregate_one(combo)
    return dict(cfg=rec["cfg"], rule=rec["rule"], reproduced=r)


def run_aggregate_one(combo):
    from litex.soc.interconnect.csr import CSRFieldAggregate, CSRAccess
    run, exp, ok = 0, [], True
    for (sz, o) in combo:
        if o is None:
            o = run
        elif o < run:
            ok = False
            break
        exp.append(o)
        run = o + sz
    fields = [CSRField(f"f{k}", size=sz, offset=o) for k, (sz, o) in enumerate(combo)]
    try:
        CSRFieldAggregate(fields, CSRAccess.ReadWrite)
        got = [f.offset for f in fields]
    except ValueError:
        got = None
    return got != (exp if ok else None)


def run_config(cfg, seed, tier):
    if cfg[0] == AGG:
        return run_aggregate(cfg[0])
    mk = REGISTRY[cfg[0]][1]
    res = Explorer(mk(), seed=seed).run()
    out = res.as_dict()
    for v in out["violations"]:
        rp = replay_stock(mk, [tuple_deep(c) for c in v["trace"]])
        v["replayed"] = dict(reproduced=rp["reproduced"], path=rp["path"], cycles=rp["cycles"])
        if not rp["reproduced"]:
            raise MachineryError(f"{cfg[0]}: violation {v['rule']} does not reproduce on the stock simulator: {rp}")
    return out


def replay(rec):
    if rec["cfg"] == AGG:
        return replay_aggregate(rec)
    mk = REGISTRY[rec["cfg"]][1]
    rp = replay_stock(mk, [tuple_deep(c) for c in rec["trace"]])
    return dict(cfg=rec["cfg"], rule=rec["rule"], reproduced=rp["reproduced"], err=rp["err"], path=rp["path"], cycles=rp["cycles"])


# ---------------------------------------------------------------------------------------------------
# csr_bus.SRAM windows: CSR-mapped memories (word narrower / equal / wider than the bus, read-only, paged)
# ---------------------------------------------------------------------------------------------------
class SramDUT(Module):
    def __init__(self, width, depth, busword, address, paging, read_only):
        self.bus = csr_bus.Interface(data_width=busword, address_width=14)
        self.mem = Memory(width, depth, init=[(0x11*(i + 1)) & ((1 << width) - 1) for i in range(depth)], name="m")
        b1 = csr_bus.Interface(data_width=busword, address_width=14)
        if read_only == "tagged":          # the memory itself carries the read-only mark
            self.mem.bus_read_only = True
            read_only = None
        self.submodules.sram = sram = csr_bus.SRAM(self.mem, address, read_only=read_only, bus=b1, paging=paging)
        buses = [b1]
        self.page = None
        csrs = sram.get_csrs()
        if csrs:
            b2 = csr_bus.Interface(data_width=busword, address_width=14)
            self.submodules.bank = csr_bus.CSRBank(csrs, address=address + 1, bus=b2, paging=paging)
            buses.append(b2)
            self.page = csrs[0]
        self.submodules.ic = csr_bus.Interconnect(self.bus, buses)


class CsrSramHarness(Harness):
    """env = (memory words, staged chunks, page, expected dat_r)"""
    def __init__(self, name, width, depth, busword=8, address=0, paging=0x800, read_only=False):
        self.name, self.width, self.depth, self.busword = name, width, depth, busword
        self.address, self.paging, self.read_only = address, paging, read_only
        self.nch = (width + busword - 1)//busword        # CSR words per memory word, most significant first
        self.page_words = paging//4
        self.cov = set()

    def build(self):
        self.dut = SramDUT(self.width, self.depth, self.busword, self.address, self.paging, self.read_only)
        return self.dut

    def bind(self, D):
        d = self.dut
        self.adr, self.we, self.re = D.i(d.bus.adr), D.i(d.bus.we), D.i(d.bus.re)
        self.dat_w, self.dat_r = D.i(d.bus.dat_w), D.i(d.bus.dat_r)
        nwin = self.depth*self.nch
        self.paged = d.page is not None
        self.win = min(nwin, self.page_words) if self.paged else nwin
        base = self.address*self.page_words
        adrs = [base + i for i in range(self.win)] + [base + self.win] + [(self.address + 2)*self.page_words]
        if self.paged:
            adrs.append((self.address + 1)*self.page_words)          # the page register (bank at address+1, word 0)
        self.adrs = sorted(set(a for a in adrs if a < (1 << 14)))
        self.ops = [("idle",)] + [("w", a, k) for a in self.adrs for k in range(3)] + [("r", a) for a in self.adrs]
        self.npages = (nwin + self.page_words - 1)//self.page_words
        self.page_bits = (self.npages - 1).bit_length() if self.paged else 0

    def env_init(self):
        mem = tuple((0x11*(i + 1)) & ((1 << self.width) - 1) for i in range(self.depth))
        return (mem, tuple(0 for _ in range(self.nch - 1)), 0, 0)

    def choices(self, env):
        return self.ops

    def drive(self, v, env, ch):
        v[self.we] = v[self.re] = 0
        v[self.adr] = v[self.dat_w] = 0
        if ch[0] == "w":
            v[self.we], v[self.adr], v[self.dat_w] = 1, ch[1], pat(ch[2], self.busword)
        elif ch[0] == "r":
            v[self.re], v[self.adr] = 1, ch[1]

    def observe(self, v, env, ch):
        mem, staged, page, datr = env
        if v[self.dat_r] != datr:
            return env, ("read.dat_r", f"dat_r exp {datr:#x} got {v[self.dat_r]:#x} (chunk of the memory word addressed in the previous cycle, 0 if not selected)"), 0
        adr = ch[1] if ch[0] in ("w", "r") else 0
        sel_mem = adr // self.page_words == self.address
        sel_pg = self.paged and adr // self.page_words == self.address + 1 and adr % self.page_words == 0
        mem2, staged2, page2, datr2 = mem, staged, page, 0
        bw = self.busword
        if sel_mem:
            off = adr % self.page_words
            lin = page*self.page_words + off if self.paged else off
            word, chunk = lin // self.nch, lin % self.nch          # chunk 0 = most significant
            word %= (1 << (self.depth - 1).bit_length()) if self.depth > 1 else 1
            if ch[0] == "w" and not self.read_only:
                d = pat(ch[2], bw)
                if chunk == self.nch - 1:
                    full = d
                    for k in range(self.nch - 1):
                        full |= staged[k] << (bw*(self.nch - 1 - k))
                    if word < self.depth:
                        ml = list(mem)
                        ml[word] = full & ((1 << self.width) - 1)
                        mem2 = tuple(ml)
                    self.cov.add("commit")
                else:
                    staged2 = staged[:chunk] + (d,) + staged[chunk + 1:]
            if word < self.depth:
                val = mem[word]
                # a write in this cycle is visible to the read port one cycle later (write-first port)
                if mem2 is not mem:
                    val = mem2[word]
                datr2 = (val >> (bw*(self.nch - 1 - chunk))) & ((1 << bw) - 1)
            self.cov.add(("mem", ch[0]))
        if sel_pg:
            if ch[0] == "w":
                page2 = pat(ch[2], bw) & ((1 << self.page_bits) - 1)
            datr2 = page
            self.cov.add("page")
        return (mem2, staged2, page2, datr2), None, 0

    def vacuity(self):
        return None if ("mem", "w") in self.cov or self.read_only else "memory never written"


SRAMS = {}
for nm, tier, kw in [
    ("csr.SRAM(8x4,bus8)", "quick", dict(width=8, depth=4)),
    ("csr.SRAM(8x4,bus8,read_only)", "quick", dict(width=8, depth=4, read_only=True)),
    ("csr.SRAM(8x4,bus8,memory tagged bus_read_only)", "quick", dict(width=8, depth=4, read_only="tagged")),
    ("csr.SRAM(16x2,bus8)", "quick", dict(width=16, depth=2)),
    ("csr.SRAM(12x2,bus8)", "thorough", dict(width=12, depth=2)),
    ("csr.SRAM(4x4,bus8,addr2)", "quick", dict(width=4, depth=4, address=2)),
    ("csr.SRAM(32x2,bus32)", "quick", dict(width=32, depth=2, busword=32)),
    ("csr.SRAM(1x8,bus8,paging=0x10)", "quick", dict(width=1, depth=8, paging=0x10)),
    ("csr.SRAM(8x8,bus8,paging=0x10)", "thorough", dict(width=8, depth=8, paging=0x10)),
    ("csr.SRAM(16x4,bus8,paging=0x10)", "thorough", dict(width=16, depth=4, paging=0x10)),
]:
    SRAMS[nm] = (tier, kw)
    REGISTRY[nm] = (tier, (lambda nm=nm, kw=kw: CsrSramHarness(nm, **kw)))


# CSRBankArray + InterconnectShared (checks/c12_array.py)
from checks import c12_array as _arr  # noqa: E402
REGISTRY.update(_arr.factories())
