"""C18 — ECC corrects every single-bit error and flags every double-bit error (DESIGN.md §4 "C18", §4b).

What is evaluated is the real FHDL: `ECCEncoder(k)` and `ECCDecoder(k)` from /repo are instantiated in one wrapper
module with an XOR flip mask between them, passed through `fsmc.design.Design` (the fragment `litex.gen.sim.Simulator`
builds) and settled with the fast stepper; a deterministic subset of the evaluations is re-executed on LiteX's own
`Evaluator` (`Design.conform`, all signals compared), and every violation is re-played on the stock `run_simulation`
before it is reported.  The oracle is the statement itself (popcount of the flip mask) plus an independent, boring
Hamming geometry (bit tests on position numbers) for the helpers and for the `enable = 0` pass-through.
"""
import fsmc  # noqa: F401  (FIRST import: /repo on sys.path + tracer shim)
import contextlib
import signal

from migen import Module, Signal
from fsmc.design import Design, MachineryError

from litex.soc.cores import ecc as _ecc

PROPERTY = "C18"
LEVEL = "exploration"
RULE = ("per data width k one wrapper ECCEncoder(k) -> XOR flip mask -> ECCDecoder(k), real FHDL settled combinationally; "
        "cases = word set x {no flip, every single flip (n+1 positions incl. overall parity), every double flip} x "
        "enable in {1, 0}; word set = all 2^k words for k <= 11, {0, ones, 0x55.., 0xAA.., every one-hot, every "
        "one-cold} for larger k (k >= 100 and quick k = 64: {0, ones, 0x55.., 0xAA.., 8 one-hot}; thorough 'sweep' widths: "
        "{0x55..}); a case is the tuple "
        "(k, word, flip mask, enable), all enumerated cases are distinct (word and mask lists are checked to be "
        "duplicate-free, parts of one k take disjoint words); non-trivial = an error is injected (flip mask != 0); the "
        "geometry configuration compares compute_m_n / syndrome / data / cover positions with an independent Hamming "
        "construction for k = 1..256 (a case there = one helper call, distinct by (helper, arguments))")
ASSUMPTIONS = [
    "2-state zero-delay FHDL semantics of litex.gen.sim (the explored fragment is the one Simulator.__init__ produces); "
    "the fast stepper is checked against litex.gen.sim.core.Evaluator on a deterministic sample (every 997th evaluation "
    "and the first 4 of every configuration) and every violation is re-played on the stock run_simulation",
    "code word layout as documented in ecc.py: bit 0 of ECCEncoder.o / ECCDecoder.i is the overall parity bit, bit q "
    "(1..n) is Hamming position q, check bits at powers of two, data bits in ascending order on the other positions "
    "(used to tell 'parity bit only' from 'data or check bit' and for the enable = 0 pass-through)",
    "large widths (k >= 12): all error patterns x a structured word set, NOT all words (error behaviour of a GF(2)-linear "
    "circuit is word independent; the word set makes word-dependent defects visible)",
    "widths enumerated: 1..11 exhaustively, {12..16, 26, 32, 57, 64, 120, 128} structured (quick: 1..8, {16, 32, 64}); "
    "every other width in 17..127 with the single word 0x55.. x all flips (thorough only); in the quick tier the other "
    "widths are covered by the geometry comparison only",
    "a flip of the overall parity bit alone must be corrected silently (sec = 0), DESIGN 4b",
    "after two flips only the flags are constrained (ded = 1, sec = 0), the data output is not",
    "tracer shim (names only)",
]

CONF_STRIDE = 997
CONF_FIRST = 4
GEOM_KMAX = 256

SMALL = dict(quick=range(1, 9), thorough=range(1, 12))
# (k, word set, number of parts); parts take disjoint words (words[part::nparts])
LARGE = dict(
    quick=[(16, "struct", 1), (32, "struct", 4), (64, "few", 6)],
    thorough=[(12, "struct", 1), (13, "struct", 1), (14, "struct", 1), (15, "struct", 1), (16, "struct", 1),
              (26, "struct", 1), (32, "struct", 4), (57, "struct", 12), (64, "struct", 20),
              (120, "few", 12), (128, "few", 12)],
)
# thorough only: every remaining width up to 128 with ONE word (0x55..) x all flips, so that the width dependent position
# arithmetic of the real circuit (not only of the helpers) is exercised at every width the statement quantifies over
LARGE["thorough"] += [(k, "sweep", 1) for k in range(17, 128) if k not in {t[0] for t in LARGE["thorough"]}]
SMALL_PARTS = {11: 2}
# elaboration histories: another width with the same number of check bits (and one with fewer / more) is built in the same process FIRST; the
# circuit of k must not depend on what was elaborated before it (shared caches / class-level state)
HISTORY = dict(
    quick=[(4, "all", (2,)), (4, "all", (8, 2)), (8, "all", (5,)), (8, "all", (11, 5)), (16, "struct", (12,)), (16, "struct", (26, 12, 15))],
    thorough=[(11, "all", (8, 5)), (15, "struct", (12,)), (26, "struct", (12, 15)), (57, "sweep", (32, 27)), (120, "sweep", (64,))],
)


# ------------------------------------------------------------------------------------------------
# watchdog (the geometry helpers and the constructors contain `while` loops)

class Hang(Exception):
    pass


@contextlib.contextmanager
def watchdog(seconds, what):
    def handler(signum, frame):
        raise Hang(f"{what}: no result after {seconds} s")
    old = signal.signal(signal.SIGALRM, handler)
    signal.alarm(seconds)
    try:
        yield
    finally:
        signal.alarm(0)
        signal.signal(signal.SIGALRM, old)


# ------------------------------------------------------------------------------------------------
# independent reference: Hamming geometry by bit tests on the position numbers

def ref_m_n(k):
    m = 1
    while (1 << m) - m - 1 < k:      # a Hamming code with m check bits carries at most 2^m - m - 1 data bits
        m += 1
    return m, k + m


def ref_check_positions(n):
    return [p for p in range(1, n + 1) if p & (p - 1) == 0]


def ref_data_positions(n):
    return [p for p in range(1, n + 1) if p & (p - 1) != 0]


def ref_cover(n, i):
    return [p for p in range(1, n + 1) if (p >> i) & 1]


def popcount(x):
    return bin(x).count("1")


def hx(x):
    return hex(x)


# ------------------------------------------------------------------------------------------------
# the design under test

class Wrap(Module):
    def __init__(self, k):
        self.submodules.enc = _ecc.ECCEncoder(k)
        self.submodules.dec = _ecc.ECCDecoder(k)
        self.flip = Signal(max(len(self.enc.o), len(self.dec.i)))
        self.comb += self.dec.i.eq(self.enc.o ^ self.flip)


def build(k):
    with watchdog(30, f"ECCEncoder({k})/ECCDecoder({k}) constructor"):
        return Wrap(k)


def words_of(k, kind):
    ones = (1 << k) - 1
    if kind == "all":
        ws = list(range(1 << k))
    else:
        a5 = int("55" * ((k + 7) // 8), 16) & ones
        aa = int("AA" * ((k + 7) // 8), 16) & ones
        ws = [0, ones, a5, aa]
        if kind == "sweep":
            ws = [a5]
        elif kind == "struct":
            ws += [1 << b for b in range(k)] + [ones ^ (1 << b) for b in range(k)]
        elif kind == "few":
            ws += [1 << ((j * (k - 1)) // 7) for j in range(8)]
        else:
            raise MachineryError(f"word set {kind}")
        ws = list(dict.fromkeys(ws))
    if len(set(ws)) != len(ws):
        raise MachineryError("duplicate words")
    return ws


def masks_of(nb):
    ms = [0] + [1 << i for i in range(nb)] + [(1 << i) | (1 << j) for i in range(nb) for j in range(i + 1, nb)]
    if len(set(ms)) != len(ms) or len(ms) != 1 + nb + nb * (nb - 1) // 2:
        raise MachineryError("flip mask list")
    return ms


def expect(word, mask, enable, data_pos):
    """The statement, as a function of the injected error only.  Returns dict(o=..|None, sec, ded)."""
    if not enable:
        d = 0
        for b, q in enumerate(data_pos):
            d |= ((mask >> q) & 1) << b
        return dict(o=word ^ d, sec=0, ded=0)
    nf = popcount(mask)
    if nf <= 1:
        return dict(o=word, sec=int(nf == 1 and mask != 1), ded=0)
    return dict(o=None, sec=0, ded=1)


def classify(word, mask, enable, exp, o, sec, ded):
    """rule identifiers of every way (o, sec, ded) departs from `exp` (empty list: fine)."""
    r = []
    nf = popcount(mask)
    if not enable:
        if o != exp["o"]:
            r.append("disabled.data")
        if sec or ded:
            r.append("disabled.flag")
        return r
    if nf == 0:
        if o != word:
            r.append("clean.data")
        if sec or ded:
            r.append("clean.flag")
    elif nf == 1:
        par = mask == 1
        if o != word:
            r.append("single.parity.data" if par else "single.data")
        if sec != exp["sec"]:
            r.append("single.parity.sec" if par else "single.sec_missing")
        if ded:
            r.append("single.parity.ded" if par else "single.ded")
    else:
        if not ded:
            r.append("double.silent" if not sec else "double.ded_missing")
        if sec:
            r.append("double.sec")
    return r


def stock_eval(k, word, mask, enable):
    """One case on the stock LiteX simulator (no fsmc machinery)."""
    from litex.gen.sim import run_simulation
    w = build(k)
    out = {}

    def gen():
        yield w.enc.i.eq(word)
        yield w.flip.eq(mask)
        yield w.dec.enable.eq(enable)
        yield
        yield
        out["code"] = (yield w.enc.o)
        out["o"] = (yield w.dec.o)
        out["sec"] = (yield w.dec.sec)
        out["ded"] = (yield w.dec.ded)
    run_simulation(w, gen())
    return out


# ------------------------------------------------------------------------------------------------
# runner API

def configs(tier):
    tier = "thorough" if tier == "thorough" else "quick"
    cf = []
    # longest first (the pool takes them in order)
    for k, kind, nparts in sorted(LARGE[tier], key=lambda t: -t[0]):
        for p in range(nparts):
            name = f"k={k:03d}/{kind}" + (f"/part{p+1:02d}of{nparts:02d}" if nparts > 1 else "")
            cf.append((name, "enum", k, kind, p, nparts))
    for k in sorted(SMALL[tier], reverse=True):
        nparts = SMALL_PARTS.get(k, 1)
        for p in range(nparts):
            name = f"k={k:03d}/allwords" + (f"/part{p+1:02d}of{nparts:02d}" if nparts > 1 else "")
            cf.append((name, "enum", k, "all", p, nparts))
    for k, kind, before in HISTORY["quick"] + (HISTORY["thorough"] if tier == "thorough" else []):
        cf.append((f"k={k:03d}/{kind if kind != 'all' else 'allwords'}/built after k=" + ",".join(str(b) for b in before), "enum", k, kind, 0, 1, list(before)))
    cf.append((f"geometry/k=001..{GEOM_KMAX:03d}", "geom", GEOM_KMAX))
    return cf


class Collector:
    """keeps, per rule, the smallest violating case (order independent) and the number of violating cases"""
    def __init__(self):
        self.best = {}
        self.count = {}

    def add(self, rule, key, rec):
        self.count[rule] = self.count.get(rule, 0) + 1
        b = self.best.get(rule)
        if b is None or key < b[0]:
            self.best[rule] = (key, rec)

    def violations(self):
        out = []
        for rule in sorted(self.best):
            rec = self.best[rule][1]
            rec["detail"]["violating_cases"] = self.count[rule]
            rec["msg"] += f" [{self.count[rule]} violating case(s) under this rule in this configuration]"
            out.append(rec)
        return out


def run_config(cfg, seed, tier):
    if cfg[1] == "geom":
        return run_geometry(cfg)
    return run_enum(cfg, seed)


def run_enum(cfg, seed):
    name, _, k, kind, part, nparts = cfg[:6]
    before = list(cfg[6]) if len(cfg) > 6 else []
    col = Collector()
    res = dict(cfg=name, cfg_args=list(cfg), k=k, exhaustive=True, violations=[], evaluations=0, distinct=0, conformed=0,
               sample=None, cover={})
    try:
        for kb in before:
            build(kb)           # elaborated first, then dropped
        w = build(k)
    except Exception as e:      # the constructor of a supported width fails or hangs
        rule = "build.hang" if isinstance(e, Hang) else "build.error"
        res["violations"] = [dict(rule=rule, msg=f"ECCEncoder({k})/ECCDecoder({k}) cannot be built: {type(e).__name__}: {e}",
                                  detail=dict(kind="build", k=k, error=f"{type(e).__name__}: {e}"), trace=[dict(k=k)])]
        res["evaluations"] = 1
        return res
    m, n = ref_m_n(k)
    data_pos = ref_data_positions(n)
    widths = dict(enc_i=len(w.enc.i), enc_o=len(w.enc.o), dec_i=len(w.dec.i), dec_o=len(w.dec.o),
                  sec=len(w.dec.sec), ded=len(w.dec.ded), enable=len(w.dec.enable))
    wexp = dict(enc_i=k, enc_o=n + 1, dec_i=n + 1, dec_o=k, sec=1, ded=1, enable=1)
    if widths != wexp:
        col.add("geom.width", (0,), dict(rule="geom.width", msg=f"k={k}: port widths {widths}, a SECDED Hamming code needs {wexp}",
                                        detail=dict(kind="width", k=k, got=widths, expected=wexp), trace=[dict(k=k)]))
    D = Design(w)
    if D.state_sigs:
        raise MachineryError("ECC wrapper has registers")
    fs = D.fs
    v = D.load(())
    iw, ifl, ien = D.i(w.enc.i), D.i(w.flip), D.i(w.dec.enable)
    io, isec, ided, icode = D.i(w.dec.o), D.i(w.dec.sec), D.i(w.dec.ded), D.i(w.enc.o)
    for s in (w.enc.i, w.flip, w.dec.enable):
        if s not in D.input_sigs:
            raise MachineryError("driven input")
    nb = len(w.flip)
    allwords = words_of(k, kind)
    words = allwords[part::nparts]
    if seed and words:
        r = seed % len(words)
        words = words[r:] + words[:r]
    masks = masks_of(nb)
    # per mask: (mask, number of flips, expected sec, data bits hit (for the pass-through), reference syndrome)
    pats = []
    for mk in masks:
        nf = popcount(mk)
        d = 0
        for b, q in enumerate(data_pos):
            d |= ((mk >> q) & 1) << b
        syn = 0
        for q in range(1, nb):
            if (mk >> q) & 1:
                syn ^= q
        pats.append((mk, nf, int(nf == 1 and mk != 1), d, syn))
    settle = fs.settle
    conform = D.conform
    evals = distinct = conformed = 0
    cov = dict(clean=0, single_parity=0, single_check=0, single_data=0, double=0, double_with_parity_bit=0,
               double_syndrome_beyond_n=0, double_data_changed=0, disabled=0, disabled_data_bit_hit=0, sec_seen=0,
               ded_seen=0, corrected_data_bits=0)
    sample = None

    def report(word, mk, en, o, sec, ded):
        exp = expect(word, mk, en, data_pos)
        rules = classify(word, mk, en, exp, o, sec, ded)
        if not rules:
            raise MachineryError("fast path and classify() disagree")
        for rule in rules:
            rec = dict(rule=rule,
                       msg=(f"k={k} word={hx(word)} flip={hx(mk)} ({popcount(mk)} bit(s)) enable={en}: decoder gives "
                            f"o={hx(o)} sec={sec} ded={ded}, expected o={'any' if exp['o'] is None else hx(exp['o'])} "
                            f"sec={exp['sec']} ded={exp['ded']}"),
                       detail=dict(kind="case", k=k, built_before=before, word=hx(word), flip=hx(mk), enable=en, code=hx(v[icode]),
                                   got=dict(o=hx(o), sec=sec, ded=ded),
                                   expected=dict(o=None if exp["o"] is None else hx(exp["o"]), sec=exp["sec"], ded=exp["ded"])),
                       trace=[dict(k=k, word=hx(word), flip=hx(mk), enable=en)])
            col.add(rule, (popcount(mk), word, mk, en), rec)

    for word in words:
        v[iw] = word
        for mk, nf, xsec, dhit, syn in pats:
            # ---- checking enabled
            v[ifl] = mk
            v[ien] = 1
            settle()
            o = v[io]; sec = v[isec]; ded = v[ided]
            evals += 1
            if nf <= 1:
                if o != word or sec != xsec or ded:
                    report(word, mk, 1, o, sec, ded)
                if nf == 0:
                    cov["clean"] += 1
                elif mk == 1:
                    cov["single_parity"] += 1
                elif dhit:
                    cov["single_data"] += 1
                else:
                    cov["single_check"] += 1
            else:
                if ded != 1 or sec:
                    report(word, mk, 1, o, sec, ded)
                cov["double"] += 1
                if mk & 1:
                    cov["double_with_parity_bit"] += 1
                elif syn > n:
                    cov["double_syndrome_beyond_n"] += 1
                if o != word:
                    cov["double_data_changed"] += 1
            if mk:
                distinct += 1
            if sec:
                cov["sec_seen"] += 1
            if ded:
                cov["ded_seen"] += 1
            if evals <= CONF_FIRST or evals % CONF_STRIDE == 0:
                conform((), v, v, ())
                conformed += 1
            if nf == 1 and dhit and (sample is None or (word and sample["word"] == "0x0")):
                sample = dict(k=k, word=hx(word), code=hx(v[icode]), flip=hx(mk), enable=1, o=hx(o), sec=sec, ded=ded)
            # ---- checking disabled, same word and flips
            v[ien] = 0
            settle()
            o0 = v[io]; sec0 = v[isec]; ded0 = v[ided]
            evals += 1
            if o0 != word ^ dhit or sec0 or ded0:
                report(word, mk, 0, o0, sec0, ded0)
            cov["disabled"] += 1
            if dhit:
                cov["disabled_data_bit_hit"] += 1
                if nf == 1 and o == word and o0 != word:
                    cov["corrected_data_bits"] += 1     # the correction really changed the output
            if mk:
                distinct += 1
            if evals <= CONF_FIRST or evals % CONF_STRIDE == 0:
                conform((), v, v, ())
                conformed += 1
    res["violations"] = col.violations()
    # every reported case is first re-played on the stock simulator
    for vv in res["violations"]:
        if vv["detail"].get("kind") == "case":
            rp = replay(dict(cfg=name, rule=vv["rule"], detail=vv["detail"]))
            vv["replayed"] = rp
            if not rp["reproduced"]:
                raise MachineryError(f"{name}: violation {vv['rule']} does not reproduce on the stock simulator: {rp}")
    res.update(evaluations=evals, distinct=distinct, conformed=conformed, sample=sample, cover=cov, m=m, n=n,
               words=len(words), words_of_k=len(allwords), word_set=kind, flip_patterns=len(masks),
               singles=nb, doubles=nb * (nb - 1) // 2)
    return res


GEOM_HELPERS = ("compute_m_n", "compute_syndrome_positions", "compute_data_positions", "compute_cover_positions")


def geom_call(helper, args):
    with watchdog(10, f"{helper}{tuple(args)}"):
        r = getattr(_ecc, helper)(*args)
    if helper == "compute_m_n":
        return list(r)
    return sorted(r)        # the order inside a position list has no meaning (XOR / placement by ascending order is checked below)


def geom_expected(helper, args):
    if helper == "compute_m_n":
        return list(ref_m_n(args[0]))
    if helper == "compute_syndrome_positions":
        return ref_check_positions(args[0])
    if helper == "compute_data_positions":
        return ref_data_positions(args[0])
    if helper == "compute_cover_positions":
        return ref_cover(args[0], args[1].bit_length() - 1)
    raise MachineryError(helper)


def geom_check(helper, args):
    """-> (rule or None, got, expected)"""
    exp = geom_expected(helper, args)
    try:
        got = geom_call(helper, args)
    except Hang as e:
        return "geom.hang." + helper, str(e), exp
    except Exception as e:
        return "geom.error." + helper, f"{type(e).__name__}: {e}", exp
    if helper == "compute_data_positions":
        # data bits are placed in this order: the unsorted list must be ascending as well
        raw = list(_ecc.compute_data_positions(*args))
        if raw != exp:
            return "geom." + helper, raw, exp
    return (None if got == exp else "geom." + helper), got, exp


def run_geometry(cfg):
    name, _, kmax = cfg
    col = Collector()
    seen = set()
    evals = 0
    sample = None
    cov = dict(widths=0, perfect_codes=0, shortened_codes=0, cover_sets=0)
    dead = set()
    for k in range(1, kmax + 1):
        m, n = ref_m_n(k)
        # sanity of the reference itself: every position has a distinct non-zero column, all columns fit in m bits
        cols = [sum(((p >> i) & 1) << i for i in range(m)) for p in range(1, n + 1)]
        if len(set(cols)) != n or min(cols) == 0 or len(ref_check_positions(n)) != m or len(ref_data_positions(n)) != k:
            raise MachineryError("reference Hamming construction")
        if m > 1 and (1 << (m - 1)) - (m - 1) - 1 >= k:
            raise MachineryError("reference m is not minimal")
        cov["widths"] += 1
        cov["perfect_codes" if n == (1 << m) - 1 else "shortened_codes"] += 1
        calls = [("compute_m_n", (k,)), ("compute_syndrome_positions", (n,)), ("compute_data_positions", (n,))]
        calls += [("compute_cover_positions", (n, 1 << i)) for i in range(m)]
        cov["cover_sets"] += m
        for helper, args in calls:
            if helper in dead:          # this helper already hung once: do not wait for it 1000 times
                continue
            rule, got, exp = geom_check(helper, args)
            if rule and rule.startswith("geom.hang"):
                dead.add(helper)
            evals += 1
            seen.add((helper, args))
            if rule:
                col.add(rule, (k, args), dict(rule=rule, msg=f"k={k}: {helper}{args} = {got}, independent Hamming construction gives {exp}",
                                             detail=dict(kind="geom", k=k, helper=helper, args=list(args), got=got, expected=exp),
                                             trace=[dict(helper=helper, args=list(args))]))
            elif sample is None and helper == "compute_cover_positions" and k == 11 and args[1] == 4:
                sample = dict(helper=helper, args=list(args), result=got)
    return dict(cfg=name, cfg_args=list(cfg), exhaustive=not dead, violations=col.violations(), evaluations=evals,
                distinct=len(seen), conformed=0, sample=sample, cover=cov)


def extra_coverage(results):
    ks = sorted({r["k"] for r in results if "k" in r})
    return dict(traces_validated_against_impl=sum(int(r.get("conformed", 0) or 0) for r in results),
                widths_all_words=[k for k in ks if any(r.get("k") == k and r.get("word_set") == "all" for r in results)],
                widths_structured_words=[k for k in ks if any(r.get("k") == k and r.get("word_set") in ("struct", "few") for r in results)],
                widths_one_word_sweep=[k for k in ks if any(r.get("k") == k and r.get("word_set") == "sweep" for r in results)],
                geometry_widths=f"1..{GEOM_KMAX}",
                bounds="all listed widths: every single and every double flip of the n+1 code word bits, with checking enabled and disabled")


def replay(rec):
    """Re-run ONE recorded violation against the real code: stock run_simulation for a case, a direct call for a helper."""
    d = rec.get("detail") or {}
    kind = d.get("kind")
    if kind == "geom":
        rule, got, exp = geom_check(d["helper"], tuple(d["args"]))
        return dict(cfg=rec.get("cfg"), rule=rec.get("rule"), reproduced=rule is not None, got=got, expected=exp)
    if kind == "build":
        try:
            build(d["k"])
            return dict(cfg=rec.get("cfg"), rule=rec.get("rule"), reproduced=False)
        except Exception as e:
            return dict(cfg=rec.get("cfg"), rule=rec.get("rule"), reproduced=True, error=f"{type(e).__name__}: {e}")
    if kind == "width":
        k = d["k"]
        w = build(k)
        m, n = ref_m_n(k)
        got = dict(enc_i=len(w.enc.i), enc_o=len(w.enc.o), dec_i=len(w.dec.i), dec_o=len(w.dec.o),
                   sec=len(w.dec.sec), ded=len(w.dec.ded), enable=len(w.dec.enable))
        exp = dict(enc_i=k, enc_o=n + 1, dec_i=n + 1, dec_o=k, sec=1, ded=1, enable=1)
        return dict(cfg=rec.get("cfg"), rule=rec.get("rule"), reproduced=got != exp, got=got, expected=exp)
    k = d["k"]
    word, mask, en = int(d["word"], 16), int(d["flip"], 16), int(d["enable"])
    m, n = ref_m_n(k)
    for kb in d.get("built_before") or []:
        build(kb)               # the elaboration history of the configuration
    out = stock_eval(k, word, mask, en)
    exp = expect(word, mask, en, ref_data_positions(n))
    rules = classify(word, mask, en, exp, out["o"], out["sec"], out["ded"])
    return dict(cfg=rec.get("cfg"), rule=rec.get("rule"), reproduced=rec.get("rule") in rules, rules=rules,
                simulator="litex.gen.sim.run_simulation",
                got=dict(code=hx(out["code"]), o=hx(out["o"]), sec=out["sec"], ded=out["ded"]),
                expected=dict(o=None if exp["o"] is None else hx(exp["o"]), sec=exp["sec"], ded=exp["ded"]))
