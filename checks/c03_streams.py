"""C03 — stream elements deliver each token exactly once, in order, rightly transformed.
(The same explorations also carry the C04 monitors; c04_handshake.py re-uses REGISTRY.)"""
import fsmc  # noqa
from fsmc.explore import Explorer, replay_stock
from checks.streamlib import *
from checks import streamcfg

PROPERTY = "C03"
LEVEL = "model_checking"
RULE = ("BFS to closure of (DUT registers x producer x scoreboard) under every valid/ready choice per cycle; "
        "a state is non-trivial/distinct by its 96-bit digest; per-config counts in per_config")
ASSUMPTIONS = [
    "2-state zero-delay FHDL semantics of litex.gen.sim (the explored fragment is the one Simulator.__init__ produces)",
    "producer holds valid/token until accepted; idle lines carry all-0 or all-1 garbage",
    "token ids mod M (M = 2*capacity+2) in 'ids' mode, every payload value in 'free' mode (payload <= 4 bits)",
    "parameters limited to the listed configurations; packets of at most maxpkt tokens",
    "chunks of an up-converted word beyond valid_token_count are don't-care (DESIGN 4b)",
    "tracer shim (names only)",
]
C03_RULES = ("data.", "dup.", "order.", "comb.")
C04_RULES = ("stab.", "live.")


def rules_of(prop):
    return C03_RULES if prop == "C03" else C04_RULES


def configs(tier):
    return [(n,) for n, (t, f) in streamcfg.REGISTRY.items() if t == "quick" or tier == "thorough"]


def run_config(cfg, seed, tier, prop=PROPERTY):
    name = cfg[0]
    mk = factory(name, prop)
    H = mk()
    res = Explorer(H, seed=seed).run()
    out = res.as_dict()
    if prop == "C04" and out["violations"] and not any(v["rule"].startswith(("stab.", "live.")) for v in out["violations"]):
        # the data path already violates C03: its violating transitions are not extended and the liveness queries were
        # skipped, so stalls behind them would go unseen.  Second pass with a tolerant scoreboard.
        mk1 = mk
        def mk():
            H2 = mk1()
            H2.set_tolerant()
            return H2
        H = mk()
        res2 = Explorer(H, seed=seed).run().as_dict()
        out["violations"] += [v for v in res2["violations"] if v["rule"].startswith(("stab.", "live."))]
        out["states"] += res2["states"]
        out["transitions"] += res2["transitions"]
        out["conformed"] += res2["conformed"]
        out["exhaustive"] = out["exhaustive"] and res2["exhaustive"]
        out["tolerant_second_pass"] = True
    keep = []
    for v in out["violations"]:
        v["property"] = "C03" if v["rule"].startswith(C03_RULES) else "C04"
        if v["property"] != prop:
            continue
        # every reported violation is re-played from reset on the stock simulator first
        tr = [tuple_deep(c) for c in v["trace"]]
        cyc = [tuple_deep(c) for c in v["cycle"]] if v.get("cycle") else None
        q = None
        if cyc:
            q = [q for q in H.live_queries if q[0] == v["rule"]][0]
        rp = replay_stock(mk, tr, cyc, q)
        v["replayed"] = dict(reproduced=rp["reproduced"], path=rp["path"], cycles=rp["cycles"])
        if not rp["reproduced"]:
            raise MachineryError(f"{name}: violation {v['rule']} does not reproduce on the stock simulator: {rp}")
        keep.append(v)
    out["violations"] = keep
    return out


def factory(name, prop):
    """C03 runs switch the C04 stability monitor off (a violating transition is not extended, so a C04 violation would
    otherwise hide C03 behaviour behind it); C04 runs keep the scoreboard because liveness needs 'output pending'."""
    mk0 = streamcfg.REGISTRY[name][1]
    def mk():
        H = mk0()
        if prop == "C03":
            H.check_stability = False
        return H
    return mk


def tuple_deep(x):
    if isinstance(x, (list, tuple)):
        return tuple(tuple_deep(y) for y in x)
    return x


def replay(rec, prop=PROPERTY):
    mk = factory(rec["cfg"], prop)
    H = mk()
    tr = [tuple_deep(c) for c in rec["trace"]]
    cyc = [tuple_deep(c) for c in rec["cycle"]] if rec.get("cycle") else None
    q = [q for q in H.live_queries if q[0] == rec["rule"]][0] if cyc else None
    rp = replay_stock(mk, tr, cyc, q)
    if not rp["reproduced"] and prop == "C04":
        # a violation found in the tolerant second pass of a C04 run (see run_config)
        def mk2():
            H2 = mk()
            H2.set_tolerant()
            return H2
        rp = replay_stock(mk2, tr, cyc, q)
    return dict(cfg=rec["cfg"], rule=rec["rule"], reproduced=rp["reproduced"], err=rp["err"], path=rp["path"], cycles=rp["cycles"])
