"""C02, netlist level: corpus of small real LiteX designs + the child process that converts ONE of them.

Every builder receives a fresh `Top` (a LiteXModule with an explicit ClockDomain("sys")), attaches real LiteX cores
to it and returns the objects whose signals become the module's ports (Signals, Records, AXI interfaces, lists).
`child_main(name, pad)` is run in a FRESH interpreter (own PYTHONHASHSEED, own heap layout): it builds the design,
runs the unmodified `litex.gen.fhdl.verilog.convert`, observes every `ns.get_name` call made while the text is
generated and prints one JSON document on stdout.  Nothing here knows what a correct name looks like: the oracle is
in c02_names.py.
"""
import fsmc  # noqa  (first: sys.path -> $VERIF_REPO, tracer shim)
import sys, json

REGISTRY = {}   # name -> (tier, builder)


def design(name, tier="quick"):
    def deco(fn):
        assert name not in REGISTRY
        REGISTRY[name] = (tier, fn)
        return fn
    return deco


def _lx():
    """Late imports (the parent process of the check never needs LiteX for the netlist part)."""
    import migen
    from migen import Signal, Record, Module, ClockDomain, Memory, Instance, If, Case, Cat, FSM, NextState, NextValue
    from migen.genlib.cdc import MultiReg
    from litex.gen import LiteXModule
    from litex.soc.interconnect import stream, wishbone, packet, csr, csr_bus
    from litex.soc.interconnect import axi
    from litex.soc.interconnect.csr import CSRStorage, CSRStatus, CSRField, AutoCSR, CSR
    from litex.soc.interconnect.csr_eventmanager import EventManager, EventSourcePulse, EventSourceProcess, EventSourceLevel
    return dict(locals())


# ---------------------------------------------------------------------------------------------------- helpers

def flat(o):
    """All Signals of a port object (Signal / Record / AXI interface / list of those)."""
    from migen import Signal, Record
    if o is None:
        return set()
    if isinstance(o, Signal):
        return {o}
    if isinstance(o, Record):
        return set(o.flatten())
    if isinstance(o, (list, tuple, set)):
        r = set()
        for x in o:
            r |= flat(x)
        return r
    chans = [getattr(o, c) for c in ("aw", "w", "b", "ar", "r") if hasattr(o, c)]
    if chans:
        return flat(chans)
    raise TypeError(f"cannot flatten {o!r}")


def make_top():
    from migen import ClockDomain
    from litex.gen import LiteXModule

    class Top(LiteXModule):
        def __init__(self):
            self.cd_sys = ClockDomain("sys")
    return Top()


# ---------------------------------------------------------------------------------------------------- streams

@design("stream.SyncFIFO(d4)")
def _(top):
    L = _lx(); stream = L["stream"]
    top.fifo = stream.SyncFIFO([("data", 8)], 4)
    return [top.fifo.sink, top.fifo.source]


@design("stream.SyncFIFO(d8,buffered)")
def _(top):
    L = _lx(); stream = L["stream"]
    top.fifo = stream.SyncFIFO(stream.EndpointDescription([("data", 8), ("tag", 2)], [("dst", 3)]), 8, buffered=True)
    return [top.fifo.sink, top.fifo.source, top.fifo.level]


@design("stream.ClockDomainCrossing(sys->other)")
def _(top):
    L = _lx(); stream = L["stream"]
    top.cd_other = L["ClockDomain"]("other")
    top.cdc = stream.ClockDomainCrossing([("data", 8)], "sys", "other", depth=4)
    return [top.cdc.sink, top.cdc.source, top.cd_other.clk, top.cd_other.rst]


@design("stream.Converter(8->32)+Converter(32->8)")
def _(top):
    L = _lx(); stream = L["stream"]
    top.up = stream.Converter(8, 32)
    top.down = stream.Converter(32, 8, reverse=True)
    top.comb += top.up.source.connect(top.down.sink)
    return [top.up.sink, top.down.source]


@design("stream.StrideConverter(16<->8,8)")
def _(top):
    L = _lx(); stream = L["stream"]
    a = stream.EndpointDescription([("a", 8), ("b", 8)], [("p", 2)])
    b = stream.EndpointDescription([("a", 4), ("b", 4)], [("p", 2)])
    top.down = stream.StrideConverter(a, b)
    top.up = stream.StrideConverter(b, a)
    return [top.down.sink, top.down.source, top.up.sink, top.up.source]


@design("stream.Gearbox(10->8)+Gearbox(8->10)")
def _(top):
    L = _lx(); stream = L["stream"]
    top.g0 = stream.Gearbox(10, 8)
    top.g1 = stream.Gearbox(8, 10, msb_first=False)
    top.comb += top.g0.source.connect(top.g1.sink)
    return [top.g0.sink, top.g1.source]


@design("stream.Pipeline(Buffer x3, same class repeated)")
def _(top):
    L = _lx(); stream = L["stream"]
    lay = [("data", 8)]
    top.b0 = stream.Buffer(lay)
    top.b1 = stream.Buffer(lay, pipe_valid=True, pipe_ready=True)
    top.b2 = stream.Buffer(lay)
    top.pipeline = stream.Pipeline(top.b0, top.b1, top.b2)
    return [top.pipeline.sink, top.pipeline.source]


@design("stream.anonymous submodules (PipeValid x2, PipeReady, Delay)")
def _(top):
    L = _lx(); stream = L["stream"]
    lay = [("data", 4)]
    ms = [stream.PipeValid(lay), stream.PipeValid(lay), stream.PipeReady(lay), stream.Delay(lay, 2)]
    top.submodules += ms            # anonymous: names come from class names + instance numbers
    for a, b in zip(ms, ms[1:]):
        top.comb += a.source.connect(b.sink)
    return [ms[0].sink, ms[-1].source]


@design("stream.Multiplexer(3)+Demultiplexer(3)")
def _(top):
    L = _lx(); stream = L["stream"]
    lay = [("data", 8)]
    top.mux = stream.Multiplexer(lay, 3)
    top.demux = stream.Demultiplexer(lay, 3)
    top.comb += top.mux.source.connect(top.demux.sink)
    return ([getattr(top.mux, f"sink{i}") for i in range(3)] + [getattr(top.demux, f"source{i}") for i in range(3)]
            + [top.mux.sel, top.demux.sel])


@design("stream.Pack(3)+Unpack(3)+Cast+Gate")
def _(top):
    L = _lx(); stream = L["stream"]
    lay = [("data", 4)]
    top.pack = stream.Pack(lay, 3)
    top.unpack = stream.Unpack(3, lay)
    top.gate = stream.Gate(lay)
    top.cast = stream.Cast([("data", 4)], [("lo", 2), ("hi", 2)])
    top.comb += [top.pack.source.connect(top.unpack.sink), top.unpack.source.connect(top.gate.sink),
                 top.gate.source.connect(top.cast.sink)]
    return [top.pack.sink, top.cast.source, top.gate.enable]


@design("packet.Packetizer+Depacketizer(16b, 3-byte header)")
def _(top):
    L = _lx(); stream, packet = L["stream"], L["packet"]
    hdr = packet.Header({"kind": packet.HeaderField(0, 0, 8), "len": packet.HeaderField(1, 0, 16)}, 3, swap_field_bytes=True)
    user = stream.EndpointDescription([("data", 16)], hdr.get_layout())
    user.payload_layout = [("data", 16), ("last_be", 2), ("error", 2)]
    raw = stream.EndpointDescription([("data", 16), ("last_be", 2), ("error", 2)])
    top.packetizer = packet.Packetizer(user, raw, hdr)
    top.depacketizer = packet.Depacketizer(raw, user, hdr)
    top.comb += top.packetizer.source.connect(top.depacketizer.sink)
    return [top.packetizer.sink, top.depacketizer.source]


@design("packet.PacketFIFO+Arbiter+Dispatcher")
def _(top):
    L = _lx(); stream, packet = L["stream"], L["packet"]
    d = stream.EndpointDescription([("data", 8)], [("dst", 2)])
    top.fifo = packet.PacketFIFO(d, payload_depth=8, param_depth=2)
    m = [stream.Endpoint(d, name=f"m{i}") for i in range(2)]
    s = [stream.Endpoint(d, name=f"s{i}") for i in range(2)]
    top.arbiter = packet.Arbiter(m, top.fifo.sink)
    top.dispatcher = packet.Dispatcher(top.fifo.source, s)
    return m + s + [top.dispatcher.sel]


# ---------------------------------------------------------------------------------------------------- wishbone

@design("wishbone.SRAM(64B,init)")
def _(top):
    L = _lx(); wishbone = L["wishbone"]
    top.sram = wishbone.SRAM(64, init=[i * 0x01010101 for i in range(8)])
    return [top.sram.bus]


@design("wishbone.SRAM x3 (same class repeated, bursting)")
def _(top):
    L = _lx(); wishbone = L["wishbone"]
    top.ram0 = wishbone.SRAM(32)
    top.ram1 = wishbone.SRAM(32, read_only=True, init=[1, 2, 3])
    top.ram2 = wishbone.SRAM(64, bus=wishbone.Interface(bursting=True))
    return [top.ram0.bus, top.ram1.bus, top.ram2.bus]


@design("wishbone.Arbiter(2)+Decoder(2)")
def _(top):
    L = _lx(); wishbone = L["wishbone"]
    ms = [wishbone.Interface(name=f"m{i}") for i in range(2)]
    ss = [wishbone.Interface(name=f"s{i}") for i in range(2)]
    shared = wishbone.Interface()
    top.arbiter = wishbone.Arbiter(ms, shared)
    top.decoder = wishbone.Decoder(shared, [(lambda a, i=i: a[8:10] == i, s) for i, s in enumerate(ss)], register=True)
    return ms + ss


@design("wishbone.InterconnectShared(2x2)+Timeout")
def _(top):
    L = _lx(); wishbone = L["wishbone"]
    ms = [wishbone.Interface() for i in range(2)]     # same variable name: "interface" x4
    ss = [wishbone.Interface() for i in range(2)]
    top.ic = wishbone.InterconnectShared(ms, [(lambda a, i=i: a[8:10] == i, s) for i, s in enumerate(ss)], register=True, timeout_cycles=16)
    return ms + ss


@design("wishbone.Crossbar(2x2)")
def _(top):
    L = _lx(); wishbone = L["wishbone"]
    ms = [wishbone.Interface() for i in range(2)]
    ss = [wishbone.Interface() for i in range(2)]
    top.xbar = wishbone.Crossbar(ms, [(lambda a, i=i: a[8:10] == i, s) for i, s in enumerate(ss)], register=False, timeout_cycles=16)
    return ms + ss


@design("wishbone.DownConverter(64->32)+UpConverter-less Converter")
def _(top):
    L = _lx(); wishbone = L["wishbone"]
    m = wishbone.Interface(data_width=64, adr_width=29)
    s = wishbone.Interface(data_width=32, adr_width=30)
    top.down = wishbone.DownConverter(m, s)
    m2 = wishbone.Interface(data_width=32, adr_width=30)
    s2 = wishbone.Interface(data_width=8, adr_width=32)
    top.conv = wishbone.Converter(m2, s2)
    return [m, s, m2, s2]


@design("wishbone.Cache(256)+SRAM")
def _(top):
    L = _lx(); wishbone = L["wishbone"]
    m = wishbone.Interface(data_width=32, adr_width=30)
    s = wishbone.Interface(data_width=64, adr_width=29)
    top.cache = wishbone.Cache(256, m, s)
    return [m, s]


# ---------------------------------------------------------------------------------------------------- AXI

@design("axi.AXILiteSRAM(64B)")
def _(top):
    L = _lx(); axi = L["axi"]
    top.sram = axi.AXILiteSRAM(64, init=[5, 6, 7])
    return [top.sram.bus]


@design("axi.AXILiteCrossbar(2x2)")
def _(top):
    L = _lx(); axi = L["axi"]
    ms = [axi.AXILiteInterface() for i in range(2)]
    ss = [axi.AXILiteInterface() for i in range(2)]
    top.xbar = axi.AXILiteCrossbar(ms, [(lambda a, i=i: a[8:10] == i, s) for i, s in enumerate(ss)], timeout_cycles=16)
    return ms + ss


@design("axi.AXILiteInterconnectShared(2x2)")
def _(top):
    L = _lx(); axi = L["axi"]
    ms = [axi.AXILiteInterface() for i in range(2)]
    ss = [axi.AXILiteInterface() for i in range(2)]
    top.ic = axi.AXILiteInterconnectShared(ms, [(lambda a, i=i: a[8:10] == i, s) for i, s in enumerate(ss)], timeout_cycles=16)
    return ms + ss


@design("axi.AXILite2Wishbone+Wishbone2AXILite")
def _(top):
    L = _lx(); axi, wishbone = L["axi"], L["wishbone"]
    a = axi.AXILiteInterface(); w = wishbone.Interface(addressing="word")
    top.a2w = axi.AXILite2Wishbone(a, w)
    a2 = axi.AXILiteInterface(); w2 = wishbone.Interface(addressing="word")
    top.w2a = axi.Wishbone2AXILite(w2, a2)
    return [a, w, a2, w2]


@design("axi.AXI2AXILite+AXILite2AXI")
def _(top):
    L = _lx(); axi = L["axi"]
    a = axi.AXIInterface(id_width=2); al = axi.AXILiteInterface()
    top.a2al = axi.AXI2AXILite(a, al)
    a2 = axi.AXIInterface(id_width=2); al2 = axi.AXILiteInterface()
    top.al2a = axi.AXILite2AXI(al2, a2)
    return [a, al, a2, al2]


@design("axi.AXIUpConverter(32->64)+AXIDownConverter(64->32)")
def _(top):
    L = _lx(); axi = L["axi"]
    a = axi.AXIInterface(data_width=32); b = axi.AXIInterface(data_width=64)
    top.up = axi.AXIUpConverter(a, b)
    c = axi.AXIInterface(data_width=64); d = axi.AXIInterface(data_width=32)
    top.down = axi.AXIDownConverter(c, d)
    return [a, b, c, d]


@design("axi.AXILiteDownConverter(64->32)+AXILiteUpConverter(32->64)")
def _(top):
    L = _lx(); axi = L["axi"]
    a = axi.AXILiteInterface(data_width=64); b = axi.AXILiteInterface(data_width=32)
    top.down = axi.AXILiteDownConverter(a, b)
    c = axi.AXILiteInterface(data_width=32); d = axi.AXILiteInterface(data_width=64)
    top.up = axi.AXILiteUpConverter(c, d)
    return [a, b, c, d]


# ---------------------------------------------------------------------------------------------------- CSR / cores

@design("csr.CSRBankArray(two peripherals of one class, fields)")
def _(top):
    L = _lx()
    LiteXModule, CSRStorage, CSRStatus, CSRField, csr_bus, Signal = (L[k] for k in
        ("LiteXModule", "CSRStorage", "CSRStatus", "CSRField", "csr_bus", "Signal"))

    class Periph(LiteXModule):
        def __init__(self):
            self.control = CSRStorage(fields=[CSRField("enable", 1), CSRField("mode", 2), CSRField("start", 1, pulse=True)])
            self.value = CSRStorage(40, atomic_write=True)
            self.status = CSRStatus(12)
            self.x = Signal(12)
            self.comb += self.status.status.eq(self.x + self.control.fields.mode)

    top.p0 = Periph()
    top.p1 = Periph()
    banks = csr_bus.CSRBankArray(top, lambda name, mem: {"p0": 0, "p1": 1}[name], data_width=8)
    top.banks = banks
    bus = csr_bus.Interface(data_width=8)
    top.csr_ic = csr_bus.Interconnect(bus, banks.get_buses())
    return [bus, top.p0.x, top.p1.x]


@design("csr.Wishbone2CSR+CSRBank(32b)+csr SRAM")
def _(top):
    L = _lx()
    wishbone, csr_bus, CSRStorage, CSRStatus = L["wishbone"], L["csr_bus"], L["CSRStorage"], L["CSRStatus"]
    regs = [CSRStorage(32, name="scratch", reset=0x12345678), CSRStatus(64, name="uptime"), CSRStorage(8, name="leds")]
    bus = csr_bus.Interface(data_width=32)
    top.bank = csr_bus.CSRBank(regs, address=0, bus=bus)
    top.bridge = wishbone.Wishbone2CSR(bus_csr=bus)
    bus2 = csr_bus.Interface(data_width=32)
    top.mem = csr_bus.SRAM(16, address=1, bus=bus2)
    return [top.bridge.wishbone, bus2, regs[1].status]


@design("cores.Timer x2 + EventManager")
def _(top):
    L = _lx()
    from litex.soc.cores.timer import Timer
    top.timer0 = Timer()
    top.timer1 = Timer(width=16)
    return [top.timer0.ev.irq, top.timer1.ev.irq, top.timer0._load.storage, top.timer1._load.storage,
            top.timer0._value.status]


@design("cores.UART(RS232PHY, fifo 4) ")
def _(top):
    L = _lx()
    from litex.soc.cores.uart import UART, RS232PHY
    pads = L["Record"]([("tx", 1), ("rx", 1)], name="serial")
    top.phy = RS232PHY(pads, clk_freq=1e6, baudrate=115200)
    top.uart = UART(top.phy, tx_fifo_depth=4, rx_fifo_depth=4)
    return [pads, top.uart.ev.irq]


@design("cores.SPIMaster+PWM+GPIO")
def _(top):
    L = _lx()
    from litex.soc.cores.spi import SPIMaster
    from litex.soc.cores.pwm import PWM
    from litex.soc.cores.gpio import GPIOOut, GPIOIn
    Record, Signal = L["Record"], L["Signal"]
    pads = Record([("clk", 1), ("cs_n", 2), ("mosi", 1), ("miso", 1)], name="spi")
    top.spi = SPIMaster(pads, data_width=8, sys_clk_freq=1e6, spi_clk_freq=1e5)
    pwm = Signal()
    top.pwm = PWM(pwm)
    leds = Signal(4); sw = Signal(4)
    top.leds = GPIOOut(leds)
    top.switches = GPIOIn(sw, with_irq=True)
    return [pads, pwm, leds, sw]


@design("cores.8b10b Encoder(2)+Decoder, ECC(8)")
def _(top):
    L = _lx()
    from litex.soc.cores.code_8b10b import Encoder, Decoder
    from litex.soc.cores.ecc import ECCEncoder, ECCDecoder
    top.enc = Encoder(2)
    top.dec0 = Decoder()
    top.dec1 = Decoder()
    top.ecc_enc = ECCEncoder(8)
    top.ecc_dec = ECCDecoder(8)
    top.comb += [top.dec0.input.eq(top.enc.output[0]), top.dec1.input.eq(top.enc.output[1]),
                 top.ecc_dec.i.eq(top.ecc_enc.o)]
    return ([top.enc.d[0], top.enc.d[1], top.enc.k[0], top.enc.k[1], top.dec0.d, top.dec0.k, top.dec1.d, top.dec1.k,
             top.ecc_enc.i, top.ecc_dec.o, top.ecc_dec.sec, top.ecc_dec.ded, top.ecc_dec.enable])


# ---------------------------------------------------------------------------------------------------- hierarchies

@design("hier.repeated leaf class at depth 3 (named + anonymous + list)")
def _(top):
    L = _lx()
    LiteXModule, Signal = L["LiteXModule"], L["Signal"]

    class Leaf(LiteXModule):
        def __init__(self, w):
            self.i = Signal(w); self.o = Signal(w); self.x = Signal(w); self.x_1 = Signal(w); self.x1 = Signal(w)
            self.sync += [self.x.eq(self.i), self.x_1.eq(self.x), self.x1.eq(self.x_1)]
            self.comb += self.o.eq(self.x1)

    class Mid(LiteXModule):
        def __init__(self, w):
            self.i = Signal(w); self.o = Signal(w); self.x = Signal(w)
            self.a = Leaf(w)
            self.b = Leaf(w)
            self.submodules += Leaf(w)            # anonymous
            self.leaves = [Leaf(w) for _ in range(2)]
            self.submodules += self.leaves
            ch = [self.a, self.b] + self.leaves
            self.comb += [ch[0].i.eq(self.i), self.o.eq(ch[-1].o), self.x.eq(self.i)]
            for p, q in zip(ch, ch[1:]):
                self.comb += q.i.eq(p.o)

    top.a = Mid(4)
    top.b = Mid(4)
    top.mid = Mid(3)
    top.x = Signal(4)
    top.comb += [top.b.i.eq(top.a.o), top.x.eq(top.a.o ^ top.b.o)]
    return [top.a.i, top.b.o, top.mid.i, top.mid.o, top.x]


@design("hier.records nested, Signal.like, FSM NextValue (related signals)")
def _(top):
    L = _lx()
    LiteXModule, Signal, Record, FSM, NextState, NextValue, If = (L[k] for k in
        ("LiteXModule", "Signal", "Record", "FSM", "NextState", "NextValue", "If"))

    class Ctl(LiteXModule):
        def __init__(self):
            self.bus = Record([("cmd", [("valid", 1), ("op", 2)]), ("rsp", [("valid", 1), ("data", 8)])])
            self.count = Signal(4)
            self.shadow = Signal.like(self.count)
            self.data = Signal(8)
            self.fsm = fsm = FSM(reset_state="IDLE")
            fsm.act("IDLE", If(self.bus.cmd.valid, NextValue(self.count, 0), NextValue(self.data, 1), NextState("RUN")))
            fsm.act("RUN", NextValue(self.count, self.count + 1), NextValue(self.data, self.data << 1),
                    If(self.count == 7, NextValue(self.shadow, self.count), NextState("DONE")))
            fsm.act("DONE", self.bus.rsp.valid.eq(1), self.bus.rsp.data.eq(self.data), NextState("IDLE"))

    top.ctl0 = Ctl()
    top.ctl1 = Ctl()
    top.ctl = Ctl()
    return [top.ctl0.bus, top.ctl1.bus, top.ctl.bus]


@design("hier.related chains of depth 2 and 3 beside shorter chains with the same tail (explicit back-traces)")
def _(top):
    L = _lx()
    Signal = L["Signal"]

    def sig(width, path, related=None):
        s = Signal(width, related=related, name=path[-1][0])
        s.backtrace = list(path)
        return s
    T = ("top", 0)
    i, o = sig(8, [T, ("i", 0)]), sig(8, [T, ("o", 0)])
    data, x, y = sig(1, [T, ("data", 0)]), sig(1, [T, ("x", 0)]), sig(1, [T, ("x", 1)])
    data_next = sig(1, [T, ("next", 1)], related=data)              # data <- next
    x_data = sig(8, [T, ("data", 1)], related=x)                    # x <- data
    x_data_next = sig(8, [T, ("next", 0)], related=x_data)          # x <- data <- next
    x_x = sig(2, [T, ("x", 0)], related=x)                          # x <- x
    x_x_x = sig(3, [T, ("x", 0)], related=x_x)                      # x <- x <- x
    x_x_x_x = sig(4, [T, ("x", 0)], related=x_x_x)                  # x <- x <- x <- x
    y_data = sig(5, [T, ("data", 0)], related=y)                    # the other x <- data
    y_data_next = sig(6, [T, ("next", 0)], related=y_data)
    top.comb += [data.eq(i[0]), x.eq(i[1]), y.eq(i[2]), x_data.eq(i + x), x_data_next.eq(x_data + 1), data_next.eq(data),
                 x_x.eq(i[:2]), x_x_x.eq(x_x + 1), x_x_x_x.eq(x_x_x + y), y_data.eq(i[3:]), y_data_next.eq(y_data + 1),
                 o.eq(x_data_next + data_next + x_x_x_x + y_data_next)]
    return [i, o]


@design("hier.memories (same name in repeated modules, all port modes, init) + MultiReg")
def _(top):
    L = _lx()
    LiteXModule, Signal, Memory, MultiReg = L["LiteXModule"], L["Signal"], L["Memory"], L["MultiReg"]
    from migen.fhdl.specials import READ_FIRST, NO_CHANGE, WRITE_FIRST

    class Store(LiteXModule):
        def __init__(self, mode, init=None):
            self.adr = Signal(3); self.dat_w = Signal(8); self.dat_r = Signal(8); self.we = Signal(); self.radr = Signal(3)
            self.rdat = Signal(8); self.sync_in = Signal(); self.sync_out = Signal()
            self.mem = mem = Memory(8, 8, init=init)
            self.wport = wp = mem.get_port(write_capable=True, mode=mode)
            self.rport = rp = mem.get_port(async_read=(mode == NO_CHANGE), has_re=(mode == READ_FIRST))
            self.specials += wp, rp
            self.comb += [wp.adr.eq(self.adr), wp.dat_w.eq(self.dat_w), wp.we.eq(self.we), self.dat_r.eq(wp.dat_r),
                          rp.adr.eq(self.radr), self.rdat.eq(rp.dat_r)]
            if mode == READ_FIRST:
                self.comb += rp.re.eq(self.we)
            self.specials += MultiReg(self.sync_in, self.sync_out)
            # several (name, value) attributes on one net: a set of str tuples, its iteration order follows PYTHONHASHSEED
            self.sync_out.attr.update({("keep", "true"), ("mark_debug", "true"), ("async_reg", "true"), ("dont_touch", "true"),
                                       ("max_fanout", 8), ("shreg_extract", "no")})

    top.s0 = Store(WRITE_FIRST, init=[1, 2, 3])
    top.s1 = Store(READ_FIRST)
    top.s2 = Store(NO_CHANGE, init=[9] * 8)
    top.store = Store(WRITE_FIRST)
    r = []
    for s in (top.s0, top.s1, top.s2, top.store):
        r += [s.adr, s.dat_w, s.dat_r, s.we, s.radr, s.rdat, s.sync_in, s.sync_out]
    return r


@design("hier.instances (same cell type x3, named instance, parameters)")
def _(top):
    L = _lx()
    LiteXModule, Signal, Instance = L["LiteXModule"], L["Signal"], L["Instance"]

    class Cell(LiteXModule):
        def __init__(self):
            self.i = Signal(4); self.o = Signal(4)
            self.specials += Instance("BUFX", p_WIDTH=4, p_MODE="fast", i_I=self.i, o_O=self.o, i_CLK=L["migen"].ClockSignal("sys"))

    top.c0 = Cell(); top.c1 = Cell(); top.c2 = Cell()
    q = Signal()
    top.specials += Instance("FLOP", name="my_flop", i_D=top.c0.o[0], o_Q=q, i_C=L["migen"].ClockSignal("sys"))
    top.specials += Instance("FLOP", i_D=top.c1.o[0], o_Q=Signal(name="q_unused"), i_C=L["migen"].ClockSignal("sys"))
    return [top.c0.i, top.c1.i, top.c2.i, top.c0.o, top.c1.o, top.c2.o, q]


@design("hier.keyword-named signals that LiteX does escape (reg, wire, input, output, always, module, begin, end)")
def _(top):
    L = _lx()
    LiteXModule, Signal = L["LiteXModule"], L["Signal"]

    class K(LiteXModule):
        def __init__(self):
            for n in ("reg", "wire", "input", "output", "always", "module", "begin", "end", "signed", "case", "default"):
                setattr(self, n, Signal(2, name=n))
            self.comb += [self.output.eq(self.input + self.reg), self.wire.eq(self.always ^ self.module)]
            self.sync += [self.begin.eq(self.end), self.signed.eq(self.case & self.default)]
    top.k = K()
    io = Signal(2, name="logic")    # a port whose name is a (SystemVerilog) keyword
    top.comb += io.eq(top.k.output)
    return [top.k.input, io]


@design("tie.same name, same scope: [Signal(name='stage') x4], anonymous comprehensions of Signals and sub-modules")
def _(top):
    L = _lx()
    LiteXModule, Signal, Cat = L["LiteXModule"], L["Signal"], L["Cat"]

    class Pipe(LiteXModule):
        def __init__(self, n):
            self.i = Signal(4); self.o = Signal(4)
            stages = [Signal(4, name="stage") for _ in range(n)]         # n signals: same name AND same scope
            taps = [Signal() for _ in range(3)]                          # anonymous, from a comprehension
            self.sync += [a.eq(b) for a, b in zip(stages, [self.i] + stages)]
            self.comb += [t.eq(st[k]) for k, (t, st) in enumerate(zip(taps, stages))]
            self.comb += self.o.eq(stages[-1] ^ Cat(*taps))

    class Cell(LiteXModule):
        def __init__(self):
            self.d = Signal(4); self.q = Signal(4)
            self.sync += self.q.eq(self.d)

    top.pipe = Pipe(4)
    top.submodules += [Pipe(5) for _ in range(2)]                        # anonymous sub-modules of one class
    cells = [Cell() for _ in range(4)]
    top.submodules += cells
    for a, b in zip(cells, cells[1:]):
        top.comb += b.d.eq(a.q)
    acc = [Signal(4, name="acc") for _ in range(6)]                      # six equal names at top level
    top.sync += [a.eq(b + 1) for a, b in zip(acc, [cells[-1].q] + acc)]
    top.o = Signal(4)
    top.comb += top.o.eq(acc[-1])
    return [top.pipe.i, top.pipe.o, cells[0].d, top.o]


@design("tie.same name, same scope inside repeated named modules + records/memories with equal names")
def _(top):
    L = _lx()
    LiteXModule, Signal, Record, Memory = L["LiteXModule"], L["Signal"], L["Record"], L["Memory"]

    class Lane(LiteXModule):
        def __init__(self):
            self.i = Signal(8); self.o = Signal(8)
            d = self.i
            for _ in range(3):
                stage = Signal(8)                    # three different signals called "stage" in one scope
                self.sync += stage.eq(d)
                d = stage
            recs = [Record([("valid", 1), ("data", 8)], name="beat") for _ in range(3)]     # three records called "beat"
            self.comb += [recs[0].data.eq(d), recs[0].valid.eq(1)]
            for a, b in zip(recs, recs[1:]):
                self.sync += [b.data.eq(a.data), b.valid.eq(a.valid)]
            mems = [Memory(8, 4, name="lut") for _ in range(2)]                              # two memories called "lut"
            self.specials += mems
            ports = [m.get_port(write_capable=True) for m in mems]
            self.specials += ports
            for p_ in ports:
                self.comb += [p_.adr.eq(recs[-1].data[:2]), p_.dat_w.eq(recs[-1].data), p_.we.eq(recs[-1].valid)]
            self.comb += self.o.eq(ports[0].dat_r ^ ports[1].dat_r)

    top.lane0 = Lane(); top.lane1 = Lane()
    top.lanes = [Lane() for _ in range(2)]
    top.submodules += top.lanes
    return [l.i for l in (top.lane0, top.lane1, *top.lanes)] + [l.o for l in (top.lane0, top.lane1, *top.lanes)]


# Adversarial user naming the property quantifies over (equal names, numeric suffixes, reserved words).  They are
# ordinary FHDL programs; nothing is injected.  On the pinned tree the first three exhibit candidates d / e of
# DESIGN.md section 3 at the netlist level.

@design("adv.ports x,x + signal x_1 (suffix aliasing through convert's port renaming)")
def _(top):
    L = _lx()
    LiteXModule, Signal = L["LiteXModule"], L["Signal"]

    class Ch(LiteXModule):
        def __init__(self):
            self.x = Signal(4)          # becomes a port: convert() overrides its name with the leaf name "x"
            self.y = Signal(4)
            self.sync += self.y.eq(self.x)
    top.a = Ch(); top.b = Ch()
    top.x_1 = Signal(4)                  # an internal register the user happened to call x_1
    top.o = Signal(4)
    top.sync += top.x_1.eq(top.a.y + top.b.y)
    top.comb += top.o.eq(top.x_1)
    return [top.a.x, top.b.x, top.o]


@design("adv.memories mem,mem + mem_1 (suffix aliasing between memories)")
def _(top):
    L = _lx()
    LiteXModule, Signal, Memory = L["LiteXModule"], L["Signal"], L["Memory"]

    class St(LiteXModule):
        def __init__(self):
            self.adr = Signal(2); self.dat = Signal(4)
            self.mem = mem = Memory(4, 4, init=[1, 2, 3, 4])
            self.port = p = mem.get_port()
            self.specials += p
            self.comb += [p.adr.eq(self.adr), self.dat.eq(p.dat_r)]
    top.s0 = St(); top.s1 = St()
    top.adr = Signal(2); top.dat = Signal(4)
    mem_1 = Memory(4, 4, init=[4, 3, 2, 1])          # a third memory kept in a variable called mem_1
    top.specials += mem_1
    p = mem_1.get_port()
    top.specials += p
    top.comb += [p.adr.eq(top.adr), top.dat.eq(p.dat_r)]
    return [top.s0.adr, top.s0.dat, top.s1.adr, top.s1.dat, top.adr, top.dat]


@design("adv.signals named repeat, union, uwire")
def _(top):
    L = _lx()
    Signal = L["Signal"]
    top.repeat = Signal(4)
    top.union = Signal(4)
    top.uwire = Signal()
    top.o = Signal(4)
    top.sync += top.repeat.eq(top.repeat + 1)
    top.comb += [top.union.eq(top.repeat ^ 5), top.uwire.eq(top.union == 3), top.o.eq(top.union)]
    return [top.o]


@design("adv.instances FOO,FOO + FOO_1, memory helper vs user signal storage_adr0")
def _(top):
    L = _lx()
    LiteXModule, Signal, Instance, Memory = L["LiteXModule"], L["Signal"], L["Instance"], L["Memory"]
    a, b, c = Signal(name="qa"), Signal(name="qb"), Signal(name="qc")
    d = Signal(name="d")
    top.specials += Instance("FOO", i_D=d, o_Q=a), Instance("FOO", i_D=d, o_Q=b), Instance("FOO_1", i_D=d, o_Q=c)
    top.storage = storage = Memory(4, 4)
    top.port = p = storage.get_port(write_capable=True)
    storage_adr0 = Signal(2, name="storage_adr0")     # user signal named like the helper register LiteX will create
    top.comb += [p.adr.eq(storage_adr0), p.dat_w.eq(L["Cat"](a, b, c)), p.we.eq(d)]
    return [d, storage_adr0, p.dat_r]


@design("adv.memory and instances named with reserved words (table, buf, reg) while no signal carries those words")
def _(top):
    L = _lx()
    Signal, Instance, Memory = L["Signal"], L["Instance"], L["Memory"]
    a, d, we = Signal(name="qa"), Signal(name="d"), Signal(name="wen")
    adr = Signal(2, name="idx")
    top.specials += Instance("BUFG", name="buf", i_I=d, o_O=a), Instance("FDRE", name="reg", i_D=a, o_Q=Signal(name="qb"))
    top.lut = lut = Memory(4, 4, name="table")
    top.port = p = lut.get_port(write_capable=True)
    top.comb += [p.adr.eq(adr), p.dat_w.eq(L["Cat"](a, d)), p.we.eq(we)]
    return [d, we, adr, p.dat_r]


@design("adv.memory helper registers vs user signals mem_adr0 / mem_dat1 / mem_adr2 (all sync port modes)")
def _(top):
    L = _lx()
    Signal, Memory = L["Signal"], L["Memory"]
    from migen.fhdl.specials import READ_FIRST, NO_CHANGE
    top.mem = mem = Memory(8, 4, name="mem")
    top.p0 = p0 = mem.get_port(write_capable=True)                        # WRITE_FIRST: helper address register
    top.p1 = p1 = mem.get_port(write_capable=True, mode=READ_FIRST)       # helper data register
    top.p2 = p2 = mem.get_port(mode=NO_CHANGE, write_capable=True)
    top.p3 = p3 = mem.get_port(async_read=True)
    u0, u1, u2 = Signal(2, name="mem_adr0"), Signal(8, name="mem_dat1"), Signal(2, name="mem_adr2")   # named like the helpers LiteX creates
    u3, u4 = Signal(8, name="mem_dat2"), Signal(2, name="mem_adr3")
    we = Signal(name="we")
    top.sync += [u1.eq(p0.dat_r ^ p1.dat_r), u3.eq(p2.dat_r | p3.dat_r)]
    top.comb += [p0.adr.eq(u0), p1.adr.eq(u2), p2.adr.eq(u4), p3.adr.eq(u0 ^ u2), p0.dat_w.eq(u1), p1.dat_w.eq(u3), p2.dat_w.eq(u1 & u3),
                 p0.we.eq(we), p1.we.eq(we), p2.we.eq(~we)]
    return [u0, u2, u4, we, u1, u3]


# ---------------------------------------------------------------------------------------------------- the child

def build(name):
    """-> (top module, set of io signals)."""
    tier, fn = REGISTRY[name]
    top = make_top()
    ports = fn(top)
    ios = flat(ports) | {top.cd_sys.clk, top.cd_sys.rst}
    return top, ios


def convert_observed(name):
    """Build + convert one design, observing every ns.get_name call of the generator.  -> JSON-able dict."""
    from migen.fhdl.structure import ClockSignal, ResetSignal
    import importlib
    V = importlib.import_module("litex.gen.fhdl.verilog")      # (`import litex.gen.fhdl.verilog as V` resolves to migen's)
    top, ios = build(name)
    calls = []          # (kind, duid, returned name, base name)
    box = {}
    orig_build = V.build_signal_namespace

    def build_ns(*a, **kw):
        ns = orig_build(*a, **kw)
        real = ns.get_name

        def get_name(sig):
            r = real(sig)
            if sig is not None and not isinstance(sig, (ClockSignal, ResetSignal)):
                base = getattr(sig, "name_override", None)
                if base is None:
                    base = ns.name_dict.get(sig) if hasattr(ns, "name_dict") else None
                calls.append((type(sig).__name__, getattr(sig, "duid", -1), r, base))
            return r
        ns.get_name = get_name
        box["ns"] = ns
        return ns
    V.build_signal_namespace = build_ns
    try:
        out = V.convert(top, ios=ios, name="top")
    finally:
        V.build_signal_namespace = orig_build
    return dict(design=name, verilog=out.main_source, data_files={k: v for k, v in sorted(out.data_files.items())},
                calls=calls, n_ios=len(ios))


def child_main(argv):
    """argv: design name, heap padding objects, dummy Signals created before the design is built, conversions to run."""
    name, pad = argv[0], int(argv[1])
    ndummy = int(argv[2]) if len(argv) > 2 else 0
    times = int(argv[3]) if len(argv) > 3 else 1
    junk = [object() for _ in range(pad)]      # shifts every later allocation: id()-ordered containers differ per run
    try:
        _lx()                                  # import LiteX first: the dummies must only shift the DESIGN's DUIDs
        from migen import Signal
        dummies = [Signal() for _ in range(ndummy)]
        doc = convert_observed(name)
        doc["first_duid_after_dummies"] = Signal().duid
        # the same design built and converted again in the SAME process (its DUIDs and tracer counters moved on)
        doc["rebuilds"] = [convert_observed(name)["verilog"] for _ in range(times - 1)]
        # DUID sweep: the design built again with its first DUID at every residue modulo `sweep` (dummy Signals fill the
        # gap); only the distinct texts are returned, each with the first residue that produced it
        sweep = int(argv[4]) if len(argv) > 4 else 0
        if sweep:
            import re
            mask = lambda t: re.sub(r"(?m)^// Date       : .*$", "// <date>", re.sub(r"(?m)^//  Auto-Generated by LiteX on .*$", "// <date>", t))
            from migen.fhdl.structure import DUID      # one identifier per object (a Signal takes two: itself and its reset Constant)
            b0 = DUID().duid + 1
            texts, residues = {}, set()
            for k in range(sweep):
                while (DUID().duid + 1 - b0) % sweep != k:
                    pass
                residues.add(DUID().duid % sweep)
                t = convert_observed(name)["verilog"]
                texts.setdefault(mask(t), (k, t))
            doc["sweep"] = dict(residues=len(residues), distinct=[[k, t] for k, t in texts.values()])
        doc["ok"] = True
        del dummies
    except Exception:
        import traceback
        doc = dict(design=name, ok=False, error=traceback.format_exc())
    del junk
    sys.stdout.write(json.dumps(doc))
    sys.stdout.flush()


if __name__ == "__main__":
    child_main(sys.argv[1:])
