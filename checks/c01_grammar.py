"""C01 program source (i): the bounded-exhaustive FHDL fragment grammar (DESIGN.md §4 C01).

Combinational classes: a *fragment* is (label, build) where build(m, env) adds statements to module m and returns the
list of target Signals to observe.  Fragments of one shape class and one input configuration are packed into one module
(they share the inputs a, b, c), converted once and evaluated on ALL input values.

Class names (first component of the configuration name, so that a known-findings regex can select one defect class):
    arith   depth<=1 operators over the two inputs                      (no constants)
    kpos    ... with non-negative, unsigned constants
    kneg    ... with negative constants                                    (candidate f lives here)
    ksig    ... with explicitly signed non-negative constants             (candidate f)
    slop    a slice of an input as operand of arithmetic / comparison     (candidate g when the input is signed)
    catsig  Cat / Replicate / partial slices over signals only            (expected clean)
    catrep  Cat / Replicate / slices of expressions on the right
    lhs     slices / Cat on the left
    constblk comb targets assigned only constants through slices/If/Case  (candidate bb)
    ctl_if / ctl_case / ctl_arr   If / Elif / Else; Case (with/without default, signed test); Array read / write
    d2_<inner>  depth-2 expressions where sizing matters, one class per inner node kind (add sub mul shl shr mux sl cat
            neg inv cmp and)                                               (h1 / h2 gaps live here)
"""
import fsmc  # noqa: F401
from migen import *
from migen.fhdl.structure import _Operator, _Slice

# ---- expression combinators: (label, build(env)) -----------------------------------------------------------------
def IN(n):
    return (n, lambda e: e[n])


def K(v, bs=None):
    if bs is None:
        return (f"{v}", lambda e: Constant(v))
    return (f"C({v},{bs[0]}{'s' if bs[1] else 'u'})", lambda e: Constant(v, bs))


def OP(op, *xs):
    sym = {"<<<": "<<", ">>>": ">>"}.get(op, op)
    if len(xs) == 1:
        lab = f"({sym}{xs[0][0]})"
    elif op == "m":
        lab = f"Mux({xs[0][0]},{xs[1][0]},{xs[2][0]})"
    else:
        lab = f"({xs[0][0]}{sym}{xs[1][0]})"
    return (lab, lambda e: _Operator(op, [x[1](e) for x in xs]))


def SL(x, lo, hi):
    return (f"{x[0]}[{lo}:{hi}]", lambda e: x[1](e)[lo:hi])


def BIT(x, i):
    return (f"{x[0]}[{i}]", lambda e: x[1](e)[i])


def CAT(*xs):
    return ("Cat(" + ",".join(x[0] for x in xs) + ")", lambda e: Cat(*[x[1](e) for x in xs]))


def REP(x, n):
    return (f"Rep({x[0]},{n})", lambda e: Replicate(x[1](e), n))


def ARR(xs, key):
    return ("Array[" + ",".join(x[0] for x in xs) + "][" + key[0] + "]", lambda e: Array([x[1](e) for x in xs])[key[1](e)])


A, B, Cc = IN("a"), IN("b"), IN("c")
C0 = BIT(Cc, 0)

BINOPS = ["+", "-", "*", "&", "|", "^", "==", "!=", "<", "<=", ">", ">="]
COMMUT = {"+", "*", "&", "|", "^", "==", "!="}

TARGETS = {"thorough": [(1, False), (3, False), (3, True), (5, False), (5, True), (8, False), (8, True)],
           "quick":    [(1, False), (3, False), (5, True), (8, False), (8, True)]}


def tlabel(t):
    return f"{'s' if t[1] else 'u'}{t[0]}"


def icfg_label(ic):
    wa, sa, wb, sb = ic
    return f"a{wa}{'s' if sa else 'u'}_b{wb}{'s' if sb else 'u'}"


def icfgs(tier):
    ws = [(3, 3), (4, 3), (3, 4), (1, 3), (3, 1), (4, 4), (1, 1), (1, 4), (4, 1)] if tier == "thorough" else [(3, 3), (4, 3), (1, 3)]
    return [(wa, sa, wb, sb) for wa, wb in ws for sa in (False, True) for sb in (False, True)]


def comb_frags(exprs, tier):
    """every expression assigned to every target type, as a comb statement"""
    out = []
    for x in exprs:
        for t in TARGETS[tier]:
            def build(m, env, x=x, t=t):
                e = x[1](env)
                if len(e) < 1:
                    raise IndexError("empty expression")
                y = m.new_target(t)
                m.comb += y.eq(e)
                return [y]
            out.append((f"{x[0]}->{tlabel(t)}", build))
    return out


# ---- shape classes -------------------------------------------------------------------------------------------------
def _with_consts(consts):
    ex = []
    for k in consts:
        for op in BINOPS:
            ex.append(OP(op, A, k))
            if op not in COMMUT:
                ex.append(OP(op, k, A))
        ex.append(OP("m", C0, A, k))
        ex.append(OP("m", C0, k, B))
        ex.append(OP(">>>", k, Cc))
        ex.append(OP("<<<", k, Cc))
    return ex


def cls_arith(ic, tier):
    ex = []
    for op in BINOPS:
        ex.append(OP(op, A, B))
        if op not in COMMUT:
            ex.append(OP(op, B, A))
    ex += [OP("~", A), OP("-", A), OP("~", B), OP("-", B), A, B]
    ex += [OP("<<<", A, Cc), OP(">>>", A, Cc), OP(">>>", A, K(1)), OP("<<<", A, K(1)), OP(">>>", B, Cc), OP("<<<", B, K(2)),
           OP(">>>", A, K(5))]
    ex += [OP("m", C0, A, B), OP("m", C0, B, A), OP("m", A, B, Cc), OP("m", OP("<", A, B), A, B)]
    return comb_frags(ex, tier)


def cls_kpos(ic, tier):
    return comb_frags(_with_consts([K(0), K(1), K(5), K(2, (4, False))]), tier)


def cls_kneg(ic, tier):
    return comb_frags(_with_consts([K(-1), K(-3), K(-2, (4, True))]), tier)


def cls_ksig(ic, tier):
    return comb_frags(_with_consts([K(5, (4, True)), K(1, (2, True))]), tier)


def _slices_of(x, w):
    if w >= 3:
        return [SL(x, 0, 2), SL(x, 1, 3), BIT(x, 0), BIT(x, w - 1), SL(x, 0, w)]
    return [BIT(x, 0)]


def cls_slop(ic, tier):
    wa, sa, wb, sb = ic
    ex = []
    for s in _slices_of(A, wa):
        for op in ["+", "-", "*", "&", "|", "^", "<", ">=", "=="]:
            ex.append(OP(op, s, B))
        ex.append(OP("-", B, s))
        ex.append(OP("<", B, s))
        ex.append(OP("m", C0, s, B))
        ex.append(OP("-", s))
        ex.append(OP("~", s))
        ex.append(OP(">>>", s, K(1)))
        ex.append(s)
    for s in _slices_of(B, wb)[:2]:
        ex.append(OP("+", A, s))
        ex.append(OP("<", A, s))
    return comb_frags(ex, tier)


def cls_catsig(ic, tier):
    """Cat / Replicate / partial slices whose members are signals, constants and slices only (no operator inside a
    concatenation, no full-width slice): expected to be free of every known printer defect"""
    wa, sa, wb, sb = ic
    s2 = SL(A, 0, 2) if wa >= 3 else BIT(A, 0)
    ex = [CAT(A, B), CAT(B, A, Cc), OP("+", CAT(A, B), Cc), OP("<", CAT(A, BIT(B, 0)), Cc), OP("-", CAT(A, B)), OP("~", CAT(A, B)),
          REP(s2, 2), REP(A, 2), REP(B, 3), OP("+", REP(A, 2), Cc), REP(CAT(A, BIT(B, 0)), 2), CAT(A, K(1, (2, False)), B),
          CAT(K(3), A), CAT(REP(BIT(A, 0), 2), B), SL(CAT(A, B), 1, wa + wb - 1) if wa + wb > 2 else BIT(CAT(A, B), 1),
          SL(CAT(A, B), max(wa - 1, 0), wa + 1), BIT(CAT(A, B), wa), SL(REP(A, 2), 1, wa + 1) if wa > 1 else BIT(REP(A, 2), 1),
          s2, BIT(A, wa - 1), BIT(B, 0), OP("==", REP(BIT(A, 0), 3), CAT(Cc, K(0, (1, False)))), OP("m", C0, CAT(A, B), REP(Cc, 2)),
          OP(">>>", CAT(A, B), K(1)), OP("<<<", CAT(A, B), Cc), OP("&", CAT(A, B), REP(Cc, 3))]
    # degenerate forms: a one-fold replication and a one-member concatenation are still unsigned, self-determined values (a printer that
    # drops the braces hands the bare - possibly signed - operand to the context)
    ex += [REP(A, 1), OP("~", REP(A, 1)), OP("m", C0, REP(A, 1), REP(B, 1)), OP("+", REP(A, 1), B), CAT(A), OP("~", CAT(A)), OP("-", CAT(B)),
           OP("m", C0, CAT(A), CAT(B))]
    if wa >= 3:
        ex += [SL(SL(A, 1, 3), 0, 1), BIT(SL(A, 0, 2), 1), SL(SL(CAT(A, B), 1, 5), 1, 3)]
    return comb_frags(ex, tier)


def cls_catrep(ic, tier):
    wa, sa, wb, sb = ic
    s2 = SL(A, 0, 2) if wa >= 2 else BIT(A, 0)
    ex = [OP("+", CAT(A, B), B), OP("+", CAT(A, BIT(B, 0)), B), OP("<", CAT(A, B), B),
          OP("+", REP(A, 2), B), CAT(A, K(1, (2, True)), B),
          CAT(OP("+", A, B), A), CAT(OP("-", A), B), CAT(OP("<", A, B), OP("~", A)), CAT(K(-1), A),
          SL(OP("+", A, B), 1, 3), BIT(OP("+", A, B), 0), BIT(OP("+", A, B), max(wa, wb)),
          SL(OP("*", A, B), 1, 3), SL(OP("-", A), 0, 2), SL(OP("~", A), 0, wa), BIT(OP("<", A, B), 0),
          SL(OP("m", C0, A, B), 0, 1), SL(OP(">>>", A, K(1)), 0, wa), SL(OP("-", A, B), 0, 2), BIT(OP("-", A, B), max(wa, wb)),
          SL(CAT(OP("+", A, B), A), 1, 4), REP(BIT(A, 0), 3), OP("==", REP(BIT(A, 0), 3), CAT(B, K(0, (1, False))))]
    if wa >= 3:
        ex += [SL(SL(A, 1, 3), 0, 1), BIT(SL(A, 0, 3), 2), SL(SL(CAT(A, B), 1, 5), 1, 3)]
    return comb_frags(ex, tier)


D2_INNER = ["add", "sub", "mul", "shl", "shr", "mux", "sl", "cat", "neg", "inv", "cmp", "and"]


def cls_d2(ic, tier, which):
    """depth 2 where sizing matters: an arithmetic/shift/Mux/slice/Cat node (`which`, one class per inner node kind so
    that a known finding can name it) under a shift, comparison, Mux, slice, Cat, arithmetic"""
    wa, sa, wb, sb = ic
    inner = [OP("+", A, B), OP("-", A, B), OP("*", A, B), OP("<<<", A, Cc), OP(">>>", A, K(1)), OP("m", C0, A, B),
             SL(A, 0, 2) if wa >= 2 else BIT(A, 0), CAT(A, BIT(B, 0)), OP("-", A), OP("~", A), OP("<", A, B), OP("&", A, B)]
    ex = []
    for x in [inner[D2_INNER.index(which)]]:
        ex += [OP(">>>", x, K(1)), OP(">>>", x, Cc), OP("<<<", x, K(1)), OP("==", x, B), OP("==", B, x), OP("<", x, B), OP(">=", B, x),
               OP("m", C0, x, B), OP("m", x, A, B), BIT(x, 0), CAT(x, A), OP("+", x, A), OP("+", B, x), OP("-", B, x), OP("*", x, B),
               OP("-", x), OP("~", x), OP("|", x, B), REP(x, 2), OP("<<<", A, SL(x, 0, 1))]
    return comb_frags(ex, tier)


# ---- statement-level classes (each fragment builds its own targets) ----------------------------------------------------
def _stmt_frag(label, fn):
    return (label, fn)


def cls_lhs(ic, tier):
    wa, sa, wb, sb = ic
    E = [A, B, OP("+", A, B), OP("-", A), CAT(A, B), K(-3), OP("<", A, B)]
    fr = []
    for sg in (False, True):
        for x in E:
            def f1(m, env, x=x, sg=sg):
                y = m.new_target((5, sg), reset=0b10101)
                m.comb += y[1:3].eq(x[1](env))
                return [y]
            fr.append((f"y{tlabel((5, sg))}[1:3]<={x[0]}", f1))

            def f2(m, env, x=x, sg=sg):
                y = m.new_target((5, sg), reset=0b01010)
                m.comb += [y[0:2].eq(x[1](env)), y[2:].eq(env["b"]), y[4].eq(env["a"][0])]
                return [y]
            fr.append((f"y{tlabel((5, sg))}[0:2]<={x[0]};y[2:]<=b;y[4]<=a[0]", f2))

            def f3(m, env, x=x, sg=sg):
                y1 = m.new_target((2, sg)); y2 = m.new_target((3, not sg)); y3 = m.new_target((1, False))
                m.comb += Cat(y1, y2, y3).eq(x[1](env))
                return [y1, y2, y3]
            fr.append((f"Cat(y1{tlabel((2, sg))},y2,y3)<={x[0]}", f3))

            def f4(m, env, x=x, sg=sg):
                y = m.new_target((5, sg), reset=3); z = m.new_target((3, sg))
                m.comb += Cat(y[1:3], z, y[4]).eq(x[1](env))
                return [y, z]
            fr.append((f"Cat(y{tlabel((5, sg))}[1:3],z,y[4])<={x[0]}", f4))

            def f5(m, env, x=x, sg=sg):
                y = m.new_target((8, sg), reset=0xC3)
                m.comb += y[1:7][1:4].eq(x[1](env))
                return [y]
            fr.append((f"y{tlabel((8, sg))}[1:7][1:4]<={x[0]}", f5))

            def f6(m, env, x=x, sg=sg):
                y = m.new_target((5, sg), reset=0b10001)
                m.comb += [y.eq(x[1](env)), If(env["c"][0], y[1:3].eq(env["b"]))]
                return [y]
            fr.append((f"y{tlabel((5, sg))}<={x[0]};If(c0,y[1:3]<=b)", f6))
    return fr


def cls_constblk(ic, tier):
    fr = []
    for sg in (False, True):
        def f1(m, env, sg=sg):
            y = m.new_target((4, sg))
            m.comb += y[0:2].eq(1)
            return [y]
        fr.append((f"y{tlabel((4, sg))}[0:2]<=1", f1))

        def f2(m, env, sg=sg):
            y = m.new_target((4, sg), reset=9)
            m.comb += [y[0:2].eq(2), y[3].eq(0)]
            return [y]
        fr.append((f"y{tlabel((4, sg))}(reset9)[0:2]<=2;y[3]<=0", f2))

        def f3(m, env, sg=sg):
            y = m.new_target((4, sg))
            m.comb += If(1, y.eq(5))
            return [y]
        fr.append((f"If(1,y{tlabel((4, sg))}<=5)", f3))

        def f4(m, env, sg=sg):
            y = m.new_target((4, sg))
            m.comb += Case(Constant(2, 2), {2: y.eq(6), "default": y.eq(1)})
            return [y]
        fr.append((f"Case(C2,{{2:y{tlabel((4, sg))}<=6}})", f4))

        def f5(m, env, sg=sg):
            y = m.new_target((4, sg)); z = m.new_target((4, sg))
            m.comb += Cat(y, z).eq(0xA5)
            return [y, z]
        fr.append((f"Cat(y{tlabel((4, sg))},z)<=0xA5", f5))

        def f6(m, env, sg=sg):
            y = m.new_target((4, sg))
            m.comb += y.eq(-3 if sg else 11)       # single whole-signal constant assign: a wire, control case
            return [y]
        fr.append((f"y{tlabel((4, sg))}<=const(wire)", f6))

        def f7(m, env, sg=sg):
            y = m.new_target((4, sg))
            m.comb += [y.eq(1), y.eq(7)]
            return [y]
        fr.append((f"y{tlabel((4, sg))}<=1;y<=7", f7))
    return fr


def cls_ctl(ic, tier, part):
    """part: "if" (If/Elif/Else), "case" (Case with/without default, signed test, expression test), "arr" (Array read/write)"""
    keep = {"if": ("If(",), "case": ("Case(",), "arr": ("Array[",)}[part]
    return [f for f in _cls_ctl_all(ic, tier) if f[0].startswith(keep) or (part == "arr" and "<=Array[" in f[0])]


def _cls_ctl_all(ic, tier):
    wa, sa, wb, sb = ic
    E1 = [A, OP("+", A, B), K(-3), OP("-", B)]
    fr = []
    tg = [(5, False), (5, True), (8, False), (8, True)] if tier == "thorough" else [(5, True), (8, False)]
    for t in tg:
        for x in E1:
            def f1(m, env, x=x, t=t):
                y = m.new_target(t, reset=9)
                m.comb += If(env["a"][0], y.eq(x[1](env))).Elif(env["b"], y.eq(env["b"])).Else(y.eq(Constant(2, (3, True))))
                return [y]
            fr.append((f"If(a0,y{tlabel(t)}<={x[0]}).Elif(b,y<=b).Else(y<=C(2,3s))", f1))

            def f2(m, env, x=x, t=t):
                y = m.new_target(t, reset=6)
                m.comb += If(env["a"] < env["b"], y.eq(x[1](env)))
                return [y]
            fr.append((f"If(a<b,y{tlabel(t)}(reset6)<={x[0]})", f2))

            def f3(m, env, x=x, t=t):
                y = m.new_target(t, reset=1)
                m.comb += Case(env["a"], {0: y.eq(x[1](env)), 1: y.eq(env["b"]), 5: y.eq(3), -1: y.eq(4), -4: y.eq(env["c"])})
                return [y]
            fr.append((f"Case(a,{{0:y{tlabel(t)}<={x[0]},1:b,5:3,-1:4,-4:c}})", f3))

            def f4(m, env, x=x, t=t):
                y = m.new_target(t)
                m.comb += Case(env["b"], {2: y.eq(x[1](env)), -2: y.eq(env["a"]), 7: If(env["c"][1], y.eq(1)).Else(y.eq(-1)),
                                          "default": y.eq(env["b"] + 1)})
                return [y]
            fr.append((f"Case(b,{{2:y{tlabel(t)}<={x[0]},-2:a,7:If,default:b+1}})", f4))

            def f5(m, env, x=x, t=t):
                y = m.new_target(t)
                m.comb += Case(env["a"] + env["b"], {0: y.eq(x[1](env)), 3: y.eq(1), -1: y.eq(2), 8: y.eq(3), "default": y.eq(4)})
                return [y]
            fr.append((f"Case(a+b,{{0:y{tlabel(t)}<={x[0]},3:1,-1:2,8:3,default:4}})", f5))

            def f7(m, env, x=x, t=t):
                # items with an explicitly empty statement list ("do nothing for this value") next to a default: the item must
                # still be printed, otherwise the default body runs for that value
                y = m.new_target(t, reset=5)
                m.comb += Case(env["a"], {0: [], 1: y.eq(x[1](env)), -2: [], "default": y.eq(env["b"])})
                return [y]
            fr.append((f"Case(a,{{0:[],1:y{tlabel(t)}(reset5)<={x[0]},-2:[],default:b}})", f7))

            def f8(m, env, x=x, t=t):
                # keys written as explicitly signed constants (non-negative and negative) next to plain ones: every item takes the
                # signedness of the test, a negative key can never match an unsigned test
                y = m.new_target(t, reset=2)
                m.comb += Case(env["b"], {Constant(2, (3, True)): y.eq(x[1](env)), Constant(1, (2, True)): y.eq(env["a"]), Constant(-1, (2, True)): y.eq(7),
                                          3: y.eq(1), "default": y.eq(env["c"])})
                return [y]
            fr.append((f"Case(b,{{C(2,3s):y{tlabel(t)}(reset2)<={x[0]},C(1,2s):a,C(-1,2s):7,3:1,default:c}})", f8))

            def f6(m, env, x=x, t=t):
                y = m.new_target(t)
                m.comb += y.eq(Array([x[1](env), env["b"], Constant(5), env["a"]])[env["c"]])
                return [y]
            fr.append((f"y{tlabel(t)}<=Array[{x[0]},b,5,a][c]", f6))

            def f7(m, env, x=x, t=t):
                y = m.new_target(t)
                m.comb += y.eq(Array([x[1](env), env["b"], env["a"]])[env["c"]])      # key 3 beyond the last element
                return [y]
            fr.append((f"y{tlabel(t)}<=Array[{x[0]},b,a][c]", f7))

            def f8(m, env, x=x, t=t):
                ys = [m.new_target(t, reset=i + 1) for i in range(3)]
                m.comb += Array(ys)[env["c"]].eq(x[1](env))
                return ys
            fr.append((f"Array[y0,y1,y2:{tlabel(t)}][c]<={x[0]}", f8))

            def f9(m, env, x=x, t=t):
                if sa:
                    raise IndexError("signed Array key: the simulator itself indexes Python-style")
                y = m.new_target(t)
                m.comb += y.eq(Array([x[1](env), env["b"], env["a"], Constant(1)])[env["a"]])   # signed / wide key
                return [y]
            fr.append((f"y{tlabel(t)}<=Array[{x[0]},b,a,1][a]", f9))
        def g1(m, env, t=t):
            y = m.new_target(t); z = m.new_target((3, False), reset=5)
            m.comb += [If(env["c"] == 2, y.eq(env["a"]), z.eq(env["b"])).Elif(env["c"][0], z[0:2].eq(env["a"])), If(~env["a"][0], y[0].eq(1))]
            return [y, z]
        fr.append((f"If(c==2,y{tlabel(t)}<=a,z<=b).Elif(c0,z[0:2]<=a);If(~a0,y[0]<=1)", g1))

        # one comb group in which a statement READS a target that a LATER statement of the group assigns (the emitted
        # always @(*) block must reach the same fix-point as the simulator: non-blocking assignments + re-triggering)
        def g2(m, env, t=t):
            y = m.new_target(t, reset=2); z = m.new_target((3, False), reset=0)
            m.comb += If(env["a"][0], If(z[0], y.eq(env["b"])), z.eq(env["c"]))
            return [y, z]
        fr.append((f"If(a0,If(z0,y{tlabel(t)}<=b),z<=c) [reads z before it is assigned]", g2))

        def g3(m, env, t=t):
            y = m.new_target(t, reset=1); z = m.new_target((3, False), reset=4)
            m.comb += [If(z == 3, y.eq(env["a"])), If(env["b"][0], z.eq(3), y[0].eq(0)).Else(z.eq(env["c"]))]
            return [y, z]
        fr.append((f"If(z==3,y{tlabel(t)}<=a);If(b0,z<=3,y[0]<=0).Else(z<=c) [reads z before it is assigned]", g3))

        def g4(m, env, t=t):
            y = m.new_target(t, reset=0)
            m.comb += [If(y[1], y[0].eq(1)), y[1].eq(env["a"][0]), If(y[0] & env["c"][0], y[2].eq(1))]
            return [y]
        fr.append((f"If(y1,y{tlabel(t)}[0]<=1);y[1]<=a0;If(y0&c0,y[2]<=1) [reads its own bits before and after they are assigned]", g4))
    return fr


COMB_CLASSES = {"arith": cls_arith, "kpos": cls_kpos, "kneg": cls_kneg, "ksig": cls_ksig, "slop": cls_slop,
                "catsig": cls_catsig, "catrep": cls_catrep, "lhs": cls_lhs, "constblk": cls_constblk}
for _w in D2_INNER:
    COMB_CLASSES["d2_" + _w] = (lambda ic, tier, _w=_w: cls_d2(ic, tier, _w))
for _p in ("if", "case", "arr"):
    COMB_CLASSES["ctl_" + _p] = (lambda ic, tier, _p=_p: cls_ctl(ic, tier, _p))


class CombProg(Module):
    """one packed module: inputs a, b, c (2-bit unsigned helper) + the fragments' targets"""
    def __init__(self, ic, frags, outs_io):
        wa, sa, wb, sb = ic
        self.clock_domains.cd_sys = ClockDomain("sys")
        self.a = Signal((wa, sa), name="a")
        self.b = Signal((wb, sb), name="b")
        self.c = Signal(2, name="c")
        self._n = 0
        self.frag_obs = []       # (fragment label, [target signals])
        env = dict(a=self.a, b=self.b, c=self.c)
        self.skipped = []
        self.frag_stmts = []     # per fragment: its comb statements (fragments are independent of each other)
        for lab, build in frags:
            n0 = len(self._fragment.comb)
            try:
                self.frag_obs.append((lab, build(self, env)))
                self.frag_stmts.append(list(self._fragment.comb[n0:]))
            except IndexError:       # slice / bit index outside a narrow operand: the shape does not exist for this icfg
                self.skipped.append(lab)
                assert len(self._fragment.comb) == n0
        self.outs_io = outs_io

    def new_target(self, t, reset=0):
        self._n += 1
        w, sg = t
        if sg and reset >> (w - 1):
            reset -= 1 << w
        return Signal(t, name=f"t{self._n}", reset=reset)

    def info(self):
        obs = [(f"{lab}#{k}", s) for lab, sigs in self.frag_obs for k, s in enumerate(sigs)]
        ios = {self.a, self.b, self.c, self.cd_sys.clk, self.cd_sys.rst}
        if self.outs_io:
            ios |= {s for _, s in obs}
        return dict(ios=ios, clocks=("sys",), clock_domains=[self.cd_sys], inputs=[self.a, self.b, self.c], observe=obs,
                    memories=[])


CHUNK = 300


def comb_chunks(cls, ic, tier):
    n = len(COMB_CLASSES[cls](ic, tier))
    return max(1, -(-n // CHUNK))


def comb_program(cls, ic, tier, outs_io, only=None, chunk=None):
    frags = COMB_CLASSES[cls](ic, tier)
    if only is not None:
        frags = [f for f in frags if f[0] == only]
    elif chunk is not None:
        frags = frags[chunk * CHUNK:(chunk + 1) * CHUNK]

    def mk():
        m = CombProg(ic, frags, outs_io)
        return m, m.info()
    return mk, frags


# =====================================================================================================================
# sequential grammar programs (q.*) and Memory programs (m.*): explored as a product machine (c01_lib.explore)
# =====================================================================================================================
from migen.fhdl.specials import Memory, READ_FIRST, WRITE_FIRST, NO_CHANGE
import itertools


def _sres(t, reset):
    w, sg = t
    if sg and reset >> (w - 1):
        reset -= 1 << w
    return reset


class SeqProg(Module):
    """kind selects the statements; ic = (wa, sa, wb, sb) the two data inputs; en = 1-bit enable."""
    def __init__(self, kind, ic, outs_io=False):
        wa, sa, wb, sb = ic
        two = kind == "twoclk"
        self.clock_domains.cd_sys = ClockDomain("sys", reset_less=(kind == "rstless"))
        self.cds = [self.cd_sys]
        if two:
            self.clock_domains.cd_b = ClockDomain("b")
            self.cds.append(self.cd_b)
        self.a = a = Signal((wa, sa), name="a")
        self.b = b = Signal((wb, sb), name="b")
        self.en = en = Signal(name="en")
        self.regs = []
        self._n = 0
        self.outs_io = outs_io or kind == "portinit"
        R = self.reg
        sync = self.sync
        if kind in ("ff", "portinit", "rstless"):
            exprs = [a + b, a - b, Cat(a, b), a[0:2] if wa >= 2 else a[0], Mux(en, a, b), a < b, -a, a + (-3), (a + b) >> 1, ~b,
                     a * b, b[wb - 1]]
            for i, e in enumerate(exprs):
                for t, rv in (((5, True), 0b10110), ((8, False), 0xA5), ((3, False), 0)):
                    sync += R(t, rv).eq(e)
            r = R((4, False), 9, reset_less=True)
            sync += If(en, r.eq(a))
        elif kind == "hold1":
            r1 = R((5, True), 0b11101); r2 = R((5, False), 7); r3 = R((4, False), 2, reset_less=True)
            sync += [
                If(en, r1.eq(a)).Elif(b[0], r1.eq(b)).Else(r1.eq(r1 + 1)),
                If(a == b, r2.eq(a + b)),
                If(en & ~a[0], r3.eq(b)),
            ]
        elif kind == "hold2":
            r4 = R((4, True), 0); r5 = R((6, False), 33); r6 = R((3, True), 0b101)
            sync += [
                Case(a, {0: r4.eq(b), 1: r4.eq(-1), -1: r4.eq(r4 - 1), "default": If(en, r4.eq(a))}),
                Case(Cat(en, b[0]), {0: r5[0:3].eq(a), 1: r5[3:6].eq(b), 3: r5.eq(0)}),
                r6.eq(Mux(en, r6, a)),
            ]
            r7 = R((4, False), 9)
            sync += Case(b, {0: [], 2: r7.eq(a), 3: [], "default": r7.eq(r7 + 1)})
        elif kind == "acc":
            r1 = R((3, False), 1); r2 = R((4, True), 0b1000); r3 = R((3, False), 0); r4 = R((2, False), 3)
            sync += [
                If(en, r1.eq(r1 + a)),
                r2.eq(r2 - b),
                If(r3 == 5, r3.eq(0)).Else(r3.eq(r3 + 1)),
                If(r1 > r3, r4.eq(r4 - 1)),
            ]
        elif kind == "chain":
            r1 = R((wa, sa), 1); r2 = R((wa, sa), 2); r3 = R((wa + 2, True), 3); x = R((2, False), 1); y = R((2, False), 2)
            sync += [r1.eq(a), r2.eq(r1), r3.eq(r2 + r1), x.eq(y), If(en, y.eq(x)).Else(y.eq(a))]
        elif kind == "lhs1":
            r1 = R((6, False), 0b101010); r2 = R((3, True), 0); r3 = R((3, False), 7)
            sync += [
                r1[0:2].eq(a), If(en, r1[2:5].eq(b)), r1[5].eq(a[0] ^ r1[5]),
                Cat(r2, r3).eq(a + b),
            ]
        elif kind == "lhs2":
            arr = [R((3, False), i) for i in range(3)]
            r4 = R((8, True), 0x81)
            sync += [
                Array(arr)[Cat(b[0], en)].eq(a),
                If(en, Cat(r4[0:3], r4[5:8]).eq(Cat(b, a))),
            ]
        elif kind == "twoclk":
            ra = R((3, False), 1); rc = R((3, True), 2)
            rb = R((3, False), 3, cd="b"); rd = R((3, True), 0b100, cd="b")
            self.sync.sys += [ra.eq(a + rb), If(en, rc.eq(rd))]
            self.sync.b += [rb.eq(ra + b), rd.eq(rd + a)]
            w = Signal(3, name="w")
            self.comb += w.eq(ra ^ rb)
            self.regs.append(("w", w))
        else:
            raise ValueError(kind)

    def reg(self, t, reset=0, reset_less=False, cd="sys"):
        self._n += 1
        s = Signal(t, name=f"r{self._n}", reset=_sres(t, reset), reset_less=reset_less)
        self.regs.append((f"r{self._n}", s))
        return s

    def info(self):
        inputs = [self.a, self.b, self.en]
        menus = [list(range(1 << len(self.a))), list(range(1 << len(self.b))), [0, 1]]
        ios = set(inputs)
        for cd in self.cds:
            ios.add(cd.clk)
            if cd.rst is not None:
                ios.add(cd.rst)
                inputs.append(cd.rst)
                menus.append([0, 1])
        if self.outs_io:
            ios |= {s for _, s in self.regs}
        return dict(ios=ios, clocks=tuple(cd.name for cd in self.cds), clock_domains=list(self.cds), inputs=inputs,
                    menus=menus, observe=list(self.regs), memories=[])


SEQ_KINDS = ["ff", "hold1", "hold2", "acc", "chain", "lhs1", "lhs2", "twoclk", "rstless", "portinit"]


def seq_icfgs(kind, tier):
    if kind == "twoclk":
        return [(2, False, 2, False), (2, True, 2, False), (1, False, 1, False)] if tier == "thorough" else [(2, True, 2, False), (1, False, 1, False)]
    base = [(3, False, 3, False), (3, True, 3, True), (3, False, 3, True), (3, True, 3, False)]
    narrow = [(2, True, 2, True), (2, False, 2, True), (2, False, 2, False), (2, True, 2, False)]
    if kind in ("hold1", "hold2", "lhs1", "lhs2", "chain", "acc"):
        # stateful programs: 2-bit inputs (64 letters) so that the product closes; one 3-bit version in the thorough tier
        return narrow[:2] if tier == "quick" else narrow + base[1:2]
    if kind in ("portinit", "rstless"):
        return base[1:2] if tier == "quick" else base[:2]
    return base if tier == "thorough" else base[1:3]


def seq_program(kind, ic):
    def mk():
        m = SeqProg(kind, ic)
        return m, m.info()
    return mk


# ---- memories ---------------------------------------------------------------------------------------------------------
MODES = {"wf": WRITE_FIRST, "rf": READ_FIRST, "nc": NO_CHANGE}


class MemProg(Module):
    """variant = dict(ports=..., mode, gran, re, init, width, depth)"""
    def __init__(self, v):
        self.v = v
        two = v["ports"] == "2clk"
        self.clock_domains.cd_sys = ClockDomain("sys")
        self.cds = [self.cd_sys]
        if two:
            self.clock_domains.cd_b = ClockDomain("b")
            self.cds.append(self.cd_b)
        width, depth = v.get("width", 8), v["depth"]
        init = {"none": None, "short": [0x12, 0x34][:max(1, depth // 2)], "full": [(0x111111 * (i + 1)) & (2**width - 1) for i in range(depth)]}[v["init"]]
        if init is not None:
            init = [x & (2**width - 1) for x in init]
        self.mem = mem = Memory(width, depth, init=init, name="mem")
        self.specials += mem
        self.inputs = []
        self.menus = []
        self.obs = []
        dvals = [0xA5A5A5 & (2**width - 1), 0x3C3C3C & (2**width - 1)]        # every bit of wide words takes both values
        amenu = list(range(depth))

        def inp(name, w, menu):
            s = Signal(w, name=name)
            self.inputs.append(s)
            self.menus.append(menu)
            return s

        def out(name, sig):
            self.obs.append((name, sig))
        mode = MODES[v["mode"]]
        gran = v["gran"]
        if v["ports"] == "rw":
            p = mem.get_port(write_capable=True, async_read=v.get("async", False), has_re=v["re"], we_granularity=gran, mode=mode)
            self.specials += p
            self.comb += [p.adr.eq(inp("adr", len(p.adr), amenu)), p.dat_w.eq(inp("dat_w", width, dvals)),
                          p.we.eq(inp("we", len(p.we), list(range(1 << len(p.we)))))]
            if v["re"]:
                self.comb += p.re.eq(inp("re", 1, [0, 1]))
            out("dat_r", p.dat_r)
        else:
            wp = mem.get_port(write_capable=True, we_granularity=gran, mode=MODES[v.get("wmode", "wf")])
            rp = mem.get_port(async_read=v.get("async", False), has_re=v["re"], mode=mode, clock_domain="b" if two else "sys")
            self.specials += wp, rp
            self.comb += [wp.adr.eq(inp("wadr", len(wp.adr), amenu)), wp.dat_w.eq(inp("dat_w", width, dvals)),
                          wp.we.eq(inp("we", len(wp.we), list(range(1 << len(wp.we))))),
                          rp.adr.eq(inp("radr", len(rp.adr), amenu))]
            if v["re"]:
                self.comb += rp.re.eq(inp("re", 1, [0, 1]))
            out("w_dat_r", wp.dat_r)
            out("r_dat_r", rp.dat_r)

    def info(self, with_rst=False):
        ios = set(self.inputs)
        inputs = list(self.inputs)
        menus = list(self.menus)
        for cd in self.cds:
            ios |= {cd.clk, cd.rst}
            if with_rst:
                inputs.append(cd.rst)
                menus.append([0, 1])
        return dict(ios=ios, clocks=tuple(cd.name for cd in self.cds), clock_domains=list(self.cds), inputs=inputs, menus=menus,
                    observe=list(self.obs), memories=[self.mem])


def mem_variants(tier):
    V = {}
    for mode in ("wf", "rf", "nc"):
        for gran in (0, 4):
            for re in (False, True):
                V[f"rw.{mode}.g{gran}.re{int(re)}"] = dict(ports="rw", mode=mode, gran=gran, re=re, init="short", depth=2 if gran else 4)
    for gran in (0, 4):
        V[f"rw.async.g{gran}"] = dict(ports="rw", mode="wf", gran=gran, re=False, init="short", depth=2 if gran else 4, **{"async": True})
    for mode in ("wf", "rf"):
        V[f"dual.{mode}"] = dict(ports="dual", mode=mode, gran=0, re=False, init="short", depth=4)
        V[f"2clk.{mode}"] = dict(ports="2clk", mode=mode, gran=0, re=False, init="short", depth=4)
    V["dual.async"] = dict(ports="dual", mode="wf", gran=0, re=False, init="short", depth=4, **{"async": True})
    V["dual.wf.re1"] = dict(ports="dual", mode="wf", gran=0, re=True, init="short", depth=4)
    V["2clk.async"] = dict(ports="2clk", mode="wf", gran=0, re=False, init="short", depth=4, **{"async": True})
    V["2clk.wf.re1"] = dict(ports="2clk", mode="wf", gran=0, re=True, init="none", depth=2)
    V["rw.wf.initnone"] = dict(ports="rw", mode="wf", gran=0, re=False, init="none", depth=4)
    V["rw.rf.initfull"] = dict(ports="rw", mode="rf", gran=0, re=False, init="full", depth=4)
    V["rw.wf.w6"] = dict(ports="rw", mode="wf", gran=0, re=False, init="full", depth=4, width=6)
    V["rw.wf.w12g4"] = dict(ports="rw", mode="wf", gran=4, re=False, init="full", depth=2, width=12)
    # byte-enable granularity that does not divide the width: one lane plus a remainder, two lanes plus a remainder
    V["rw.wf.w12g8"] = dict(ports="rw", mode="wf", gran=8, re=False, init="full", depth=2, width=12)
    V["rw.rf.w7g4"] = dict(ports="rw", mode="rf", gran=4, re=False, init="full", depth=2, width=7)
    V["rw.wf.w10g4"] = dict(ports="rw", mode="wf", gran=4, re=False, init="full", depth=2, width=10)
    V["rw.nc.d3"] = dict(ports="rw", mode="nc", gran=0, re=False, init="full", depth=3)
    # depths that are not a power of two, every port mode (address registers / read registers sized from the depth)
    V["rw.wf.d3"] = dict(ports="rw", mode="wf", gran=0, re=False, init="full", depth=3)
    V["rw.rf.d3"] = dict(ports="rw", mode="rf", gran=0, re=True, init="short", depth=3)
    V["dual.wf.d3"] = dict(ports="dual", mode="wf", gran=0, re=False, init="full", depth=3)
    V["rw.wf.d5"] = dict(ports="rw", mode="wf", gran=0, re=False, init="short", depth=5)
    V["dual.wnc.rf"] = dict(ports="dual", mode="rf", wmode="nc", gran=0, re=False, init="short", depth=4)
    return V


def mem_program(name, with_rst=False):
    v = mem_variants("thorough")[name]

    def mk():
        m = MemProg(v)
        return m, m.info(with_rst)
    return mk
