"""C12, bank array part: CSRBankArray (collection of the registers of every object of a design, one bank per object, CSR
memories as windows, placement by the address map) behind csr_bus.InterconnectShared with two masters (OR-combined bus).

The reference layout is written down from the documented rules, not read from the banks: object `name` sits at page
address_map(name), its registers follow in creation order (nested objects prefixed, still creation order), wide registers are
split into bus words in the bank's ordering, a CSR memory is a window of one bus word per memory word at its own page."""
import itertools
import fsmc  # noqa
from migen import *
from litex.soc.interconnect import csr_bus
from litex.soc.interconnect.csr import *
from fsmc.explore import Explorer, replay_stock, Harness
from fsmc.design import MachineryError


class Sub(Module, AutoCSR):
    def __init__(self):
        self.inner = CSRStorage(4, name="inner", reset=0x9)


class PA(Module, AutoCSR):
    def __init__(self, bw, pin0=False):
        # creation order differs from alphabetical order on purpose
        self.zreg = CSRStorage(bw, name="zreg", reset=0x5A)
        self.areg = CSRStorage(bw + 1, name="areg")
        self.stat = CSRStatus(bw, name="stat")
        if pin0:
            # created last, pinned to location 0 (`n=`: index in the bank's register list; the others fill the free locations in creation order)
            self.ctrl = CSRStorage(bw, name="ctrl", reset=0x3, n=0)


class PB(Module, AutoCSR):
    def __init__(self, bw):
        self.submodules.sub = Sub()
        self.buf = Memory(bw, 2, init=[0x11, 0x22], name="buf")


class Plain(Module):
    def __init__(self):
        self.x = Signal()


class Source(Module):
    def __init__(self, bw, pin0=False):
        self.submodules.pb = PB(bw)          # created first, mapped to the higher page
        self.submodules.pa = PA(bw, pin0)
        self.submodules.pc = Plain()         # no registers: must not get a bank


PAGES = {("pa", None): 1, ("pb", None): 3, ("pb", "buf"): 2}
# with a 16-bit CSR address there are pages above 31 (the default 14-bit bus has 32 pages of 0x800 bytes): two banks up there
PAGES_HI = {("pa", None): 1, ("pb", None): 35, ("pb", "buf"): 34}


class ArrayDUT(Module):
    def __init__(self, bw, ordering, paging, aw=14, pages=PAGES, pin0=False):
        self.submodules.src = src = Source(bw, pin0)

        def address_map(name, memory):
            return pages.get((name, None if memory is None else memory.name_override))
        self.submodules.array = arr = csr_bus.CSRBankArray(src, address_map, data_width=bw, address_width=aw, paging=paging, ordering=ordering)
        self.m = [csr_bus.Interface(data_width=bw, address_width=aw) for _ in range(2)]
        self.submodules.ic = csr_bus.InterconnectShared(self.m, arr.get_buses())


def pat(k, width):
    return (0xA5A5A5A5A5 >> (3*k)) & ((1 << width) - 1) if k else (1 << width) - 1


class CsrArrayHarness(Harness):
    """env = (storage values in layout order, memory words, expected dat_r)"""
    conf_first = 60
    conf_every = 101

    def __init__(self, name, bw=8, ordering="big", paging=0x400, aw=14, hi=False, pin0=False):
        self.name, self.bw, self.ordering, self.paging, self.pin0 = name, bw, ordering, paging, pin0
        self.aw, self.PAGES = aw, (PAGES_HI if hi else PAGES)
        self.cov = set()

    def build(self):
        self.dut = ArrayDUT(self.bw, self.ordering, self.paging, self.aw, self.PAGES, self.pin0)
        return self.dut

    def bind(self, D):
        d, bw = self.dut, self.bw
        self.M = [dict(adr=D.i(m.adr), we=D.i(m.we), re=D.i(m.re), dat_w=D.i(m.dat_w), dat_r=D.i(m.dat_r)) for m in d.m]
        page = self.paging//4
        pa, pb = d.src.pa, d.src.pb
        # reference layout: (page, [(register, size, reset)] in creation order)
        PAGES = self.PAGES
        layout = [(PAGES[("pa", None)], ([(pa.ctrl, bw, 0x3)] if self.pin0 else []) + [(pa.zreg, bw, 0x5A & ((1 << bw) - 1)), (pa.areg, bw + 1, 0), (pa.stat, bw, None)]),
                  (PAGES[("pb", None)], [(pb.sub.inner, 4, 0x9)])]
        self.words = {}          # bus address -> ("st", storage index, lo, hi) | ("ro", lo, hi) | ("mem", word)
        self.storages = []
        for pg, regs in layout:
            a = pg*page
            for r, size, reset in regs:
                n = (size + bw - 1)//bw
                idx = list(reversed(range(n))) if self.ordering == "big" else list(range(n))
                if reset is not None:
                    self.storages.append((D.i(r.storage), size, reset))
                for i in idx:
                    lo, hi = i*bw, min(size, (i + 1)*bw)
                    self.words[a] = ("st", len(self.storages) - 1, lo, hi) if reset is not None else ("ro", lo, hi)
                    a += 1
            self.words.setdefault(a, None)                   # first word past the bank: selected page, nothing there
        for w in range(2):
            self.words[PAGES[("pb", "buf")]*page + w] = ("mem", w)
        alias = [(PAGES[k] - 32)*page for k in (("pb", None), ("pb", "buf")) if PAGES[k] >= 32]       # same page modulo 32: must stay unmapped
        for extra in [0, 4*page, PAGES[("pa", None)]*page + page - 1] + alias:
            self.words.setdefault(extra, None)               # unmapped pages / far end of a mapped page
        self.status = D.i(pa.stat.status)
        self.adrs = sorted(self.words)
        # master 0 writes all-ones, master 1 the other pattern; the status input only matters when it is read
        ops = [(("idle",), 0)]
        for m in range(2):
            for a in self.adrs:
                ops.append((("w", m, a, m), 0))
                for s in ((0, 1) if (self.words[a] or ("",))[0] == "ro" else (m,)):
                    ops.append((("r", m, a), s))
        self.ops = ops
        if len(d.array.banks) != 2 or len(d.array.srams) != 1:
            raise MachineryError(f"{self.name}: expected 2 banks and 1 memory window, found {len(d.array.banks)} and {len(d.array.srams)}")

    def env_init(self):
        return (tuple(r for (_, _, r) in self.storages), (0x11 & ((1 << self.bw) - 1), 0x22 & ((1 << self.bw) - 1)), 0)

    def choices(self, env):
        return self.ops

    def drive(self, v, env, ch):
        op, s = ch
        for M in self.M:
            v[M["adr"]] = v[M["we"]] = v[M["re"]] = v[M["dat_w"]] = 0
        if op[0] == "w":
            M = self.M[op[1]]
            v[M["we"]], v[M["adr"]], v[M["dat_w"]] = 1, op[2], pat(op[3], self.bw)
        elif op[0] == "r":
            M = self.M[op[1]]
            v[M["re"]], v[M["adr"]] = 1, op[2]
        v[self.status] = pat(s, self.bw)

    def observe(self, v, env, ch):
        op, s = ch
        st, mem, datr = env
        for k, M in enumerate(self.M):
            if v[M["dat_r"]] != datr:
                return env, ("array.dat_r", f"master {k}: dat_r exp {datr:#x} got {v[M['dat_r']]:#x} (word addressed in the previous cycle through either master, 0 if nothing is mapped there)"), 0
        for i, (sig, size, _) in enumerate(self.storages):
            if v[sig] != st[i]:
                return env, ("array.storage", f"storage #{i} (layout order) exp {st[i]:#x} got {v[sig]:#x}"), 0
        st2, mem2, datr2 = st, mem, 0
        if op[0] != "idle":
            w = self.words.get(op[2])
            self.cov.add((op[0], None if w is None else w[0], op[1]))
            if w is not None:
                if w[0] == "st":
                    _, i, lo, hi = w
                    mask = (1 << (hi - lo)) - 1
                    datr2 = (st[i] >> lo) & mask
                    if op[0] == "w":
                        val = (st[i] & ~(mask << lo)) | ((pat(op[3], self.bw) & mask) << lo)
                        st2 = st[:i] + (val,) + st[i + 1:]
                elif w[0] == "ro":
                    _, lo, hi = w
                    datr2 = (pat(s, self.bw) >> lo) & ((1 << (hi - lo)) - 1)
                else:
                    _, word = w
                    if op[0] == "w":
                        mem2 = mem[:word] + (pat(op[3], self.bw),) + mem[word + 1:]
                    datr2 = mem2[word]          # write-first port: a write is visible to the read one cycle later
        return (st2, mem2, datr2), None, 0

    def cover_report(self):
        return dict(access_classes=len(self.cov))

    def vacuity(self):
        need = {("w", "st", 0), ("w", "st", 1), ("r", "ro", 1), ("w", "mem", 1), ("r", None, 0)}
        miss = need - self.cov
        return f"access classes never exercised: {sorted(miss, key=str)}" if miss else None


ARRAYS = {
    "bankarray[bus8,big,paging=0x400] 2 objects + nested + memory, 2 masters": ("quick", dict(bw=8, ordering="big", paging=0x400)),
    "bankarray[bus8,little,paging=0x800] 2 objects + nested + memory, 2 masters": ("quick", dict(bw=8, ordering="little", paging=0x800)),
    "bankarray[bus32,big,paging=0x800] 2 objects + nested + memory, 2 masters": ("thorough", dict(bw=32, ordering="big", paging=0x800)),
    "bankarray[bus8,big,paging=0x400,register pinned to location 0 created last] 2 objects + nested + memory, 2 masters": ("quick", dict(bw=8, ordering="big", paging=0x400, pin0=True)),
    "bankarray[bus8,big,paging=0x800,16-bit address,banks at pages 34/35] 2 objects + nested + memory, 2 masters": ("quick", dict(bw=8, ordering="big", paging=0x800, aw=16, hi=True)),
}


def factories():
    return {nm: (tier, (lambda nm=nm, kw=kw: CsrArrayHarness(nm, **kw))) for nm, (tier, kw) in ARRAYS.items()}
