"""C11 — a silent or absent slave cannot hang the bus (DESIGN.md §4 C11).  Wishbone part: InterconnectShared / bare Timeout /
Crossbar with a configured time-out, fail-stop slave faults flipped at any cycle, unmapped windows, all latencies 0..T+1
(so answers arrive exactly in the expiry cycle); WaitTimer against a counter model.  AXI part: see checks/axilib.py."""
import fsmc  # noqa
from migen import *
from fsmc.explore import Explorer, replay_stock, Harness
from fsmc.design import MachineryError
from checks.wblib import WbIcHarness
from checks import c06_wishbone_ic as _c6

PROPERTY = "C11"
LEVEL = "model_checking"
RULE = ("BFS to closure of (real interconnect / Timeout FHDL x masters x reactive slaves with fail-stop fault switches) under every "
        "request pattern, every latency 0..T+1 and every fault point; deadline monitor + error-pulse monitor + graph liveness after a time-out")
ASSUMPTIONS = [
    "2-state zero-delay FHDL semantics of litex.gen.sim",
    "deadline: termination visible to the master no later than T + c_proto cycles after the request is on the arbitrated bus (c_proto = 0 for Wishbone); slave faults are fail-stop",
    "a response arriving in the expiry cycle itself may be replaced by the error termination (DESIGN 4b)",
    "time-outs T in {1,2,3} (quick) and {4,6} (thorough); at most one slave dies per run",
    "soc.bus_errors runs (real SoCCore, checks/c11_soc.py): besides reset, the run may start with 2**32-2 forced into the bus error counter "
    "(a value reachable by that many time-outs: the register depends only on itself and the error pulse); at most 3 timed-out requests per run, idle gaps 0..2",
]
VARIANTS = {}


def add(kind, nm, ns, T, tier, b2b=False, register=False, dw=None):
    nm_ = f"wb.{kind}({nm}x{ns},timeout={T},register={register}){'+back_to_back' if b2b else ''}{f',{dw}bit' if dw else ''}"
    VARIANTS[nm_] = (tier, dict(kind=kind, nm=nm, ns=ns, register=register, back_to_back=b2b, timeout=T, faults=True, maxlat=T + 1, **({"dw": dw} if dw else {})))


for T in (1, 2, 3, 4, 6):
    tier = "quick" if T <= 3 else "thorough"
    add("timeout", 1, 1, T, tier)
    add("shared", 1, 2, T, tier)
    add("shared", 2, 1, T, "quick" if T <= 2 else "thorough")
    add("shared", 2, 2, T, "quick" if T == 2 else "thorough")
add("shared", 2, 2, 2, "thorough", b2b=True)
add("shared", 2, 2, 3, "thorough", register=True)
add("crossbar", 2, 2, 3, "quick")
add("crossbar", 1, 2, 2, "quick")
# wide buses: the all-ones read data of a time-out covers the whole word
add("timeout", 1, 1, 2, "quick", dw=64)
add("shared", 1, 2, 2, "quick", dw=32)
add("shared", 2, 2, 2, "thorough", dw=128)


class WaitTimerHarness(Harness):
    """WaitTimer(t) alone: `wait` free every cycle; done exactly after t consecutive wait cycles, reload when wait drops."""
    def __init__(self, name, t):
        self.name, self.t = name, t
        self.done_seen = 0
    def build(self):
        from litex.gen.genlib.misc import WaitTimer
        self.dut = WaitTimer(self.t)
        return self.dut
    def bind(self, D):
        self.wait, self.done = D.i(self.dut.wait), D.i(self.dut.done)
    def env_init(self):
        return 0
    def choices(self, env):
        return [0, 1]
    def drive(self, v, env, ch):
        v[self.wait] = ch
    def observe(self, v, env, ch):
        exp = 1 if env >= self.t else 0
        if v[self.done] != exp:
            return env, ("waittimer.done", f"done={v[self.done]} after {env} consecutive wait cycles (t={self.t})"), 0
        self.done_seen += exp
        return (min(env + 1, self.t) if ch else 0), None, 0
    def vacuity(self):
        return None if self.done_seen else "done never seen"


WT = {f"WaitTimer(t={t})": t for t in (1, 2, 3, 5, 8)}


def configs(tier):
    c = [(n,) for n, (t, kw) in VARIANTS.items() if t == "quick" or tier == "thorough"]
    c += [(n,) for n in WT]
    from checks import c11_axi, c11_soc, c11_burst
    c += c11_axi.configs(tier)
    c += c11_soc.configs(tier)
    c += c11_burst.configs(tier)
    return c


def run_config(cfg, seed, tier):
    name = cfg[0]
    if name in WT:
        f = lambda: WaitTimerHarness(name, WT[name])
        out = Explorer(f(), seed=seed).run().as_dict()
        for v in out["violations"]:
            rp = replay_stock(f, [_c6.tuple_deep(c) for c in v["trace"]])
            v["replayed"] = dict(reproduced=rp["reproduced"])
            if not rp["reproduced"]:
                raise MachineryError("WaitTimer violation does not reproduce")
        return out
    if name.startswith("wb."):
        return _c6.run_config(cfg, seed, tier, table=VARIANTS)
    if name.startswith("soc."):
        from checks import c11_soc
        return c11_soc.run_config(cfg, seed, tier)
    if "write bursts" in name:
        from checks import c11_burst
        return c11_burst.run_config(cfg, seed, tier)
    from checks import c11_axi
    return c11_axi.run_config(cfg, seed, tier)


def replay(rec):
    name = rec["cfg"]
    if name in WT:
        rp = replay_stock(lambda: WaitTimerHarness(name, WT[name]), [_c6.tuple_deep(c) for c in rec["trace"]])
        return dict(cfg=name, rule=rec["rule"], reproduced=rp["reproduced"])
    if name.startswith("wb."):
        return _c6.replay(rec, table=VARIANTS)
    if name.startswith("soc."):
        from checks import c11_soc
        return c11_soc.replay(rec)
    if "write bursts" in name:
        from checks import c11_burst
        return c11_burst.replay(rec)
    from checks import c11_axi
    return c11_axi.replay(rec)
