"""C19 — UART part: RS232PHYTX pin waveform, RS232PHYRX against an ideal line, RS232PHY pin loop-back, UART FIFO wrapper.

Reference = the asynchronous serial frame (1 start bit 0, 8 data bits LSB first, 1 stop bit 1, idle 1) at the programmed
bit period N = 2^32 / tuning_word system clocks; nothing here is derived from the FSMs of uart.py."""
import math
from fractions import Fraction
import fsmc  # noqa
from migen import *
from fsmc.explore import Harness
from fsmc.design import MachineryError

BYTES6 = (0x00, 0xFF, 0xA5, 0x5A, 0x01, 0x80)
BYTES24 = tuple(sorted(set(BYTES6) | {1 << k for k in range(8)} | {0xFF ^ (1 << k) for k in range(8)} | {0x55, 0xAA, 0x0F, 0xF0}))
PEND, READY, BUSY, QUIET = 8, 16, 32, 64


def frame_bit(byte, k, stop=1):
    """bit k of the 10-bit frame"""
    if k == 0:
        return 0
    if k == 9:
        return stop
    return (byte >> (k - 1)) & 1


# ---------------------------------------------------------------------------------------------------
# Transmitter
# ---------------------------------------------------------------------------------------------------
class TxHarness(Harness):
    """env = (offered byte or -1 [held until ready, stream rule], monitor None | (byte, t, k)):
    t = cycles since the start edge, k = index of the frame bit the monitor believes to be on the line.
    Bit k may be on the line at cycle t iff  k*N - 1 <= t < (k+1)*N + 1  (every boundary within one clock of the ideal
    instant k*N => no drift, exact on average); the frame ends (ready) when |t + 1 - 10*N| <= 1."""
    live_queries = (("uart.tx.starved", PEND, READY, (), "a byte stays offered for ever without being acknowledged"),)

    def __init__(self, name, tuning_word, bytes_):
        self.name, self.tw, self.bytes = name, tuning_word, tuple(bytes_)
        self.N = Fraction(2**32, tuning_word)
        self.frames = 0
        self.b2b = 0
        self.ready_at = set()
        N = self.N
        self.tmax = int(math.floor(10*N + 1)) + 2
        # lo[t]..hi[t]: frame bit indices admissible at cycle t
        self.adm = []
        for t in range(self.tmax + 1):
            ks = [k for k in range(10) if k*N - 1 <= t < (k + 1)*N + 1]
            self.adm.append(tuple(ks))

    def build(self):
        from litex.soc.cores import uart
        self.pads = uart.UARTPads()
        self.dut = uart.RS232PHYTX(self.pads, self.tw)
        return self.dut

    def bind(self, D):
        s = self.dut.sink
        self.i_valid, self.i_ready, self.i_data, self.i_tx = D.i(s.valid), D.i(s.ready), D.i(s.data), D.i(self.pads.tx)

    def env_init(self):
        return (-1, None, 0)

    def choices(self, env):
        return [env[0]] if env[0] >= 0 else [-1] + list(self.bytes)

    def drive(self, v, env, ch):
        v[self.i_valid] = int(ch >= 0)
        v[self.i_data] = ch if ch >= 0 else 0x3C

    def observe(self, v, env, ch):
        offer, mon, since_ready = env
        line, rdy = v[self.i_tx], v[self.i_ready]
        flags = PEND if ch >= 0 else 0
        if mon is None:
            if line == 0:
                if offer < 0:
                    return env, ("uart.tx.spurious_start", "the line went low although no byte had been offered in the previous cycle"), 0
                mon = (offer, 0, 0)
                if since_ready == 2:
                    self.b2b += 1
            if rdy:
                return env, ("uart.tx.ready_outside_frame", "sink.ready while the line is idle"), 0
        else:
            byte, t, k = mon
            t += 1
            if t > self.tmax:
                return env, ("uart.tx.frame_too_long", f"no ready {t} cycles after the start edge (10 bit periods = {float(10*self.N):.2f})"), 0
            k2 = None
            for kk in self.adm[t]:
                if kk >= k and frame_bit(byte, kk) == line:
                    k2 = kk
                    break
            if k2 is None:
                return env, ("uart.tx.waveform", f"byte {byte:#04x}: line={line} at {t} cycles after the start edge; admissible frame bits {self.adm[t]} "
                                                  f"(N={float(self.N):.3f}) have values {[frame_bit(byte, q) for q in self.adm[t]]}, monitor was at bit {k}"), 0
            mon = (byte, t, k2)
            if rdy:
                if ch != byte:
                    return env, ("uart.tx.ready_other_byte", f"ready for {ch} while {byte:#x} is on the line"), 0
                if k2 != 9 or abs(t + 1 - 10*self.N) > 1:
                    return env, ("uart.tx.frame_length", f"ready {t + 1} cycles after the start edge in bit {k2}; 10 bit periods = {float(10*self.N):.2f}"), 0
                self.frames += 1
                self.ready_at.add(t + 1)
                mon = None
        acc = ch >= 0 and rdy
        if acc:
            flags |= READY
        return ((-1 if (acc or ch < 0) else ch), mon, 1 if acc else (min(since_ready + 1, 3) if since_ready else 0)), None, flags

    def describe(self, ch):
        return ch

    def cover_report(self):
        return dict(frames_acknowledged=self.frames, back_to_back_starts=self.b2b, frame_lengths=sorted(self.ready_at))

    def vacuity(self):
        if not self.frames:
            return "no frame completed"
        if not self.b2b:
            return "no back-to-back frame"
        return None


# ---------------------------------------------------------------------------------------------------
# Receiver against an ideal line
# ---------------------------------------------------------------------------------------------------
class LineModel:
    """Ideal transmitter: edges at real times phi + k*P (k = 0..10) after the frame origin (an integer clock instant),
    P = its bit period in receiver clocks (a Fraction), phi = j/G the sub-clock phase.  The receiver's first flop samples at the
    integer instants; a sample taken exactly on an edge may see either side (first-flop sampling fault)."""
    def __init__(self, P):
        self.P = P = Fraction(P)
        self.G = G = P.denominator
        self.tab = []          # per phase j: list over n of (bit index k in -1..10, ambiguous)
        self.end = []          # per phase: first n at which the line is (or may be) idle again
        for j in range(G):
            phi = Fraction(j, G)
            row = []
            n = 0
            while True:
                x = (n - phi) / P
                if x < 0:
                    row.append((-1, 0))
                else:
                    k = int(math.floor(x))
                    amb = int(x == k)
                    row.append((min(k, 10), amb))
                    if k >= 10:
                        break
                n += 1
            self.tab.append(row)
            self.end.append(len(row) - 1)

    def level(self, byte, stop, j, n, side):
        k, amb = self.tab[j][n]
        if amb and not side:
            k -= 1
        if k < 0 or k >= 10:
            return 1
        return frame_bit(byte, k, stop)


class RxHarness(Harness):
    """env = (line, pend, gap, bad, nfr):
       line: None (idle 1) | (byte, stop, j, n) frame in progress | ("B", m) break (line low for m cycles so far)
       pend: tuple of (byte, stop, age, j) frames whose delivery is still possible; gap: idle cycles since the last line activity (cap 2); bad: the last activity was a
       frame with a 0 stop bit or a break (the line must then idle 2 clocks); nfr: frames started (only counted in the bounded first_frame configurations)
    Expectation: exactly one source.valid per frame with a 1 stop bit, carrying its byte, not before the stop bit begins and no later than
    4 clocks after it ends; none for a 0 stop bit or a break."""
    live_queries = (("uart.rx.stuck", BUSY | QUIET, 0, (), "line idle for ever but the receiver FSM never returns to IDLE"),)

    def __init__(self, name, tuning_word, P_tx, bytes_, breaks=True, phases=None, cap=None, overlap=True, max_frames=None):
        self.overlap = overlap
        self.max_frames = max_frames
        self.name, self.tw, self.bytes, self.breaks = name, tuning_word, tuple(bytes_), breaks
        self.P_rx = Fraction(2**32, tuning_word)
        self.lm = LineModel(P_tx)
        self.phases = list(range(self.lm.G)) if phases is None else list(phases)
        self.P_tx = Fraction(P_tx)
        self.brk_min = int(math.ceil(11*self.P_tx))       # a break holds the line low for at least 11 bit periods
        self.delivered = 0
        self.bad_seen = 0
        self.amb_seen = 0
        self.breaks_seen = 0
        self.late = {}
        if cap:
            self.cap = cap

    def build(self):
        from litex.soc.cores import uart
        self.pads = uart.UARTPads()
        self.dut = uart.RS232PHYRX(self.pads, self.tw)
        return self.dut

    def bind(self, D):
        s = self.dut.source
        self.i_rx, self.i_valid, self.i_data = D.i(self.pads.rx), D.i(s.valid), D.i(s.data)
        self.i_state = D.i(self.dut.fsm.state)
        self.idle_code = self.dut.fsm.encoding["IDLE"]

    def env_init(self):
        return (None, (), 0, 1, 0)        # the line must idle 2 clocks after reset (the synchroniser resets to 0)

    def choices(self, env):
        line, pend, gap, bad = env[:4]
        if line is None:
            out = [("i",)]
            if len(pend) < (2 if self.overlap else 1) and (not bad or gap >= 2) and (self.max_frames is None or env[4] < self.max_frames):
                for b in self.bytes:
                    for s in (1, 0):
                        for j in self.phases:
                            if self.lm.tab[j][0][1]:
                                out.append(("f", b, s, j, 0))
                                out.append(("f", b, s, j, 1))
                            else:
                                out.append(("f", b, s, j, 0))
                if self.breaks:
                    out.append(("b",))
            return out
        if line[0] == "B":
            if line[1] < self.brk_min:
                return [("b",)]
            return [("b",), ("r",)] if line[1] < self.brk_min + 3 else [("r",)]
        byte, stop, j, n = line
        if self.lm.tab[j][n][1]:
            return [("c", 0), ("c", 1)]
        return [("c", 0)]

    def _level(self, env, ch):
        line = env[0]
        if ch[0] == "i" or ch[0] == "r":
            return 1
        if ch[0] == "b":
            return 0
        if ch[0] == "f":
            return self.lm.level(ch[1], ch[2], ch[3], 0, ch[4])
        byte, stop, j, n = line
        return self.lm.level(byte, stop, j, n, ch[1])

    def drive(self, v, env, ch):
        v[self.i_rx] = self._level(env, ch)

    def observe(self, v, env, ch):
        line, pend, gap, bad, nfr = env
        lm = self.lm
        if ch[0] == "f":
            line = (ch[1], ch[2], ch[3], 0)
            pend = pend + ((ch[1], ch[2], 0, ch[3]),)
            if not ch[2]:
                self.bad_seen += 1
        if ch[0] in ("c", "f") and lm.tab[line[2]][line[3]][1]:
            self.amb_seen += 1
        pend = list(pend)
        if v[self.i_valid]:
            if not pend:
                return env, ("uart.rx.spurious", f"source.valid (data {v[self.i_data]:#x}) without a frame on the line"), 0
            byte, stop, age, j = pend[0]
            if not stop:
                return env, ("uart.rx.bad_stop_delivered", f"source.valid for a frame ({byte:#x}) whose stop bit is 0"), 0
            if age < 9*self.P_tx:
                return env, ("uart.rx.early", f"source.valid {age} cycles after the frame origin, before the stop bit (9 bit periods = {float(9*self.P_tx):.1f})"), 0
            if v[self.i_data] != byte:
                return env, ("uart.rx.data", f"received {v[self.i_data]:#04x}, the line carried {byte:#04x} (P_tx={float(self.P_tx):.2f}, P_rx={float(self.P_rx):.2f}, phase {j}/{lm.G})"), 0
            self.delivered += 1
            k = age - lm.end[j]
            self.late[k] = self.late.get(k, 0) + 1
            pend.pop(0)
        pend2 = []
        for (byte, stop, age, j) in pend:
            if age >= lm.end[j] + 4:
                if stop:
                    return env, ("uart.rx.lost", f"frame {byte:#04x} with a good stop bit was not delivered within 4 clocks after its end"), 0
                continue
            pend2.append((byte, stop, age + 1, j))
        # next line state (a frame occupies the cycles n = 0 .. end-1 after its origin)
        if ch[0] in ("c", "f"):
            byte, stop, j, n = line
            if n + 1 >= lm.end[j]:
                line2, gap2, bad2 = None, 0, int(not stop)
            else:
                line2, gap2, bad2 = (byte, stop, j, n + 1), 0, 0
        elif ch[0] == "b":
            m = line[1] if (line is not None and line[0] == "B") else 0
            line2, gap2, bad2 = ("B", m + 1), 0, 0
        elif ch[0] == "r":
            line2, gap2, bad2 = None, 1, 1
            self.breaks_seen += 1
        else:
            line2, gap2, bad2 = None, min(gap + 1, 2), bad
        flags = 0
        if v[self.i_state] != self.idle_code:
            flags |= BUSY
        if ch[0] == "i" and not pend2:
            flags |= QUIET
        return (line2, tuple(pend2), gap2, bad2, nfr + 1 if (self.max_frames is not None and env[0] is None and ch[0] in ("f", "b")) else nfr), None, flags

    def cover_report(self):
        return dict(deliveries=self.delivered, bad_stop_frames=self.bad_seen, samples_on_an_edge=self.amb_seen, breaks=self.breaks_seen,
                    delivery_minus_frame_end=sorted(self.late))

    def vacuity(self):
        if not self.delivered:
            return "no delivery"
        if not self.bad_seen:
            return "no frame with a bad stop bit"
        return None


# ---------------------------------------------------------------------------------------------------
# RS232PHY: transmitter and receiver of one PHY connected pin to pin
# ---------------------------------------------------------------------------------------------------
class _PhyLoopDUT(Module):
    def __init__(self, clk_freq, baudrate):
        from litex.soc.cores import uart
        self.pads = uart.UARTPads()
        self.submodules.phy = uart.RS232PHY(self.pads, clk_freq, baudrate)
        self.comb += self.pads.rx.eq(self.pads.tx)


class PhyLoopHarness(Harness):
    """env = (offer, queue): byte offered to the transmitter (held until ready); queue of (byte, age) offered and not yet delivered by the
    receiver.  Every offered byte must come out of the receiver exactly once, in order, within 2 frame times + 10 clocks."""
    live_queries = (("uart.phy.starved", PEND, READY, (), "a byte stays offered for ever without being acknowledged"),)

    def __init__(self, name, clk_freq, baudrate, bytes_):
        self.name, self.clk_freq, self.baudrate, self.bytes = name, clk_freq, baudrate, tuple(bytes_)
        self.N = Fraction(2**32, int((baudrate/clk_freq)*2**32))
        self.limit = int(22*self.N) + 10
        self.delivered = 0

    def build(self):
        self.dut = _PhyLoopDUT(self.clk_freq, self.baudrate)
        return self.dut

    def bind(self, D):
        p = self.dut.phy
        self.i = dict(valid=D.i(p.sink.valid), ready=D.i(p.sink.ready), data=D.i(p.sink.data), ovalid=D.i(p.source.valid), odata=D.i(p.source.data))

    def env_init(self):
        return (-1, (), 0)

    def choices(self, env):
        if env[2] < 3:
            return [-1]                # the receiver's synchroniser resets to 0: let the line idle 3 clocks after reset
        return [env[0]] if env[0] >= 0 else [-1] + list(self.bytes)

    def drive(self, v, env, ch):
        v[self.i["valid"]] = int(ch >= 0)
        v[self.i["data"]] = ch if ch >= 0 else 0x3C

    def observe(self, v, env, ch):
        offer, q, boot = env
        i = self.i
        q = list(q)
        if ch >= 0 and offer < 0:
            q.append((ch, 0))
        if v[i["ovalid"]]:
            if not q:
                return env, ("uart.phy.spurious", f"receiver delivers {v[i['odata']]:#x} although nothing was sent"), 0
            if q[0][0] != v[i["odata"]]:
                return env, ("uart.phy.data", f"receiver delivers {v[i['odata']]:#04x}, transmitter was given {q[0][0]:#04x}"), 0
            q.pop(0)
            self.delivered += 1
        q = [(b, a + 1) for b, a in q]
        if q and q[0][1] > self.limit:
            return env, ("uart.phy.lost", f"byte {q[0][0]:#04x} not delivered {q[0][1]} cycles after it was offered"), 0
        acc = ch >= 0 and v[i["ready"]]
        flags = (PEND if ch >= 0 else 0) | (READY if acc else 0)
        return ((-1 if (acc or ch < 0) else ch), tuple(q), min(boot + 1, 3)), None, flags

    def cover_report(self):
        return dict(deliveries=self.delivered)

    def vacuity(self):
        return None if self.delivered else "nothing delivered"


# ---------------------------------------------------------------------------------------------------
# UART: CSR front end + FIFOs + events, the environment plays the PHY
# ---------------------------------------------------------------------------------------------------
TXPEND, TXRDY, TXOUT, RXPEND, RXVIS = 8, 16, 32, 64, 128


class _UartDUT(Module):
    def __init__(self, depth, rx_we):
        from litex.soc.cores import uart
        from litex.soc.interconnect import csr_bus
        self.submodules.uart = uart.UART(phy=None, tx_fifo_depth=depth, rx_fifo_depth=depth, rx_fifo_rx_we=rx_we)
        self.bus = csr_bus.Interface(data_width=32, address_width=14)
        self.submodules.bank = csr_bus.CSRBank(self.uart.get_csrs(), address=0, bus=self.bus)


class UartHarness(Harness):
    """env = (txq, rxq, ev, txfull_seen): reference queues of the two directions, event registers
       ev = (pend_tx, pend_rx, level_tx_d, level_rx_d, clear_tx, clear_rx, enable)
    TX: every byte written to RXTX while TXFULL = 0 leaves through `source` exactly once, in order.  RX: every byte the PHY delivers while
    RXFULL = 0 is shown on RXTX in order; acknowledging the rx event (or, with rx_fifo_rx_we, reading RXTX) removes exactly the head.
    Events: tx = rising edge of "TX FIFO not full", rx = rising edge of "RX FIFO not empty" (UART_EV_TX = 1, UART_EV_RX = 2)."""
    conf_every = 211
    live_queries = (
        ("uart.tx_fifo.stuck", TXPEND, TXOUT, (TXRDY,), "bytes are queued and the PHY is ready again and again, but nothing is transmitted"),
        ("uart.rx_fifo.stuck", RXPEND, RXVIS, (), "a received byte never becomes visible (RXEMPTY stays 1)"),
    )

    def __init__(self, name, depth=2, rx_we=False, bytes_=(0x11, 0xEE), side="tx"):
        self.name, self.depth, self.rx_we, self.bytes, self.side = name, depth, rx_we, tuple(bytes_), side
        self.tx_out = self.rx_pop = self.rx_drop = 0

    def build(self):
        self.dut = _UartDUT(self.depth, self.rx_we)
        return self.dut

    def bind(self, D):
        u, b = self.dut.uart, self.dut.bus
        g = D.i
        self.b = dict(adr=g(b.adr), we=g(b.we), dat_w=g(b.dat_w), re=g(b.re))
        names = {c.name: k for k, c in enumerate(self.dut.bank.simple_csrs)}
        self.adr = {}
        for need in ("rxtx", "txfull", "rxempty", "ev_status", "ev_pending", "ev_enable", "txempty", "rxfull"):
            hits = [a for n, a in names.items() if n.rstrip("0123456789") == need]
            if len(hits) != 1:
                raise MachineryError(f"UART CSR {need} not found in {sorted(names)}")
            self.adr[need] = hits[0]
        self.i = dict(src_valid=g(u.source.valid), src_ready=g(u.source.ready), src_data=g(u.source.data),
                      snk_valid=g(u.sink.valid), snk_data=g(u.sink.data),
                      txfull=g(u._txfull.status), txempty=g(u._txempty.status), rxempty=g(u._rxempty.status), rxfull=g(u._rxfull.status),
                      rxtx_w=g(u._rxtx.w), pend=g(u.ev.pending.status), stat=g(u.ev.status.status), irq=g(u.ev.irq))

    def env_init(self):
        return ((), (), (0, 0, 0, 0, 0, 0, 0), 1)

    def choices(self, env):
        txq, rxq, ev, txfull_seen = env
        # the two directions share nothing but the event manager: one configuration per direction keeps the product small
        tx, rx_ = self.side in ("tx", "both"), self.side in ("rx", "both")
        ops = [("i",), ("w", "ev_enable", 0), ("w", "ev_enable", 3)]
        if tx:
            ops.append(("w", "ev_pending", 1))
            if not txfull_seen:
                ops += [("w", "rxtx", b) for b in self.bytes]
        if rx_:
            ops.append(("w", "ev_pending", 2))
            if self.rx_we:
                ops.append(("r", "rxtx"))
        out = []
        for op in ops:
            for rdy in ((0, 1) if tx else (0,)):
                for rx in (((-1,) + self.bytes) if rx_ else (-1,)):
                    out.append((op, rdy, rx))
        return out

    def drive(self, v, env, ch):
        op, rdy, rx = ch
        b, i = self.b, self.i
        v[b["we"]] = v[b["re"]] = v[b["adr"]] = v[b["dat_w"]] = 0
        if op[0] == "w":
            v[b["we"]], v[b["adr"]], v[b["dat_w"]] = 1, self.adr[op[1]], op[2]
        elif op[0] == "r":
            v[b["re"]], v[b["adr"]] = 1, self.adr[op[1]]
        v[i["src_ready"]] = rdy
        v[i["snk_valid"]] = int(rx >= 0)
        v[i["snk_data"]] = rx if rx >= 0 else 0

    def observe(self, v, env, ch):
        op, rdy, rx = ch
        i = self.i
        txq, rxq, (p_tx, p_rx, d_tx, d_rx, c_tx, c_rx, even), _ = env
        txq, rxq = list(txq), list(rxq)
        flags = 0
        txfull, rxempty, rxfull = v[i["txfull"]], v[i["rxempty"]], v[i["rxfull"]]
        # status / events as functions of the FIFO flags
        lvl_tx, lvl_rx = 1 - txfull, 1 - rxempty
        if v[i["stat"]] != (lvl_tx | (lvl_rx << 1)):
            return env, ("uart.ev.status", f"ev.status = {v[i['stat']]:#b}, TXFULL = {txfull}, RXEMPTY = {rxempty}"), 0
        if v[i["pend"]] != (p_tx | (p_rx << 1)):
            return env, ("uart.ev.pending", f"ev.pending = {v[i['pend']]:#b}, reference tx={p_tx} rx={p_rx}"), 0
        if v[i["irq"]] != int(bool((p_tx | (p_rx << 1)) & even)):
            return env, ("uart.ev.irq", f"irq = {v[i['irq']]}, pending = {p_tx | (p_rx << 1):#b}, enable = {even:#b}"), 0
        # TX direction
        if op[0] == "w" and op[1] == "rxtx":
            if txfull:
                raise MachineryError("environment wrote RXTX while TXFULL")
            txq.append(op[2])
        if v[i["src_valid"]]:
            if not txq:
                return env, ("uart.tx_fifo.spurious", f"source.valid with data {v[i['src_data']]:#x} although every written byte has already been transmitted"), 0
            if v[i["src_data"]] != txq[0]:
                return env, ("uart.tx_fifo.order", f"source.data = {v[i['src_data']]:#x}, oldest untransmitted byte is {txq[0]:#x}"), 0
            if rdy:
                txq.pop(0)
                flags |= TXOUT
                self.tx_out += 1
        if len(txq) > self.depth + 2:
            return env, ("uart.tx_fifo.capacity", f"{len(txq)} bytes accepted by a TX FIFO of depth {self.depth}"), 0
        if txq:
            flags |= TXPEND
        if rdy:
            flags |= TXRDY
        # RX direction
        if not rxempty:
            if not rxq:
                return env, ("uart.rx_fifo.spurious", f"RXEMPTY = 0 (RXTX = {v[i['rxtx_w']]:#x}) although every received byte has been removed"), 0
            if v[i["rxtx_w"]] != rxq[0]:
                return env, ("uart.rx_fifo.order", f"RXTX shows {v[i['rxtx_w']]:#x}, oldest received byte is {rxq[0]:#x}"), 0
            flags |= RXVIS
        pop = (c_rx or (self.rx_we and op[0] == "r" and op[1] == "rxtx")) and not rxempty
        if pop:
            rxq.pop(0)
            self.rx_pop += 1
        if rx >= 0:
            if rxfull:
                self.rx_drop += 1        # the PHY has no back-pressure: a byte arriving at a full FIFO is lost (documented by RXFULL)
            else:
                rxq.append(rx)
        if len(rxq) > self.depth + 2:
            return env, ("uart.rx_fifo.capacity", f"{len(rxq)} bytes accepted by an RX FIFO of depth {self.depth}"), 0
        if rxq and not pop:
            flags |= RXPEND
        # events
        p_tx2, d_tx2 = ev_step_(p_tx, d_tx, c_tx, lvl_tx)
        p_rx2, d_rx2 = ev_step_(p_rx, d_rx, c_rx, lvl_rx)
        c_tx2 = c_rx2 = 0
        if op[0] == "w" and op[1] == "ev_pending":
            c_tx2, c_rx2 = op[2] & 1, (op[2] >> 1) & 1
        if op[0] == "w" and op[1] == "ev_enable":
            even = op[2] & 3
        return (tuple(txq), tuple(rxq), (p_tx2, p_rx2, d_tx2, d_rx2, c_tx2, c_rx2, even), 1 if (op[0] == "w" and op[1] == "rxtx") else txfull), None, flags

    def cover_report(self):
        return dict(tx_bytes=self.tx_out, rx_removed=self.rx_pop, rx_dropped_when_full=self.rx_drop)

    def vacuity(self):
        if self.side in ("tx", "both") and not self.tx_out:
            return "no byte transmitted"
        if self.side in ("rx", "both") and not (self.rx_pop and self.rx_drop):
            return "rx removal / overflow not exercised"
        return None


def ev_step_(pend, lvl_d, clear, lvl):
    p2 = 0 if clear else pend
    if lvl and not lvl_d:
        p2 = 1
    return p2, lvl
