"""C19 — UART part: RS232PHYTX pin waveform, RS232PHYRX against an ideal line, RS232PHY pin loop-back, UART FIFO wrapper.

Reference = the asynchronous serial frame (1 start bit 0, 8 data bits LSB first, 1 stop bit 1, idle 1) at the programmed
bit period N = 2^32 / tuning_word system clocks; nothing here is derived from the FSMs of uart.py."""
import math
from fractions import Fraction
import fsmc  # noqa
from migen import *
from fsmc.explore import Harness
from fsmc.design import MachineryError

BYTES6 = (0x00, 0xFF, 0xA5, 0x5A, 0x01, 0x80)
PEND, READY, BUSY, QUIET = 8, 16, 32, 64


def frame_bit(byte, k, stop=1):
    """bit k of the 10-bit frame"""
    if k == 0:
        return 0
    if k == 9:
        return stop
    return (byte >> (k - 1)) & 1


# ---------------------------------------------------------------------------------------------------
# Transmitter
# ---------------------------------------------------------------------------------------------------
class TxHarness(Harness):
    """env = (offered byte or -1 [held until ready, stream rule], monitor None | (byte, t, k)):
    t = cycles since the start edge, k = index of the frame bit the monitor believes to be on the line.
    Bit k may be on the line at cycle t iff  k*N - 1 <= t < (k+1)*N + 1  (every boundary within one clock of the ideal
    instant k*N => no drift, exact on average); the frame ends (ready) when |t + 1 - 10*N| <= 1."""
    live_queries = (("uart.tx.starved", PEND, READY, (), "a byte stays offered for ever without being acknowledged"),)

    def __init__(self, name, tuning_word, bytes_):
        self.name, self.tw, self.bytes = name, tuning_word, tuple(bytes_)
        self.N = Fraction(2**32, tuning_word)
        self.frames = 0
        self.b2b = 0
        self.ready_at = set()
        N = self.N
        self.tmax = int(math.floor(10*N + 1)) + 2
        # lo[t]..hi[t]: frame bit indices admissible at cycle t
        self.adm = []
        for t in range(self.tmax + 1):
            ks = [k for k in range(10) if k*N - 1 <= t < (k + 1)*N + 1]
            self.adm.append(tuple(ks))

    def build(self):
        from litex.soc.cores import uart
        self.pads = uart.UARTPads()
        self.dut = uart.RS232PHYTX(self.pads, self.tw)
        return self.dut

    def bind(self, D):
        s = self.dut.sink
        self.i_valid, self.i_ready, self.i_data, self.i_tx = D.i(s.valid), D.i(s.ready), D.i(s.data), D.i(self.pads.tx)

    def env_init(self):
        return (-1, None, 0)

    def choices(self, env):
        return [env[0]] if env[0] >= 0 else [-1] + list(self.bytes)

    def drive(self, v, env, ch):
        v[self.i_valid] = int(ch >= 0)
        v[self.i_data] = ch if ch >= 0 else 0x3C

    def observe(self, v, env, ch):
        offer, mon, since_ready = env
        line, rdy = v[self.i_tx], v[self.i_ready]
        flags = PEND if ch >= 0 else 0
        if mon is None:
            if line == 0:
                if offer < 0:
                    return env, ("uart.tx.spurious_start", "the line went low although no byte had been offered in the previous cycle"), 0
                mon = (offer, 0, 0)
                if since_ready == 2:
                    self.b2b += 1
            if rdy:
                return env, ("uart.tx.ready_outside_frame", "sink.ready while the line is idle"), 0
        else:
            byte, t, k = mon
            t += 1
            if t > self.tmax:
                return env, ("uart.tx.frame_too_long", f"no ready {t} cycles after the start edge (10 bit periods = {float(10*self.N):.2f})"), 0
            k2 = None
            for kk in self.adm[t]:
                if kk >= k and frame_bit(byte, kk) == line:
                    k2 = kk
                    break
            if k2 is None:
                return env, ("uart.tx.waveform", f"byte {byte:#04x}: line={line} at {t} cycles after the start edge; admissible frame bits {self.adm[t]} "
                                                  f"(N={float(self.N):.3f}) have values {[frame_bit(byte, q) for q in self.adm[t]]}, monitor was at bit {k}"), 0
            mon = (byte, t, k2)
            if rdy:
                if ch != byte:
                    return env, ("uart.tx.ready_other_byte", f"ready for {ch} while {byte:#x} is on the line"), 0
                if k2 != 9 or abs(t + 1 - 10*self.N) > 1:
                    return env, ("uart.tx.frame_length", f"ready {t + 1} cycles after the start edge in bit {k2}; 10 bit periods = {float(10*self.N):.2f}"), 0
                self.frames += 1
                self.ready_at.add(t + 1)
                mon = None
        acc = ch >= 0 and rdy
        if acc:
            flags |= READY
        return ((-1 if (acc or ch < 0) else ch), mon, 1 if acc else (min(since_ready + 1, 3) if since_ready else 0)), None, flags

    def describe(self, ch):
        return ch

    def cover_report(self):
        return dict(frames_acknowledged=self.frames, back_to_back_starts=self.b2b, frame_lengths=sorted(self.ready_at))

    def vacuity(self):
        if not self.frames:
            return "no frame completed"
        if not self.b2b:
            return "no back-to-back frame"
        return None


# ---------------------------------------------------------------------------------------------------
# Receiver against an ideal line
# ---------------------------------------------------------------------------------------------------
class LineModel:
    """Ideal transmitter: edges at real times phi + k*P (k = 0..10) after the frame origin (an integer clock instant),
    P = its bit period in receiver clocks (a Fraction), phi = j/G the sub-clock phase.  The receiver's first flop samples at the
    integer instants; a sample taken exactly on an edge may see either side (first-flop sampling fault)."""
    def __init__(self, P):
        self.P = P = Fraction(P)
        self.G = G = P.denominator
        self.tab = []          # per phase j: list over n of (bit index k in -1..10, ambiguous)
        self.end = []          # per phase: first n at which the line is (or may be) idle again
        for j in range(G):
            phi = Fraction(j, G)
            row = []
            n = 0
            while True:
                x = (n - phi) / P
                if x < 0:
                    row.append((-1, 0))
                else:
                    k = int(math.floor(x))
                    amb = int(x == k)
                    row.append((min(k, 10), amb))
                    if k >= 10:
                        break
                n += 1
            self.tab.append(row)
            self.end.append(len(row) - 1)

    def level(self, byte, stop, j, n, side):
        k, amb = self.tab[j][n]
        if amb and not side:
            k -= 1
        if k < 0 or k >= 10:
            return 1
        return frame_bit(byte, k, stop)


class RxHarness(Harness):
    """env = (line, pend, gap, bad):
       line: None (idle 1) | (byte, stop, j, n) frame in progress | ("B", m) break (line low for m cycles so far)
       pend: tuple of (byte, stop, age, j) frames whose delivery is still possible; gap: idle cycles since the last line activity (cap 3)
    Expectation: exactly one source.valid per frame with a 1 stop bit, carrying its byte, not before the stop bit begins and no later than
    4 clocks after it ends; none for a 0 stop bit or a break."""
    live_queries = (("uart.rx.stuck", BUSY | QUIET, 0, (), "line idle for ever but the receiver FSM never returns to IDLE"),)

    def __init__(self, name, tuning_word, P_tx, bytes_, breaks=True, phases=None, cap=None):
        self.name, self.tw, self.bytes, self.breaks = name, tuning_word, tuple(bytes_), breaks
        self.P_rx = Fraction(2**32, tuning_word)
        self.lm = LineModel(P_tx)
        self.phases = list(range(self.lm.G)) if phases is None else list(phases)
        self.P_tx = Fraction(P_tx)
        self.brk_min = int(math.ceil(11*self.P_tx))       # a break holds the line low for at least 11 bit periods
        self.delivered = 0
        self.bad_seen = 0
        self.amb_seen = 0
        self.late = {}
        if cap:
            self.cap = cap

    def build(self):
        from litex.soc.cores import uart
        self.pads = uart.UARTPads()
        self.dut = uart.RS232PHYRX(self.pads, self.tw)
        return self.dut

    def bind(self, D):
        s = self.dut.source
        self.i_rx, self.i_valid, self.i_data = D.i(self.pads.rx), D.i(s.valid), D.i(s.data)
        self.i_state = D.i(self.dut.fsm.state)
        self.idle_code = self.dut.fsm.encoding["IDLE"]

    def env_init(self):
        return (None, (), 0, 1)        # the line must idle 2 clocks after reset (the synchroniser resets to 0)

    def choices(self, env):
        line, pend, gap, bad = env
        if line is None:
            out = [("i",)]
            if len(pend) < 2 and (not bad or gap >= 2):
                for b in self.bytes:
                    for s in (1, 0):
                        for j in self.phases:
                            if self.lm.tab[j][0][1]:
                                out.append(("f", b, s, j, 0))
                                out.append(("f", b, s, j, 1))
                            else:
                                out.append(("f", b, s, j, 0))
                if self.breaks:
                    out.append(("b",))
            return out
        if line[0] == "B":
            if line[1] < self.brk_min:
                return [("b",)]
            return [("b",), ("r",)] if line[1] < self.brk_min + 3 else [("r",)]
        byte, stop, j, n = line
        if self.lm.tab[j][n][1]:
            return [("c", 0), ("c", 1)]
        return [("c", 0)]

    def _level(self, env, ch):
        line = env[0]
        if ch[0] == "i" or ch[0] == "r":
            return 1
        if ch[0] == "b":
            return 0
        if ch[0] == "f":
            return self.lm.level(ch[1], ch[2], ch[3], 0, ch[4])
        byte, stop, j, n = line
        return self.lm.level(byte, stop, j, n, ch[1])

    def drive(self, v, env, ch):
        v[self.i_rx] = self._level(env, ch)

    def observe(self, v, env, ch):
        line, pend, gap, bad = env
        lm = self.lm
        if ch[0] == "f":
            line = (ch[1], ch[2], ch[3], 0)
            pend = pend + ((ch[1], ch[2], 0, ch[3]),)
            if not ch[2]:
                self.bad_seen += 1
        if ch[0] in ("c", "f") and lm.tab[line[2]][line[3]][1]:
            self.amb_seen += 1
        pend = list(pend)
        if v[self.i_valid]:
            if not pend:
                return env, ("uart.rx.spurious", f"source.valid (data {v[self.i_data]:#x}) without a frame on the line"), 0
            byte, stop, age, j = pend[0]
            if not stop:
                return env, ("uart.rx.bad_stop_delivered", f"source.valid for a frame ({byte:#x}) whose stop bit is 0"), 0
            if age < 9*self.P_tx:
                return env, ("uart.rx.early", f"source.valid {age} cycles after the frame origin, before the stop bit (9 bit periods = {float(9*self.P_tx):.1f})"), 0
            if v[self.i_data] != byte:
                return env, ("uart.rx.data", f"received {v[self.i_data]:#04x}, the line carried {byte:#04x} (P_tx={float(self.P_tx):.2f}, P_rx={float(self.P_rx):.2f}, phase {j}/{lm.G})"), 0
            self.delivered += 1
            k = age - lm.end[j]
            self.late[k] = self.late.get(k, 0) + 1
            pend.pop(0)
        pend2 = []
        for (byte, stop, age, j) in pend:
            if age >= lm.end[j] + 4:
                if stop:
                    return env, ("uart.rx.lost", f"frame {byte:#04x} with a good stop bit was not delivered within 4 clocks after its end"), 0
                continue
            pend2.append((byte, stop, age + 1, j))
        # next line state (a frame occupies the cycles n = 0 .. end-1 after its origin)
        if ch[0] in ("c", "f"):
            byte, stop, j, n = line
            if n + 1 >= lm.end[j]:
                line2, gap2, bad2 = None, 0, int(not stop)
            else:
                line2, gap2, bad2 = (byte, stop, j, n + 1), 0, 0
        elif ch[0] == "b":
            m = line[1] if (line is not None and line[0] == "B") else 0
            line2, gap2, bad2 = ("B", m + 1), 0, 0
        elif ch[0] == "r":
            line2, gap2, bad2 = None, 1, 1
        else:
            line2, gap2, bad2 = None, min(gap + 1, 2), bad
        flags = 0
        if v[self.i_state] != self.idle_code:
            flags |= BUSY
        if ch[0] == "i" and not pend2:
            flags |= QUIET
        return (line2, tuple(pend2), gap2, bad2), None, flags

    def cover_report(self):
        return dict(deliveries=self.delivered, bad_stop_frames=self.bad_seen, samples_on_an_edge=self.amb_seen,
                    delivery_minus_frame_end=sorted(self.late))

    def vacuity(self):
        if not self.delivered:
            return "no delivery"
        if not self.bad_seen:
            return "no frame with a bad stop bit"
        return None
