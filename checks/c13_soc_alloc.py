"""C13 — SoC resource allocation never hands out overlapping or out-of-range resources.

Engine E3 (bounded breadth-first enumeration of call histories on the real Python objects, DESIGN.md):
  (a) bus.*      SoCBusHandler.add_slave / add_region (plain, linker, decode=False, SoCIORegion) / name reuse / attach by
                 name, followed by the real do_finalize (decoder construction) on every new canonical state
      busreal.*  the same on a small menu with real wishbone interfaces, add_master, and the REAL interconnect built
  (b) dec.*      SoCRegion.decoder evaluated by litex.gen.sim.core.Evaluator on ALL word addresses of small stub buses
  (c) loc.*      SoCCSRHandler / SoCIRQHandler add / address_map / enable
  (d) cm.*       ConstraintManager request / request_all / request_remaining / lookup_request / add_extension
The space is split over the process pool by the FIRST call of the history.
"""
import fsmc  # noqa: F401  (first import)
import collections

from checks import c13_common as K
from checks.c13_common import Instrumentation, explore, result_dict, tuple_deep, rebuild, MachineryError

PROPERTY = "C13"
LEVEL = "exploration"
MAXTASKS = 4
RULE = ("breadth-first enumeration of ALL histories of API calls up to the depth in the configuration name over the stated call "
        "menus, each history re-executed from scratch on a fresh real LiteX object, invariants evaluated after every call, real "
        "do_finalize + decoder evaluation (FHDL Evaluator) on every new state; histories are de-duplicated by canonical state; the "
        "space is split by first call, and a state that a verified permutation of its history (really executed, same canonical "
        "state, no violation on the way) shows to be reachable from an earlier configuration's first call is extended only there "
        "(validated: union of states == unsplit BFS for core@3, mid@3, full@3); of the violating histories only those are reported "
        "from which no earlier call can be dropped; part (b) is the full product (origin x size x every word address).  "
        "evaluations = histories judged (one new API call each; replayed prefixes not counted) + decoders swept in part (b); "
        "distinct_nontrivial = distinct canonical object states reached by a successful call (sorted region tuples + ordered IO "
        "regions + slave flags / ordered loc tables / ordered available+matched entry lists, names abstracted) plus distinct swept "
        "(bus, origin, size) decoders, counted as the UNION over all configurations via 64-bit digests (per-configuration numbers "
        "overlap because different first calls reach the same state)")
ASSUMPTIONS = [
    "bounded: histories up to the depth given in each configuration name, call menus as listed in checks/c13_bus.py MENUS, "
    "c13_locs.py, c13_platform.py; bus menus: 7 origins x 7 sizes x cached/uncached, 4 IO regions, 32- and 64-bit spaces",
    "a call that constructs more than %(quick)d (quick) / %(thorough)d (thorough) candidate regions (alloc_region walking behind a "
    "large region in steps of the small requested size, DESIGN candidate z) is cut deterministically, recorded as outcome "
    "'budget' and not extended; it is not a violation (nothing is built); a 5 s SIGALRM backstop catches genuinely "
    "non-terminating calls (outcome 'timeout')" % K.WORK_BUDGET,
    "any exception counts as 'rejected with an error'; what a rejected SoCError call leaves behind in the handler is only "
    "counted (SoCError is fatal for a build); for ConstraintManager a failed call must leave available/matched untouched",
    "linker regions are exempt from disjointness and are never attached to a slave; alignment is demanded at finalisation only; "
    "fixed-origin regions beyond the address space are counted, not flagged (DESIGN 4b)",
    "'inside an IO region' uses unrounded sizes (the weaker reading, LiteX's own check_region_is_in)",
    "bus-handler regions are at least one bus word wide (sub-word windows are examined separately in dec.subword.*)",
    "the unit of platform-resource accounting is one entry of the IO table (an entry the user adds twice may be granted twice)",
    "request_all / request_remaining are used on plain-signal resources only",
    "bus histories run with the interconnect constructors replaced by recorders (the real do_finalize code runs; busreal.* "
    "builds the real wishbone InterconnectShared / Crossbar and reads the select expressions back from the built Decoder)",
    "decoder expressions are evaluated by litex.gen.sim.core.Evaluator (2-state FHDL semantics); tracer shim (names only)",
]


# ----------------------------------------------------------------------------------------------------------------------
# configuration table

def _chunks(n, size):
    return [(i, min(n, i + size)) for i in range(0, n, size)]


def _model(part, params):
    p = dict(params)
    if part == "bus":
        from checks.c13_bus import BusModel
        return BusModel(**p)
    if part == "busreal":
        from checks.c13_bus import RealBusModel
        return RealBusModel(**p)
    if part == "loc":
        from checks.c13_locs import LocModel
        return LocModel(**p)
    if part == "cm":
        from checks.c13_platform import PlatformModel
        return PlatformModel()
    raise MachineryError(part)


def _hist_cfgs(prefix, part, params, depth, chunk):
    """split by the first call: one configuration per `chunk` consecutive root calls"""
    with Instrumentation():
        m = _model(part, params)
        roots = m.roots()
    out = []
    for lo, hi in _chunks(len(roots), chunk):
        first = m.jcall(roots[lo])
        tag = "+".join(str(x) for x in first) if hi - lo == 1 else f"{lo}..{hi - 1}:" + "+".join(str(x) for x in first) + ".."
        out.append((f"{prefix}.d{depth}/first={tag}", "hist", part, tuple(sorted(dict(params).items())), depth, lo, hi))
    return out


def configs(tier):
    thorough = tier == "thorough"
    C = []
    main = dict(aw=32, dw=32, ioc=True)
    # (a) bus handler histories: full menu (all kinds, name reuse, attach) / mid (slaves + linker regions) / core (slaves + IO)
    if thorough:
        C += _hist_cfgs("bus.aw32dw32.full", "bus", dict(main, menu="full"), 3, 6)
        C += _hist_cfgs("bus.aw32dw32.mid", "bus", dict(main, menu="mid"), 4, 2)
        C += _hist_cfgs("bus.aw32dw32.core", "bus", dict(main, menu="core"), 5, 1)
    else:
        C += _hist_cfgs("bus.aw32dw32.full", "bus", dict(main, menu="full"), 2, 50)
        C += _hist_cfgs("bus.aw32dw32.mid", "bus", dict(main, menu="mid"), 3, 10)
        C += _hist_cfgs("bus.aw32dw32.core", "bus", dict(main, menu="core"), 4, 1)
    d = 4 if thorough else 3
    ch = 3 if thorough else 13
    C += _hist_cfgs("bus.aw32dw64.core", "bus", dict(aw=32, dw=64, ioc=True, menu="core"), d, ch)
    C += _hist_cfgs("bus.aw64dw64.core", "bus", dict(aw=64, dw=64, ioc=True, menu="core"), d, ch)
    C += _hist_cfgs("bus.aw32dw32.nocheck.core", "bus", dict(aw=32, dw=32, ioc=False, menu="core"), d, ch)
    for ic in ("shared", "crossbar"):
        C += _hist_cfgs(f"busreal.aw32dw32.{ic}", "busreal", dict(aw=32, dw=32, interconnect=ic), 4 if thorough else 3, 1 if thorough else 2)
    # (b) decoders on stub buses
    for aw in (8, 10):
        for dw in (32, 64):
            C.append((f"dec.all/aw{aw}.dw{dw}", "dec", aw, dw, "all"))
    for dw in (32, 64):
        C.append((f"dec.subword/aw8.dw{dw}", "dec", 8, dw, "subword"))
    # (c) CSR / IRQ locations
    d = 6 if thorough else 5
    C += _hist_cfgs("loc.csr.n4", "loc", dict(kind="csr", address_width=14, paging=0x4000), d, 1000)
    C += _hist_cfgs("loc.csr.n8.reserved", "loc", dict(kind="csr", address_width=14, paging=0x2000, reserved=(("ctrl", 0), ("uart", 7))), d, 1000)
    C += _hist_cfgs("loc.csr.n32", "loc", dict(kind="csr", address_width=14, paging=0x800), d, 1000)
    C += _hist_cfgs("loc.irq.n4", "loc", dict(kind="irq", n_irqs=4), d, 1000)
    C += _hist_cfgs("loc.irq.n32", "loc", dict(kind="irq", n_irqs=32), d, 1000)
    # (d) platform constraint manager
    C += _hist_cfgs("cm.T0", "cm", {}, 6 if thorough else 4, 2 if thorough else 6)
    return C


# ----------------------------------------------------------------------------------------------------------------------

def run_config(cfg, seed, tier):
    r = _run_config(cfg, seed, tier)
    # 'p2p.*' (soc.py built a point-to-point connection: no decoder at all) is a routing matter judged by C06, which cross-lists busreal.*
    r["violations"] = [v for v in r.get("violations", []) if not v["rule"].startswith("p2p.")]
    r["work_budget_per_call"] = K._Budget.limit
    return r


def _run_config(cfg, seed, tier):
    name, kind = cfg[0], cfg[1]
    K.set_budget(tier)
    with Instrumentation():
        if kind == "dec":
            from checks.c13_bus import decoder_sweep
            _, _, aw, dw, mode = cfg
            r = decoder_sweep(aw, dw, mode)
            return dict(cfg=name, exhaustive=True, violations=r["violations"], evaluations=r["cover"].get("decoders_swept", 0),
                        distinct=len(r["seen"]), sample=r["sample"], cover=r["cover"], digests=b"".join(sorted(r["seen"])))
        _, _, part, params, depth, lo, hi = cfg
        m = _model(part, params)
        allroots = m.roots()
        roots = allroots[lo:hi]
        if part == "bus":
            from checks.c13_bus import StubInterconnect
            with StubInterconnect():
                X = explore(m, depth, seed, roots, owner=(allroots, lo))
            extra = dict(decoder_evaluations=m.E.evals)
        elif part == "busreal":
            X = explore(m, depth, seed, roots)
            extra = dict(decoder_evaluations=m.E.evals)
        else:
            X = explore(m, depth, seed, roots)
            extra = None
        return result_dict(name, X, extra)


def extra_coverage(results):
    """distinct_nontrivial as the size of the UNION of the per-configuration state digests; totals of the anti-vacuity
    counters; per_config without the raw digests."""
    union = set()
    per_part = collections.defaultdict(set)
    tot = collections.Counter()
    for r in results:
        d = r.get("digests") or b""
        part = str(r.get("cfg", "?")).split(".")[0]
        for i in range(0, len(d), 8):
            union.add(d[i:i + 8])
            per_part[part].add(d[i:i + 8])
        for k, v in (r.get("cover") or {}).items():
            if isinstance(v, int):
                tot[k] += v
    per_config = [{k: v for k, v in r.items() if k not in ("violations", "sample", "machinery_error", "cfg_args", "digests")} for r in results]
    out = dict(per_config=per_config, cover_totals=dict(tot), distinct_per_part={k: len(v) for k, v in sorted(per_part.items())},
               distinct_summed_over_configurations=sum(int(r.get("distinct", 0) or 0) for r in results),
               work_budget_per_call=max([int(r.get("work_budget_per_call", 0) or 0) for r in results] or [0]))
    if union:
        out["distinct_nontrivial"] = len(union)
    notes = {}
    for r in results:
        for k, v in (r.get("notes") or {}).items():
            notes.setdefault(k, dict(cfg=r["cfg"], **v))
    if notes:
        out["examples_of_budget_timeout_residue"] = notes
    return out


# ----------------------------------------------------------------------------------------------------------------------

def replay(rec):
    """Re-run ONE recorded violation directly on the real API (no enumerator): the recorded history is executed call by
    call on a fresh object and the checks of the final call / final state are evaluated."""
    det = rec.get("detail") or {}
    mp = dict(det.get("model") or {})
    part = mp.pop("part", None)
    with Instrumentation():
        if part == "dec":
            return _replay_dec(rec, mp, det)
        if part in ("bus", "busreal"):
            mp.pop("menu", None)
            if part == "bus":
                mp["menu"] = "full"
        if part == "loc":
            mp["reserved"] = tuple_deep(mp.get("reserved") or ())
        m = _model(part, mp)
        hist = [tuple_deep(c) for c in det["history"]]
        ctx = m.fresh()
        viol, outs = [], []

        def run():
            v = []
            for i, c in enumerate(hist):
                before = m.canon(ctx)
                out, ret = m.step(ctx, c, i)
                outs.append(out)
                if out == "ok":
                    v = m.check_call(ctx, c, i, ret, before)
                elif out == "rejected":
                    v = m.check_reject(ctx, c, i, before, m.canon(ctx))
                    if i < len(hist) - 1:
                        break
                else:
                    break
            if outs and outs[-1] == "ok":
                v = v + m.check_state(ctx)
            return v
        if part == "bus":
            from checks.c13_bus import StubInterconnect
            with StubInterconnect():
                viol = run()
        else:
            viol = run()
        hit = [v for v in viol if v["rule"] == rec["rule"]]
        return dict(cfg=rec.get("cfg"), rule=rec["rule"], reproduced=bool(hit), outcomes=outs,
                    msg=hit[0]["msg"] if hit else None, other_rules=sorted({v["rule"] for v in viol} - {rec["rule"]}),
                    state=m.jstate(ctx))


def _replay_dec(rec, mp, det):
    import types
    from litex.soc.integration import soc
    from checks.c13_bus import DecoderEval, ref_accept, pow2_roundup
    aw, dw = mp["aw"], mp["dw"]
    bus = types.SimpleNamespace(address_width=aw, data_width=dw)
    B = dw // 8
    E = DecoderEval(aw - (B.bit_length() - 1))
    res = []
    for o, s in [(det.get("origin"), det.get("size")), (det.get("origin2"), det.get("size2"))]:
        if o is None:
            continue
        out, fn = K.guarded(lambda: soc.SoCRegion(origin=o, size=s).decoder(bus))
        res.append((o, s, out, E.expr(fn) if out == "ok" else None))
    rule = rec["rule"]
    rep = False
    if rule == "decode.unaligned_accepted":
        rep = res[0][2] == "ok" and res[0][0] % pow2_roundup(res[0][1]) != 0
    elif rule == "decode.window":
        o, s, out, e = res[0]
        rep = out == "ok" and E.accept(e, det["word"]) != ref_accept(o, pow2_roundup(s), True, det["word"], B)
    elif rule == "decode.two_slaves":
        rep = len(res) == 2 and all(r[2] == "ok" and E.accept(r[3], det["word"]) for r in res)
    return dict(cfg=rec.get("cfg"), rule=rule, reproduced=bool(rep), decoders=[(hex(o), hex(s), out) for o, s, out, _ in res], word=det.get("word"))
