"""C08 — AXI-Lite / AXI interconnect keeps grants and routes until every response has returned (DESIGN.md §4 C08)."""
import fsmc  # noqa
from fsmc.explore import Explorer, replay_stock
from fsmc.design import MachineryError
from checks.axilib import AxiIcHarness

PROPERTY = "C08"
LEVEL = "model_checking"
RULE = ("BFS to closure of (real AXI-Lite / AXI InterconnectShared, Crossbar, Arbiter, Decoder, PointToPoint with real SoCRegion decoders x "
        "1..3 masters x 1..3 slaves) under every channel schedule: AW/W together, W late, (capability) W before AW, free bready/rready, "
        "reactive slave readies, B/R after arbitrary delay, write-only / read-only / mixed traffic, one outstanding request per direction and master")
ASSUMPTIONS = [
    "2-state zero-delay FHDL semantics of litex.gen.sim",
    "environment honours the AXI dependency rules: valids never wait for readies, B only after AW and W, R only after AR",
    "base runs: a master raises AW no later than W, one outstanding request per direction, one idle cycle after a response; the excluded behaviours "
    "('+w_before_aw', '+greedy_master') are explored by separate configurations tied to known findings",
    "AXI (full) interfaces are driven with single-beat bursts (len=0, w.last=r.last=1)",
    "liveness under cooperation: slaves ready and answering, masters accept responses and do not delay their own channels",
]
V = {}


def add(proto, kind, nm, ns, mode, tier, **kw):
    tag = "".join(f"+{k}" for k, val in sorted(kw.items()) if val is True)
    n = f"{proto}.{kind}({nm}x{ns},{mode}){tag}"
    if kw.get("rlen"):
        n += f",rlen={kw['rlen']}"
    if n in V:
        n += ",w_together" if kw.get("w_late") is False else ",2"
    V[n] = (tier, dict(proto=proto, kind=kind, nm=nm, ns=ns, mode=mode, **kw))


for proto in ("lite", "full"):
    q = "quick" if proto == "lite" else "thorough"
    add(proto, "p2p", 1, 1, "mixed", "quick")
    add(proto, "decoder", 1, 2, "write", "quick")
    add(proto, "decoder", 1, 2, "read", "quick")
    add(proto, "decoder", 1, 2, "mixed", q)
    add(proto, "decoder", 1, 3, "write", "thorough")
    add(proto, "arbiter", 2, 1, "write", "quick")
    add(proto, "arbiter", 2, 1, "read", "quick")
    add(proto, "arbiter", 2, 1, "mixed", "thorough")
    add(proto, "arbiter", 3, 1, "read", "thorough")
    add(proto, "shared", 2, 2, "write", q)
    add(proto, "shared", 2, 2, "read", "quick")
    add(proto, "shared", 2, 2, "mixed", "thorough")
    add(proto, "crossbar", 2, 2, "write", q)
    add(proto, "crossbar", 2, 2, "read", "quick")
    add(proto, "crossbar", 2, 2, "mixed", "thorough")
    add(proto, "shared", 3, 2, "read", "thorough")
    add(proto, "crossbar", 2, 3, "read", "thorough")
# pipelined masters: a new AW/AR may be accepted while (and in the very cycle) earlier responses return; slaves queue 2 requests
add("lite", "arbiter", 2, 1, "read", "quick", pipelined=True)
add("lite", "decoder", 1, 2, "write", "quick", pipelined=True, w_late=False)
add("lite", "shared", 2, 2, "read", "quick", pipelined=True)
add("lite", "crossbar", 2, 2, "read", "thorough", pipelined=True)
add("lite", "shared", 2, 2, "write", "thorough", pipelined=True, w_late=False)
add("full", "shared", 2, 2, "read", "thorough", pipelined=True)
add("full", "arbiter", 2, 1, "write", "thorough", pipelined=True, w_late=False)
add("lite", "decoder", 1, 2, "read", "quick", pipelined=True, cross_slave=True)
add("lite", "decoder", 1, 2, "write", "thorough", pipelined=True, cross_slave=True, w_late=False)
# AXI (full) read bursts of two beats: r.last only on the final beat (the grant/selection locks count r.last)
add("full", "arbiter", 2, 1, "read", "quick", rlen=1)
add("full", "shared", 2, 2, "read", "quick", rlen=1)
add("full", "crossbar", 2, 2, "read", "thorough", rlen=1)
add("full", "shared", 2, 2, "read", "thorough", rlen=1, pipelined=True)
# W before AW through the arbiter alone (no decoder, so KF-C08-1 does not apply): must be clean
add("lite", "arbiter", 2, 1, "write", "quick", w_before_aw=True)
add("full", "arbiter", 2, 1, "write", "thorough", w_before_aw=True)
# bready / rready raised before the request is accepted and while idle (masters with a default-high response ready)
add("lite", "arbiter", 2, 1, "read", "quick", eager_ready=True)
add("lite", "arbiter", 2, 1, "write", "quick", eager_ready=True)
add("lite", "decoder", 1, 2, "mixed", "quick", eager_ready=True)
add("full", "arbiter", 2, 1, "read", "quick", eager_ready=True, rlen=1)
add("lite", "shared", 2, 2, "read", "thorough", eager_ready=True)
add("full", "shared", 2, 2, "write", "thorough", eager_ready=True)
add("lite", "crossbar", 2, 2, "write", "thorough", eager_ready=True)
# capabilities tied to known findings
add("lite", "decoder", 1, 2, "write", "quick", idle0=True)
add("lite", "shared", 2, 2, "write", "quick", idle0=True)
add("lite", "crossbar", 2, 2, "read", "quick", idle0=True)
add("full", "shared", 2, 2, "write", "thorough", idle0=True)
add("lite", "decoder", 1, 2, "write", "quick", w_before_aw=True, idle0=True)
add("lite", "decoder", 1, 2, "write", "quick", w_before_aw=True)
add("lite", "shared", 2, 2, "write", "thorough", w_before_aw=True)
add("full", "decoder", 1, 2, "write", "thorough", w_before_aw=True)
add("lite", "arbiter", 2, 1, "read", "quick", greedy=True)
add("lite", "shared", 2, 2, "read", "thorough", greedy=True)
add("full", "arbiter", 2, 1, "read", "thorough", greedy=True)
add("lite", "arbiter", 2, 1, "write", "thorough", greedy=True)


# masters of different address widths on the shared bus / crossbar (the narrow master first): the interconnect carries the widest address
for _proto, _kind, _mode, _tier in (("lite", "shared", "write", "quick"), ("lite", "shared", "read", "quick"), ("lite", "crossbar", "read", "quick"),
                                    ("full", "shared", "read", "quick"), ("full", "shared", "write", "thorough"), ("full", "crossbar", "write", "thorough")):
    V[f"{_proto}.{_kind}(2x3,{_mode},adr widths 7/8)"] = (_tier, dict(proto=_proto, kind=_kind, nm=2, ns=3, mode=_mode, adr_widths=(7, 8)))


def mk(name, table=V):
    kw = table[name][1]
    return lambda: AxiIcHarness(name, **kw)


def configs(tier):
    return [(n,) for n, (t, kw) in V.items() if t == "quick" or tier == "thorough"]


def tuple_deep(x):
    return tuple(tuple_deep(y) for y in x) if isinstance(x, (list, tuple)) else x


def run_config(cfg, seed, tier, table=V):
    f = mk(cfg[0], table)
    H = f()
    res = Explorer(H, seed=seed).run()
    out = res.as_dict()
    for v in out["violations"]:
        cyc = [tuple_deep(c) for c in v["cycle"]] if v.get("cycle") else None
        q = [q for q in H.live_queries if q[0] == v["rule"]][0] if cyc else None
        rp = replay_stock(f, [tuple_deep(c) for c in v["trace"]], cyc, q)
        v["replayed"] = dict(reproduced=rp["reproduced"], path=rp["path"], cycles=rp["cycles"])
        if not rp["reproduced"]:
            raise MachineryError(f"{cfg[0]}: violation {v['rule']} does not reproduce on the stock simulator: {rp}")
    return out


def replay(rec, table=V):
    f = mk(rec["cfg"], table)
    cyc = [tuple_deep(c) for c in rec["cycle"]] if rec.get("cycle") else None
    q = [q for q in f().live_queries if q[0] == rec["rule"]][0] if cyc else None
    rp = replay_stock(f, [tuple_deep(c) for c in rec["trace"]], cyc, q)
    return dict(cfg=rec["cfg"], rule=rec["rule"], reproduced=rp["reproduced"], err=rp["err"], path=rp["path"], cycles=rp["cycles"])
