"""AXI-Lite / AXI part of C11: time-outs on the shared interconnects and the bare Timeout modules (see c11_timeouts.py)."""
import fsmc  # noqa
from checks import c08_axi_ic as _c8

V = {}


def add(proto, kind, nm, ns, mode, T, tier, **kw):
    tag = "".join(f"+{k}" for k, val in sorted(kw.items()) if val is True)
    n = f"axi{'' if proto == 'full' else 'lite'}.{kind}({nm}x{ns},{mode},timeout={T}){tag}" + (",q2" if kw.get("qdepth") else "") + (f",{kw['dw']}bit" if kw.get("dw") else "")
    V[n] = (tier, dict(proto=proto, kind=kind, nm=nm, ns=ns, mode=mode, timeout=T, faults=True, w_late=False, unmapped=True, **kw))


for proto in ("lite", "full"):
    for T in (1, 2, 3, 4):
        tier = "quick" if (T <= 2 and proto == "lite") or (T == 2) else "thorough"
        add(proto, "timeout", 1, 1, "write", T, tier)
        add(proto, "timeout", 1, 1, "read", T, tier)
        add(proto, "shared", 1, 2, "read", T, tier)
        add(proto, "shared", 1, 2, "write", T, "quick" if T == 2 and proto == "lite" else "thorough")
    add(proto, "shared", 2, 2, "read", 2, "quick" if proto == "lite" else "thorough")
    add(proto, "shared", 2, 1, "write", 2, "thorough")
    add(proto, "timeout", 1, 1, "mixed", 2, "quick")
    add(proto, "crossbar", 1, 2, "read", 2, "quick" if proto == "lite" else "thorough")
    add(proto, "crossbar", 2, 2, "write", 2, "thorough")
    add(proto, "timeout", 1, 1, "write", 2, "quick" if proto == "lite" else "thorough", qdepth=2)
    add(proto, "shared", 1, 2, "write", 3, "thorough", qdepth=2)
    add(proto, "timeout", 1, 1, "read", 2, "quick" if proto == "lite" else "thorough", die_after_accept=True)
    add(proto, "timeout", 1, 1, "write", 2, "thorough", die_after_accept=True)
    # response ready already high while the request is offered / absorbed by the time-out responder
    add(proto, "timeout", 1, 1, "read", 2, "quick", eager_ready=True)
    add(proto, "timeout", 1, 1, "write", 2, "quick", eager_ready=True)
    add(proto, "timeout", 1, 1, "mixed", 2, "thorough", eager_ready=True)
    add(proto, "shared", 1, 2, "read", 2, "quick", eager_ready=True)
    add(proto, "shared", 2, 2, "read", 2, "thorough", eager_ready=True)
    # wide buses: all-ones read data over the whole word
    add(proto, "timeout", 1, 1, "read", 2, "quick", dw=64)
    add(proto, "shared", 1, 2, "read", 2, "thorough", dw=128)


def configs(tier):
    return [(n,) for n, (t, kw) in V.items() if t == "quick" or tier == "thorough"]


def run_config(cfg, seed, tier):
    return _c8.run_config(cfg, seed, tier, table=V)


def replay(rec):
    return _c8.replay(rec, table=V)
