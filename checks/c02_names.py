"""C02 — Verilog identifiers are unique, legal and reproducible   (DESIGN.md section 4, "### C02"; engine E3).

Part 1 (namer level, cfg names `namer.*`): exhaustive enumeration of small sets of signals whose back-traces are
assigned directly to `Signal.backtrace` (independent of the interpreter's tracer), each with a `name_override` from a
menu and an optional `related` chain, x every order in which `get_name` is first called x reserved set on/off.  The
namespace is built exactly like `litex.gen.fhdl.verilog.convert` builds it
(`build_signal_namespace(set_of_signals, reserved_keywords=...)`), with convert's own keyword set when "on".

Part 2 (netlist level, cfg names `netlist:*`): real small designs through the unmodified `convert`, in two fresh
interpreters with different PYTHONHASHSEED and heap layout (checks/c02_designs.py); every `ns.get_name` call made
while the text is generated is observed, the emitted declarations are parsed.

Reproducibility beyond "fresh process, same DUIDs": every namer scenario is built again on Signals created after
k dummy Signals (k in DUID_OFFSETS) and must give every signal (by creation index) the same name; every netlist design
is also built + converted a second time in the same process and in further fresh processes that create N dummy Signals
first (N in NETLIST_DUMMIES): the text must be the one of the plain run (tie-breaks must follow the design, not the
position of its objects in the global DUID sequence / the iteration order of sets hashed by DUID).

Oracle (boring, independent): (1) distinct objects get distinct names, a name never changes on a repeated call;
(2) a name matches [A-Za-z_][A-Za-z0-9_$]* and - when the reserved set is in use - is not one of the IEEE 1800-2017
Annex B keywords TYPED BELOW (not imported from verilog.py); (3) every identifier declared in the text is declared
once; (4) the two texts are identical after masking the two date lines.
"""
import fsmc  # noqa: F401  FIRST import (sys.path -> $VERIF_REPO, tracer shim)
import os, sys, re, json, itertools, subprocess

PROPERTY = "C02"
LEVEL = "exploration"
MAXTASKS = 4
RULE = ("namer level: every ordered tuple (k<=3) / multiset in both creation orders (k=4, thorough, without override 'always') of signal specs "
        "(back-trace shape x name_override [x related-to-an-earlier-signal vectors, chain <= 2]) from the menus in "
        "coverage.menus, plus one keyword family (each of the 248 IEEE 1800-2017 keywords as override / as leaf name / "
        "twice / next to '<kw>_1'); each scenario is evaluated for every permutation of first get_name calls and with "
        "convert()'s reserved set on and off, and is rebuilt at every DUID offset of (1,2,3,5,8,13) dummy Signals under which "
        "the signal set iterates in an order not yet seen for that scenario (all offsets in the keyword and k<=2 families): "
        "evaluations = scenario x order x reserved runs + DUID-offset rebuilds (+ 10 conversions per netlist design: plain, other "
        "hash seed/heap, second build in the same process, 7 DUID offsets).  A scenario is counted in distinct_nontrivial iff in at least one run the namer had to "
        "disambiguate (some final name differs from the signal's own override / leaf name); scenarios are distinct "
        "inputs by construction (configurations partition the space), a netlist design counts 1 if at least one "
        "observed name needed disambiguation.  Netlist level: per design, all get_name calls of convert() observed, all "
        "declarations parsed (counts in per_config.cover).")
ASSUMPTIONS = [
    "signal sets of size <= 3 (quick) / <= 4 (thorough); back-trace shapes, overrides and related chains limited to the menus recorded in coverage.menus",
    "related signals are created before the signals that refer to them (as Signal(related=...) forces) and belong to the named set",
    "the namespace is obtained like verilog.convert obtains it: build_signal_namespace(set, reserved_keywords); 'reserved on' passes convert's own keyword set",
    "namer runs for the different get_name orders start from one-level copies of a freshly built namespace; every 32nd scenario (and every reported violation) is re-run on fresh builds and must agree",
    "legal identifier = [A-Za-z_][A-Za-z0-9_$]* and not an IEEE 1800-2017 Annex B keyword (list typed in this file); Verilog-2005 tools reserve a subset of it",
    "netlist level: declarations are recognised by the fixed layout convert() emits (port lines, wire/reg lines, memory arrays, instance headers); a name handed out for a Signal/Memory/Instance that is found in no declaration is a machinery error, not a violation",
    "reproducibility is judged on two fresh processes (PYTHONHASHSEED 1 / 4242, ASLR + different heap padding), a second build in the same process and fresh processes that create 1, 2, 3, 5, 8, 13, 64 dummy Signals before the design; the two '// Date' lines are masked",
    "namer level DUID offsets: consecutive real Signals (DUID stride recorded in cover), names compared with get_name called in creation order and the reserved set on; an offset is skipped only when both the DUID order and the iteration order of the signal set equal those of an offset already evaluated for the same scenario",
    "tracer shim (only for the netlist designs; names only)",
]

# ------------------------------------------------------------------------------------------------------------------
# IEEE Std 1800-2017, Annex B (Table B.1) - typed from the standard.  Independent of litex/gen/fhdl/verilog.py.
# ------------------------------------------------------------------------------------------------------------------
KEYWORDS_1800_2017 = frozenset("""
accept_on alias always always_comb always_ff always_latch and assert assign assume automatic
before begin bind bins binsof bit break buf bufif0 bufif1 byte
case casex casez cell chandle checker class clocking cmos config const constraint context continue cover covergroup
coverpoint cross
deassign default defparam design disable dist do
edge else end endcase endchecker endclass endclocking endconfig endfunction endgenerate endgroup endinterface endmodule
endpackage endprimitive endprogram endproperty endspecify endsequence endtable endtask enum event eventually expect
export extends extern
final first_match for force foreach forever fork forkjoin function
generate genvar global
highz0 highz1
if iff ifnone ignore_bins illegal_bins implements implies import incdir include initial inout input inside instance
int integer interconnect interface intersect
join join_any join_none
large let liblist library local localparam logic longint
macromodule matches medium modport module
nand negedge nettype new nexttime nmos nor noshowcancelled not notif0 notif1 null
or output
package packed parameter pmos posedge primitive priority program property protected pull0 pull1 pulldown pullup
pulsestyle_ondetect pulsestyle_onevent pure
rand randc randcase randsequence rcmos real realtime ref reg reject_on release repeat restrict return rnmos rpmos rtran
rtranif0 rtranif1
s_always s_eventually s_nexttime s_until s_until_with scalared sequence shortint shortreal showcancelled signed small
soft solve specify specparam static string strong strong0 strong1 struct super supply0 supply1 sync_accept_on
sync_reject_on
table tagged task this throughout time timeprecision timeunit tran tranif0 tranif1 tri tri0 tri1 triand trior trireg
type typedef
union unique unique0 unsigned until until_with untyped use uwire
var vectored virtual void
wait wait_order wand weak weak0 weak1 while wildcard wire with within wor
xnor xor
""".split())
assert len(KEYWORDS_1800_2017) == 248, len(KEYWORDS_1800_2017)

ID_RE = re.compile(r"^[A-Za-z_][A-Za-z0-9_$]*$")


class C02MachineryError(Exception):
    pass


# ------------------------------------------------------------------------------------------------------------------
# Menus
# ------------------------------------------------------------------------------------------------------------------
# back-trace shapes: tuples of (name, instance number), outermost first (what migen.fhdl.tracer.trace_back produces)
SHAPES = [
    (("x", 0),),                              #  0 plain
    (("x", 1),),                              #  1 same name, second object
    (("x_1", 0),),                            #  2 looks like a suffixed name
    (("x1", 0),),                             #  3 looks like a DUID/number-disambiguated name
    (("a", 0),),                              #  4 a signal named like a hierarchy node
    (("a_x", 0),),                            #  5 looks like a joined hierarchical name
    (("a", 0), ("x", 0)),                     #  6
    (("a", 1), ("x", 0)),                     #  7 same class, other instance
    (("b", 0), ("x", 0)),                     #  8 other parent
    (("a", 0), ("x_1", 0)),                   #  9
    (("a", 0), ("b", 0), ("x", 0)),           # 10 depth 3
    (("a", 1), ("b", 0), ("x", 0)),           # 11 depth 3, other instance on top
    (("sink", 0), ("x", 0)),                  # 12
    (("a", 0), ("sink", 0), ("x", 0)),        # 13 shared prefix with 6, 9, 10
    (("a", 0), ("x", 1)),                     # 14 same parent, same name, second object
]
N_BASE_SHAPES = len(SHAPES)        # 15: used by every family
SHAPES += [                        # + 9 = the 24-shape "hierarchy menu" of the thorough tier (family flat3x, k = 3)
    (("a", 0), ("a", 0)),                     # 15 a node and its signal share a name
    (("x", 0), ("a", 0)),                     # 16 inverse nesting
    (("a", 0), ("b", 1), ("x", 0)),           # 17 second instance at depth 2
    (("b", 0), ("a", 0), ("x", 0)),           # 18 swapped hierarchy
    (("a", 2), ("x", 0)),                     # 19 third, non-contiguous instance number
    (("a_b", 0), ("x", 0)),                   # 20 node name that looks like a joined path
    (("a", 0), ("b_x", 0)),                   # 21 leaf name that looks like a joined path
    (("sink", 1), ("x", 0)),                  # 22 other instance of sink
    (("x0", 0),),                             # 23 looks like a DUID-disambiguated name
]
OVERRIDES = [None, "x", "x_1", "x_2", "reg", "repeat", "always"]
# reduced menus for the related-chain families
R_SHAPES_Q = [0, 1, 2, 3, 6, 7, 9, 12]        # quick, k<=3
R_OVERRIDES_Q = [0, 1, 2, 4, 5]               # None x x_1 reg repeat
R_SHAPES_4 = [0, 2, 3, 6, 7]                  # thorough, k=4
R_OVERRIDES_4 = [0, 1, 2, 5]                  # None x x_1 repeat

FULL = [(s, o) for s in range(N_BASE_SHAPES) for o in range(len(OVERRIDES))]
EXT = [(s, o) for s in range(len(SHAPES)) for o in range(len(OVERRIDES))]
FULL4 = [(s, o) for s, o in FULL if OVERRIDES[o] != "always"]      # k = 4: "always" behaves like "reg" (both are escaped); 90 specs
RED_Q = [(s, o) for s in R_SHAPES_Q for o in R_OVERRIDES_Q]
RED_4 = [(s, o) for s in R_SHAPES_4 for o in R_OVERRIDES_4]


def rel_vectors(k, include_none):
    """All vectors r with r[0] = -1 and r[i] in {-1, 0..i-1} whose related chains have at most 2 ancestors."""
    out = []
    for r in itertools.product(*[[-1] + list(range(i)) for i in range(k)]):
        ok = True
        for i in range(k):
            d, j = 0, i
            while r[j] >= 0:
                j = r[j]; d += 1
            if d > 2:
                ok = False
        if not ok:
            continue
        if not include_none and all(x < 0 for x in r):
            continue
        out.append(r)
    return out


# DUID offsets: every scenario is built again on Signals created after k dummy Signals (all k of the menu).  The names
# must not depend on where in the global DUID sequence the design happens to be built (second build in one process,
# unrelated objects created first): "two runs over the same design produce the same text".
DUID_OFFSETS = (0, 1, 2, 3, 5, 8, 13)
CONF_EVERY = 32     # every CONF_EVERY-th scenario is re-run on fresh builds (conformance of the copy shortcut)

# ------------------------------------------------------------------------------------------------------------------
# Configurations
# ------------------------------------------------------------------------------------------------------------------
NPART = {"flat3": 32, "relq": 16, "flat4": 128, "rel3": 64, "rel4": 128, "flat3x": 64}


def configs(tier):
    from checks import c02_designs
    c = [("namer.keywords(248 x 4 shapes)", "kw"),
         ("namer.flat.k1-2(full menu, ordered)", "flat12")]
    c += [("namer.flat.k3(full menu, ordered).part%02d/%d" % (p, NPART["flat3"]), "flat3", p) for p in range(NPART["flat3"])]
    c += [("namer.suffix_chain.k4(x / x_1 / x_2 / reg overrides and names, ordered)", "chain")]
    c += [("namer.related.k2-3(reduced menu, ordered).part%02d/%d" % (p, NPART["relq"]), "relq", p) for p in range(NPART["relq"])]
    if tier == "thorough":
        c += [("namer.flat.k4(full menu less override always, multisets x 2 creation orders).part%03d/%d" % (p, NPART["flat4"]), "flat4", p) for p in range(NPART["flat4"])]
        c += [("namer.flat.k3x(24-shape menu, ordered, at least one extended shape).part%02d/%d" % (p, NPART["flat3x"]), "flat3x", p) for p in range(NPART["flat3x"])]
        c += [("namer.related.k3(full menu, ordered).part%02d/%d" % (p, NPART["rel3"]), "rel3", p) for p in range(NPART["rel3"])]
        c += [("namer.related.k4(reduced menu, ordered).part%03d/%d" % (p, NPART["rel4"]), "rel4", p) for p in range(NPART["rel4"])]
    for name, (t, fn) in c02_designs.REGISTRY.items():
        if t == "quick" or tier == "thorough":
            c.append(("netlist:" + name, "design", name))
    return c


def scenarios(kind, part):
    """Yield (specs, rel, reverse_creation): specs = tuple of (shape idx, override idx); rel = related vector."""
    if kind == "flat12":
        for k in (1, 2):
            for specs in itertools.product(FULL, repeat=k):
                yield specs, (-1,) * k, False
    elif kind == "chain":
        # chains of suffix-like names: x, x, x_1, x_2 ... (a repeated name has to skip SEVERAL taken suffixes)
        menu4 = [(0, 0), (0, 1), (0, 2), (0, 3), (0, 4), (2, 0)]
        for specs in itertools.product(menu4, repeat=4):
            yield specs, (-1,) * 4, False
    elif kind == "flat3":
        n = NPART[kind]
        for i, specs in enumerate(itertools.product(FULL, repeat=3)):
            if i % n == part:
                yield specs, (-1, -1, -1), False
    elif kind == "flat3x":
        n = NPART[kind]
        for i, specs in enumerate(itertools.product(EXT, repeat=3)):
            if i % n == part and max(specs[0][0], specs[1][0], specs[2][0]) >= N_BASE_SHAPES:      # (the rest is family flat3)
                yield specs, (-1, -1, -1), False
    elif kind == "flat4":
        n = NPART[kind]
        for i, specs in enumerate(itertools.combinations_with_replacement(FULL4, 4)):
            if i % n == part:
                yield specs, (-1,) * 4, False
                if specs[0] != specs[3]:                # (all four equal: the reversed creation order is the same case)
                    yield specs, (-1,) * 4, True
    elif kind in ("relq", "rel3", "rel4"):
        n = NPART[kind]
        menu = {"relq": RED_Q, "rel3": FULL, "rel4": RED_4}[kind]
        ks = {"relq": (2, 3), "rel3": (3,), "rel4": (4,)}[kind]
        i = 0
        for k in ks:
            rv = rel_vectors(k, include_none=False)
            for specs in itertools.product(menu, repeat=k):
                if i % n == part:
                    for r in rv:
                        yield specs, r, False
                i += 1
    else:
        raise KeyError(kind)


# ------------------------------------------------------------------------------------------------------------------
# Namer-level evaluation
# ------------------------------------------------------------------------------------------------------------------
class Namer:
    """Evaluates scenarios against the real namer.  Holds a pool of real Signal objects (creation = duid order)."""

    def __init__(self):
        from migen.fhdl.structure import Signal
        import importlib
        self.namer = importlib.import_module("litex.gen.fhdl.namer")
        V = importlib.import_module("litex.gen.fhdl.verilog")
        # the set convert() passes (code under test, NOT the oracle)
        self.reserved_on = V._ieee_1800_2017_verilog_reserved_keywords
        # one run of consecutively created real Signals: arr[k:k+4] are "the four signals created after k dummy Signals"
        self.arr = [Signal() for _ in range(4 + max(DUID_OFFSETS))]
        self.pool = self.arr[:4]
        self.duid_stride = sorted({b.duid - a.duid for a, b in zip(self.arr, self.arr[1:])})
        self.full_offsets = False      # True: never skip an offset (small families)
        assert all(a.duid < b.duid for a, b in zip(self.pool, self.pool[1:]))
        self.perms = {k: list(itertools.permutations(range(k))) for k in range(1, 5)}
        self.status = {}       # name -> 0 ok / 1 illegal / 2 keyword
        # measured
        self.n_scen = self.n_eval = self.n_nontrivial = self.n_conf = 0
        self.cover = dict(suffix_runs=0, keyword_escaped_runs=0, hier_prefix_runs=0, exceptions=0, collisions=0,
                          duid_offset_rebuilds=0, duid_offsets_same_set_order_skipped=0, duid_offset_set_orders=0)
        self.outcomes = set()
        self.viol = {}         # rule -> [count, key, detail]
        self.exc_samples = []

    # -- scenario -> configured signals ---------------------------------------------------------------------------
    def setup(self, bts, ovs, rel, reverse):
        k = len(bts)
        # reverse creation order: spec i sits on the signal with the i-th LARGEST duid (flat families only)
        return self.setup_at(0, bts, ovs, rel, reverse)

    def setup_at(self, off, bts, ovs, rel, reverse):
        k = len(bts)
        sigs = self.arr[off:off + k][::-1] if reverse else self.arr[off:off + k]
        for i, s in enumerate(sigs):
            s.backtrace = list(bts[i])
            s.name_override = ovs[i]
            s.related = sigs[rel[i]] if rel[i] >= 0 else None
        return sigs

    @staticmethod
    def clone(ns):
        """One-level copy of a namespace (its dict / set / list attributes are copied, the Signals are shared)."""
        c = object.__new__(type(ns))
        d = c.__dict__
        d.update(ns.__dict__)
        for a, v in ns.__dict__.items():
            t = type(v)
            if t is dict or t is set or t is list:
                d[a] = t(v)
        return c

    def classify(self, nm, res):
        st = self.status.get(nm)
        if st is None:
            st = 0 if (isinstance(nm, str) and ID_RE.match(nm)) else 1
            if st == 0 and nm in KEYWORDS_1800_2017:
                st = 2
            self.status[nm] = st
        if st == 2 and not res:
            return 0
        return st

    def run_order(self, ns, sigs, perm, res):
        """First calls in `perm` order, then every signal once more.  -> (names, problems[(rule, msg)])"""
        k = len(sigs)
        names = [None] * k
        get = ns.get_name
        for i in perm:
            names[i] = get(sigs[i])
        probs = []
        for i in range(k):
            again = get(sigs[i])
            if again != names[i]:
                probs.append(("namer.stable.changed", f"get_name of signal {i} returned {names[i]!r} then {again!r}"))
        return names, probs + self.judge(ns, sigs, names, res)

    def judge(self, ns, sigs, names, res):
        """Oracle (1) injective and (2) legal / not reserved, on one vector of final names."""
        k = len(sigs)
        probs = []
        if len(set(names)) < k:
            bases = self.bases(ns, sigs)
            by = {}
            for i, nm in enumerate(names):
                by.setdefault(nm, []).append(i)
            for nm, idx in by.items():
                if len(idx) > 1:
                    alias = len({bases[i] for i in idx}) == len(idx)
                    probs.append(("namer.unique.suffix_alias" if alias else "namer.unique.collision",
                                  f"signals {idx} (base names {[bases[i] for i in idx]}) all got the name {nm!r}"))
        for i, nm in enumerate(names):
            st = self.classify(nm, res)
            if st == 1:
                probs.append(("namer.legal.illegal_identifier", f"signal {i} got {nm!r}, not a Verilog identifier"))
            elif st == 2:
                probs.append((f"namer.reserved.{nm}", f"signal {i} got the reserved word {nm!r} as its name although the reserved set is in use"))
        return probs

    @staticmethod
    def bases(ns, sigs):
        nd = getattr(ns, "name_dict", {})
        return [s.name_override if s.name_override is not None else nd.get(s) for s in sigs]

    def build(self, sigs, res):
        return self.namer.build_signal_namespace(set(sigs), self.reserved_on if res else set())

    def describe(self, bts, ovs, rel, reverse, perm=None, res=None, names=None, off=None, names_off=None):
        d = dict(signals=[dict(backtrace=[list(e) for e in bts[i]], name_override=ovs[i], related=(rel[i] if rel[i] >= 0 else None))
                          for i in range(len(bts))], creation="reversed (spec i on the i-th youngest signal)" if reverse else "in order")
        d["reverse"] = bool(reverse)
        if perm is not None:
            d["order"] = list(perm)
            d["reserved"] = bool(res)
            d["names"] = names
        if off is not None:
            d["duid_offset_dummy_signals"] = off
            d["names_at_offset"] = names_off
        return d

    # -- one scenario ---------------------------------------------------------------------------------------------
    def scenario(self, bts, ovs, rel=None, reverse=False):
        k = len(bts)
        rel = rel or (-1,) * k
        sigs = self.setup(bts, ovs, rel, reverse)
        plain = tuple([ovs[i] if ovs[i] is not None else bts[i][-1][0] for i in range(k)])
        ordinal = self.n_scen
        self.n_scen += 1
        nontrivial = False
        results = {}
        rng = range(k)
        cover = self.cover
        clone = self.clone
        vkey = None
        for res in (True, False):
            try:
                ns0 = self.build(sigs, res)
            except Exception as e:                      # reported in the evidence, not a violation (DESIGN C02)
                cover["exceptions"] += 1
                if len(self.exc_samples) < 3:
                    self.exc_samples.append(dict(where="build_signal_namespace", error=repr(e), scenario=self.describe(bts, ovs, rel, reverse)))
                self.n_eval += 1
                continue
            raised, fine = [], []
            memo = {}                                   # final-name vector -> (problems, cover class) for this namespace
            for perm in self.perms[k]:
                ns = clone(ns0)
                self.n_eval += 1
                unstable = None
                try:
                    get = ns.get_name
                    names = [None] * k
                    for i in perm:
                        names[i] = get(sigs[i])
                    for i in rng:
                        again = get(sigs[i])
                        if again != names[i]:
                            unstable = ("namer.stable.changed", f"get_name of signal {i} returned {names[i]!r} then {again!r}")
                except Exception as e:
                    raised.append((perm, repr(e)))
                    cover["exceptions"] += 1
                    if len(self.exc_samples) < 3:
                        self.exc_samples.append(dict(where="get_name", error=repr(e), scenario=self.describe(bts, ovs, rel, reverse, perm, res)))
                    continue
                fine.append(perm)
                results[(res, perm)] = names
                t = tuple(names)
                info = memo.get(t)
                if info is None:
                    probs = self.judge(ns, sigs, names, res)
                    cls = None
                    if t != plain:
                        bases = self.bases(ns, sigs)
                        if any(b is not None and b != n for b, n in zip(bases, names)):
                            cls = "suffix_runs"
                            if res and any(b in KEYWORDS_1800_2017 and n != b for b, n in zip(bases, names)):
                                cls = "keyword_escaped_runs"
                        else:
                            cls = "hier_prefix_runs"
                    self.outcomes.add(hash((plain, t)))
                    info = memo[t] = (probs, cls)
                probs, cls = info
                if cls is not None:
                    nontrivial = True
                    cover[cls] += 1
                if unstable is not None:
                    probs = probs + [unstable]
                if probs:
                    if vkey is None:
                        # "smallest" is defined on the case itself, not on the enumeration order (seed independent)
                        vkey = (k, sum(o is not None for o in ovs), sum(len(b) for b in bts), bts, tuple(o or "" for o in ovs), rel, reverse)
                    for rule, msg in probs:
                        if rule.startswith("namer.unique"):
                            cover["collisions"] += 1
                        self.record(rule, msg, vkey, (bts, ovs, rel, reverse, perm, res, names))
            if raised and fine:
                self.record("namer.repro.order_dependent_exception",
                            f"get_name raises for first-call order {list(raised[0][0])} ({raised[0][1]}) but works for order {list(fine[0])}",
                            (k, 0, 0, bts, tuple(o or "" for o in ovs), rel, reverse), (bts, ovs, rel, reverse, raised[0][0], res, None))
        if nontrivial:
            self.n_nontrivial += 1
        if ordinal % CONF_EVERY == 0:
            self.conform(sigs, results)
        self.duid_offsets(bts, ovs, rel, reverse, sigs, results)       # (re-configures overlapping Signals: keep last)
        return results

    def duid_offsets(self, bts, ovs, rel, reverse, sigs, results):
        """Oracle (4) at the namer level: the same scenario built on Signals whose DUIDs are shifted (k dummy Signals
        created first, every k of DUID_OFFSETS) gives every signal (by creation index) the same name.  Judged with the
        reserved set on and get_name called in creation order.  An offset under which the signal set iterates in an
        order that was already evaluated for this scenario (and the DUID order is the same by construction) is not
        rebuilt, except in the small families (full_offsets)."""
        k = len(bts)
        ident = self.perms[k][0]
        base = results.get((True, ident))
        if base is None:
            return
        pos = {s: i for i, s in enumerate(sigs)}
        seen = {tuple([pos[s] for s in set(sigs)])}
        cover = self.cover
        for off in DUID_OFFSETS[1:]:
            so = self.setup_at(off, bts, ovs, rel, reverse)
            pos = {s: i for i, s in enumerate(so)}
            it = tuple([pos[s] for s in set(so)])
            if it in seen:
                if not self.full_offsets:
                    cover["duid_offsets_same_set_order_skipped"] += 1
                    continue
            else:
                seen.add(it)
            self.n_eval += 1
            cover["duid_offset_rebuilds"] += 1
            try:
                ns = self.build(so, True)
                get = ns.get_name
                names = [get(x) for x in so]
            except Exception as e:
                cover["exceptions"] += 1
                self.record("namer.repro.duid_offset_exception", f"works at DUID offset 0 but raises after {off} dummy Signals: {e!r}",
                            (k, sum(o is not None for o in ovs), sum(len(b) for b in bts), bts, tuple(o or "" for o in ovs), rel, reverse),
                            (bts, ovs, rel, reverse, ident, True, base, off, None))
                continue
            if names != base:
                i = next(j for j in range(k) if names[j] != base[j])
                self.record("namer.repro.duid_offset",
                            f"signal {i} (by creation index) is called {base[i]!r} when the scenario is built first, but {names[i]!r} when "
                            f"{off} dummy Signal(s) are created before it: names {base} vs {names}",
                            (k, sum(o is not None for o in ovs), sum(len(b) for b in bts), bts, tuple(o or "" for o in ovs), rel, reverse),
                            (bts, ovs, rel, reverse, ident, True, base, off, names))
        cover["duid_offset_set_orders"] += len(seen)

    def conform(self, sigs, results):
        """The copy shortcut against fresh builds: same names for every (reserved, order)."""
        k = len(sigs)
        for (res, perm), names in results.items():
            ns = self.build(sigs, res)
            fresh = [None] * k
            for i in perm:
                fresh[i] = ns.get_name(sigs[i])
            if fresh != names:
                raise C02MachineryError(f"copied namespace and fresh namespace disagree: {names} vs {fresh} "
                                        f"(order {perm}, reserved {res}, back-traces {[s.backtrace for s in sigs]}, "
                                        f"overrides {[s.name_override for s in sigs]})")
            self.n_conf += 1

    def record(self, rule, msg, key, args):
        """Count the violating run; keep the smallest one (fewest signals, overrides, hierarchy) as the example."""
        v = self.viol.get(rule)
        if v is None:
            self.viol[rule] = [1, key, msg, self.describe(*args)]
        else:
            v[0] += 1
            if key < v[1]:
                v[1], v[2], v[3] = key, msg, self.describe(*args)

    def violations(self):
        out = []
        for rule, (cnt, key, msg, detail) in sorted(self.viol.items()):
            rp = replay_namer(rule, detail)            # every reported violation is re-run on fresh objects first
            if not rp["reproduced"]:
                raise C02MachineryError(f"violation {rule} does not reproduce on a fresh namespace: {detail} -> {rp}")
            detail = dict(detail, occurrences_in_this_configuration=cnt)
            out.append(dict(rule=rule, msg=f"{msg}  [{cnt} run(s) of this configuration violate this rule; smallest shown]",
                            detail=detail, trace=scenario_as_calls(detail), replayed=dict(reproduced=True, names=rp["names"])))
        return out


def scenario_as_calls(d):
    """The violating case written as the API calls that reproduce it (goes to the replay file as `trace`)."""
    tr = []
    for i, s in enumerate(d["signals"]):
        tr.append(f"s{i} = Signal(); s{i}.backtrace = {[tuple(e) for e in s['backtrace']]}; s{i}.name_override = {s['name_override']!r}"
                  + (f"; s{i}.related = s{s['related']}" if s["related"] is not None else ""))
    if d.get("reverse"):
        tr.append("(signals created youngest first: s0 has the largest duid)")
    tr.append("ns = build_signal_namespace({%s}, reserved_keywords=%s)" % (", ".join(f"s{i}" for i in range(len(d["signals"]))),
              "verilog._ieee_1800_2017_verilog_reserved_keywords" if d.get("reserved") else "set()"))
    for i in d.get("order", []):
        tr.append(f"ns.get_name(s{i})" + (f"  -> {d['names'][i]!r}" if d.get("names") else ""))
    if d.get("duid_offset_dummy_signals") is not None:
        tr.append(f"# again in the same way, but with {d['duid_offset_dummy_signals']} dummy Signal() created before s0: names {d.get('names_at_offset')}")
    return tr


def replay_namer(rule, d):
    """Re-run ONE recorded namer scenario on fresh Signals and a fresh namespace, without the enumerator."""
    from migen.fhdl.structure import Signal
    import importlib
    namer = importlib.import_module("litex.gen.fhdl.namer")
    V = importlib.import_module("litex.gen.fhdl.verilog")
    k = len(d["signals"])
    reserved_on = V._ieee_1800_2017_verilog_reserved_keywords

    def configure(sigs):
        if d.get("reverse"):
            sigs = sigs[::-1]
        for s, sd in zip(sigs, d["signals"]):
            s.backtrace = [tuple(e) for e in sd["backtrace"]]
            s.name_override = sd["name_override"]
            s.related = sigs[sd["related"]] if sd["related"] is not None else None
        return sigs

    if rule.startswith("namer.repro.duid_offset"):
        # the scenario built first, then again after 1, 2, 3, 5, 8, 13 dummy Signals: same names for the same signals?
        arr = [Signal() for _ in range(k + max(DUID_OFFSETS))]
        outcome = {}
        for off in DUID_OFFSETS:
            sigs = configure(arr[off:off + k])
            try:
                ns = namer.build_signal_namespace(set(sigs), reserved_on)
                outcome[off] = [ns.get_name(x) for x in sigs]
            except Exception as e:
                outcome[off] = repr(e)
        return dict(reproduced=any(v != outcome[0] for v in outcome.values()), names=outcome[0],
                    names_per_offset={str(o): v for o, v in outcome.items()})
    sigs = configure([Signal() for _ in range(k)])
    res = bool(d.get("reserved"))
    if rule == "namer.repro.order_dependent_exception":
        outcome = []
        for perm in itertools.permutations(range(k)):
            ns = namer.build_signal_namespace(set(sigs), V._ieee_1800_2017_verilog_reserved_keywords if res else set())
            try:
                for i in perm:
                    ns.get_name(sigs[i])
                outcome.append(True)
            except Exception:
                outcome.append(False)
        return dict(reproduced=(True in outcome and False in outcome), names=None)
    ns = namer.build_signal_namespace(set(sigs), V._ieee_1800_2017_verilog_reserved_keywords if res else set())
    chk = Namer.__new__(Namer)
    chk.status = {}
    names, probs = Namer.run_order(chk, ns, sigs, d["order"], res)
    return dict(reproduced=any(r == rule for r, _ in probs), names=names, problems=[list(p) for p in probs])


def run_namer(cfg, seed):
    name, kind = cfg[0], cfg[1]
    part = cfg[2] if len(cfg) > 2 else 0
    N = Namer()
    N.full_offsets = kind in ("kw", "flat12")
    sample = None
    if kind == "kw":
        kws = sorted(KEYWORDS_1800_2017)
        if seed:
            kws = kws[seed % len(kws):] + kws[:seed % len(kws)]
        for kw in kws:
            one = lambda n, i=0: ((n, i),)                                       # a depth-1 back-trace
            for bts, ovs in (((one("a"),), (kw,)),                               # as a name_override
                             ((one(kw),), (None,)),                              # as the Python variable name
                             ((one(kw), one(kw, 1)), (None, None)),              # twice
                             ((one(kw), one(kw + "_1")), (None, None)),          # next to a signal called <kw>_1
                             ):
                r = N.scenario(bts, ovs)
                sample = sample or (bts, ovs, (-1,) * len(bts), False, r)
    else:
        for specs, rel, rev in scenarios(kind, part):
            bts = tuple(SHAPES[s] for s, o in specs)
            ovs = tuple(OVERRIDES[o] for s, o in specs)
            r = N.scenario(bts, ovs, rel, rev)
            if sample is None and N.n_scen > 40 and any(x >= 0 for x in rel) == (kind.startswith("rel")):
                sample = (bts, ovs, rel, rev, r)
    if sample is None:
        raise C02MachineryError("empty configuration")
    bts, ovs, rel, rev, r = sample
    smp = N.describe(bts, ovs, rel, rev)
    smp["names_per_(reserved,order)"] = {f"{'on' if res else 'off'}:{''.join(map(str, perm))}": nm for (res, perm), nm in sorted(r.items(), reverse=True)}
    cover = dict(N.cover, scenarios=N.n_scen, nontrivial_scenarios=N.n_nontrivial, distinct_outcome_patterns=len(N.outcomes),
                 conformance_reruns=N.n_conf, duid_stride_of_consecutive_signals=N.duid_stride, violating_runs={k: v[0] for k, v in sorted(N.viol.items())})
    if N.exc_samples:
        cover["exception_samples"] = N.exc_samples
    if kind != "kw" and N.n_nontrivial == 0:
        raise C02MachineryError("vacuous configuration: the namer never had to disambiguate anything")
    return dict(cfg=name, exhaustive=True, violations=N.violations(), evaluations=N.n_eval, distinct=N.n_nontrivial,
                sample=smp, cover=cover)


# ------------------------------------------------------------------------------------------------------------------
# Netlist level
# ------------------------------------------------------------------------------------------------------------------
HASHSEEDS = (("1", 0), ("4242", 100003))      # (PYTHONHASHSEED, heap padding objects) of the two fresh processes
DUID_SWEEP = dict(quick=128, thorough=256)    # in-process rebuilds, the design's first DUID at every residue modulo this
TIER = ["quick"]
NETLIST_DUMMIES = (1, 2, 3, 5, 8, 13, 64)     # further fresh processes create this many dummy Signals before the design
CHILD_TIMEOUT = 240

PORT_RE = re.compile(r"^\s+(input|output|inout)\s+(wire|reg)\s+(signed\s+)?(\[\d+:\d+\]\s+)?(?P<id>[^\s,;]+),?$")
DECL_RE = re.compile(r"^(wire|reg)\s+(signed\s+)?(\[\d+:\d+\]\s*)?(?P<id>[^\s;=\[]+)\s*(?P<mem>\[\d+:\d+\])?\s*(=[^;]*)?;$")
INST1_RE = re.compile(r"^(?P<of>[^\s()#]+) (?P<id>[^\s()#]+)\($")
INST2_RE = re.compile(r"^\) (?P<id>[^\s()]+) \($")
INSTC_RE = re.compile(r"^// Instance (?P<id>.+) of (?P<of>\S+) Module\.$")
DATE_RES = (re.compile(r"^// Date       : .*$", re.M), re.compile(r"^//  Auto-Generated by LiteX on .*$", re.M))


def mask_dates(text):
    for r in DATE_RES:
        text, n = r.subn("// <date>", text)
        if n != 1:
            raise C02MachineryError(f"expected exactly one date line matching {r.pattern!r}, found {n}")
    return text


def parse_declarations(text):
    """-> list of (kind, identifier, line number) for ports, wires/regs, memories (+ helper regs) and instances."""
    lines = text.split("\n")
    decls = []
    try:
        h0 = next(i for i, l in enumerate(lines) if l.startswith("module "))
        h1 = next(i for i in range(h0, len(lines)) if lines[i] == ");")
        end = next(i for i in range(h1, len(lines)) if lines[i] == "endmodule")
    except StopIteration:
        raise C02MachineryError("module header / endmodule not found in the emitted text")
    for i in range(h0 + 1, h1):
        l = lines[i]
        if not l.strip() or l.strip().startswith("(*"):
            continue
        m = PORT_RE.match(l)
        if not m:
            raise C02MachineryError(f"unrecognised line in the port list: {l!r}")
        decls.append(("port", m.group("id"), i + 1))
    n_inst_comments = 0
    for i in range(h1 + 1, end):
        l = lines[i]
        m = DECL_RE.match(l)
        if m:
            decls.append(("memory" if m.group("mem") else m.group(1), m.group("id"), i + 1))
            continue
        if l.startswith(("wire", "reg ")) and not l.startswith(("wire_", "reg_")):
            raise C02MachineryError(f"unrecognised declaration line: {l!r}")
        if INSTC_RE.match(l):
            n_inst_comments += 1
            continue
        m = INST2_RE.match(l) or (INST1_RE.match(l) if not l.startswith(("assign ", "always ", "initial ", "end", "//")) else None)
        if m:
            decls.append(("instance", m.group("id"), i + 1))
    if n_inst_comments != sum(1 for d in decls if d[0] == "instance"):
        raise C02MachineryError(f"{n_inst_comments} instance banners but {sum(1 for d in decls if d[0] == 'instance')} instance headers recognised")
    return decls


def run_child(design, hashseed, pad, ndummy=0, times=1, sweep=0):
    env = dict(os.environ)
    env["PYTHONHASHSEED"] = hashseed
    env["PYTHONDONTWRITEBYTECODE"] = "1"
    verif = os.path.dirname(os.path.dirname(os.path.abspath(__file__)))
    cmd = [sys.executable, "-c", "import fsmc; from checks import c02_designs as d; import sys; d.child_main(sys.argv[1:])", design, str(pad), str(ndummy), str(times), str(sweep)]
    p = subprocess.run(cmd, cwd=verif, env=env, stdout=subprocess.PIPE, stderr=subprocess.PIPE, timeout=CHILD_TIMEOUT + 6 * sweep)
    if p.returncode != 0:
        raise C02MachineryError(f"child for {design!r} exited {p.returncode}: {p.stderr.decode()[-2000:]}")
    doc = json.loads(p.stdout.decode())
    if not doc.get("ok"):
        # an exception raised inside the code under test (last frame outside /verif) for a design that is legal FHDL is the code's fault,
        # not the harness's: reported as a violation by run_design
        frames = re.findall(r'File "([^"]+)", line \d+', doc.get("error") or "")
        if frames and not frames[-1].startswith(verif + os.sep):
            return dict(design=design, ok=False, convert_error=(doc.get("error") or "").strip().split("\n")[-1], last_frame=frames[-1], traceback=doc.get("error"))
        raise C02MachineryError(f"design {design!r} does not elaborate/convert: {doc.get('error')}")
    return doc


def analyse_netlist(doc):
    """Oracle (1)-(3) on one conversion.  -> (violations, cover, sample)"""
    viol = []
    by_obj, by_name, base_of = {}, {}, {}
    for kind, duid, nm, base in doc["calls"]:
        key = f"{kind}#{duid}"
        by_obj.setdefault(key, []).append(nm)
        base_of[key] = base
    for key, nms in by_obj.items():
        if len(set(nms)) > 1:
            viol.append(dict(rule="netlist.stable.changed", msg=f"{key} was called {sorted(set(nms))} in one netlist",
                             detail=dict(object=key, names=sorted(set(nms)))))
        by_name.setdefault(nms[0], []).append(key)
    alias_names = set()
    for nm, keys in sorted(by_name.items()):
        if len(keys) > 1:
            bases = [base_of[k] for k in keys]
            alias = len(set(bases)) == len(bases)
            if alias:
                alias_names.add(nm)
            viol.append(dict(rule="netlist.unique.suffix_alias" if alias else "netlist.unique.collision",
                             msg=f"{len(keys)} different objects {keys} (base names {bases}) are all emitted as {nm!r}",
                             detail=dict(name=nm, objects=keys, base_names=bases)))
    for nm in sorted(by_name):
        if not (isinstance(nm, str) and ID_RE.match(nm)):
            viol.append(dict(rule="netlist.legal.illegal_identifier", msg=f"{by_name[nm]} is emitted as {nm!r}, not a Verilog identifier",
                             detail=dict(name=nm, objects=by_name[nm])))
        elif nm in KEYWORDS_1800_2017:
            viol.append(dict(rule=f"netlist.reserved.{nm}", msg=f"{by_name[nm]} is emitted under the reserved word {nm!r}",
                             detail=dict(name=nm, objects=by_name[nm])))
    decls = parse_declarations(doc["verilog"])
    seen = {}
    for kind, ident, line in decls:
        seen.setdefault(ident, []).append((kind, line))
    for ident, where in sorted(seen.items()):
        if len(where) > 1:
            viol.append(dict(rule="netlist.decl.duplicate" + (".suffix_alias" if ident in alias_names else ""),
                             msg=f"identifier {ident!r} is declared {len(where)} times: " + ", ".join(f"{k} at line {l}" for k, l in where),
                             detail=dict(identifier=ident, declarations=[list(w) for w in where],
                                         lines=[doc["verilog"].split("\n")[l - 1] for k, l in where])))
        if ident not in by_name:      # declared under a name the namespace never handed out: judge it here
            if not ID_RE.match(ident):
                viol.append(dict(rule="netlist.legal.illegal_identifier", msg=f"declared identifier {ident!r} is not a Verilog identifier", detail=dict(name=ident)))
            elif ident in KEYWORDS_1800_2017:
                viol.append(dict(rule=f"netlist.reserved.{ident}", msg=f"declared identifier {ident!r} is a reserved word", detail=dict(name=ident)))
    # cross-check of the declaration parser.  Only names of objects that kept ONE name through the conversion can be expected in the text; when
    # the conversion itself is inconsistent (rules above) the violations are the finding, not a parser problem
    unstable = {nms[0] for nms in by_obj.values() if len(set(nms)) > 1}
    undeclared = sorted(nm for nm in by_name if nm not in seen and nm not in unstable)
    if undeclared and not viol:
        raise C02MachineryError(f"{doc['design']}: names handed out by the namespace but found in no declaration: {undeclared[:8]} "
                                f"(declaration parser incomplete or the design uses undeclared nets)")
    disamb = sum(1 for k, nms in by_obj.items() if base_of[k] is not None and nms[0] != base_of[k])
    kinds = {}
    for kind, ident, line in decls:
        kinds[kind] = kinds.get(kind, 0) + 1
    cover = dict(get_name_calls=len(doc["calls"]), named_objects=len(by_obj), declared=len(decls), declared_by_kind=kinds,
                 suffixed_objects=disamb, lines=doc["verilog"].count("\n"), data_files=len(doc["data_files"]))
    sample = dict(design=doc["design"], first_declarations=[f"{k} {i}" for k, i, l in decls[:12]],
                  suffixed=[f"{base_of[k]} -> {n[0]}" for k, n in by_obj.items() if base_of[k] is not None and n[0] != base_of[k]][:8])
    return viol, cover, sample


def aggregate(viol):
    """One violation per rule and design: the first instance (names are visited in sorted order) + how many there are."""
    first, count = {}, {}
    for v in viol:
        first.setdefault(v["rule"], v)
        count[v["rule"]] = count.get(v["rule"], 0) + 1
    out = []
    for rule, v in first.items():
        if count[rule] > 1:
            v = dict(v, msg=f"{v['msg']}  [{count[rule]} instances of this rule in this netlist; first shown]",
                     detail=dict(v["detail"], instances_in_this_netlist=count[rule]))
        out.append(v)
    return out


def run_design(cfg, seed):
    name, design = cfg[0], cfg[2]
    order = HASHSEEDS[::-1] if seed % 2 else HASHSEEDS
    sweep = DUID_SWEEP["thorough" if TIER[0] == "thorough" else "quick"]
    docs = [run_child(design, hs, pad, 0, 2 if i == 0 else 1, sweep if i == 0 else 0) for i, (hs, pad) in enumerate(order)]
    bad = [d for d in docs if not d.get("ok")]
    if bad:
        v = dict(rule="netlist.convert_raises", msg=f"building / converting this legal design raises inside the code under test ({bad[0]['last_frame']}): {bad[0]['convert_error']}",
                 detail=dict(design=design, traceback=bad[0]["traceback"][-3000:]),
                 trace=[f"top, ios = checks.c02_designs.build({design!r})", "litex.gen.fhdl.verilog.convert(top, ios=ios, name='top')"])
        return dict(cfg=name, exhaustive=True, violations=[v], evaluations=len(docs), distinct=1, sample=None, cover={})
    viol, cover, sample = analyse_netlist(docs[0])
    viol_b, cover_b, _ = analyse_netlist(docs[1])
    # (4) reproducibility: text, data files and the sequence of handed-out names
    ta, tb = mask_dates(docs[0]["verilog"]), mask_dates(docs[1]["verilog"])
    if ta != tb:
        la, lb = ta.split("\n"), tb.split("\n")
        k = next((i for i, (x, y) in enumerate(zip(la, lb)) if x != y), min(len(la), len(lb)))
        viol.append(dict(rule="netlist.repro.text", msg=f"two runs emit different Verilog, first difference at line {k + 1}: "
                         f"{la[k] if k < len(la) else '<eof>'!r} vs {lb[k] if k < len(lb) else '<eof>'!r}",
                         detail=dict(line=k + 1, run_a=la[max(0, k - 2):k + 3], run_b=lb[max(0, k - 2):k + 3],
                                     hashseeds=[o[0] for o in order])))
    elif docs[0]["data_files"] != docs[1]["data_files"]:
        viol.append(dict(rule="netlist.repro.data_files", msg="two runs emit different memory initialisation files",
                         detail=dict(files_a=sorted(docs[0]["data_files"]), files_b=sorted(docs[1]["data_files"]))))
    elif sorted(v["rule"] for v in viol) != sorted(v["rule"] for v in viol_b):
        raise C02MachineryError("identical texts but different verdicts in the two runs")
    # (4b) the same design at another place of the DUID sequence: built a second time in the same process, and built in
    # fresh processes after N dummy Signals (every N of the menu); the text must be the one of the plain run
    def first_diff(tx):
        la, lb = ta.split("\n"), tx.split("\n")
        k = next((i for i, (x, y) in enumerate(zip(la, lb)) if x != y), min(len(la), len(lb)))
        return k, la, lb
    n_conv = 2
    for tx in docs[0]["rebuilds"]:
        n_conv += 1
        tx = mask_dates(tx)
        if tx != ta:
            k, la, lb = first_diff(tx)
            viol.append(dict(rule="netlist.repro.second_build", msg="building and converting the same design a second time in the same process "
                             f"emits different Verilog, first difference at line {k + 1}: {la[k] if k < len(la) else '<eof>'!r} vs {lb[k] if k < len(lb) else '<eof>'!r}",
                             detail=dict(line=k + 1, first_build=la[max(0, k - 2):k + 3], second_build=lb[max(0, k - 2):k + 3])))
    for nd in NETLIST_DUMMIES:
        dn = run_child(design, order[0][0], order[0][1], nd)
        n_conv += 1
        tx = mask_dates(dn["verilog"])
        if tx != ta or dn["data_files"] != docs[0]["data_files"]:
            k, la, lb = first_diff(tx)
            viol.append(dict(rule="netlist.repro.duid_offset", msg=f"creating {nd} unrelated Signal(s) before the design is built changes the emitted "
                             f"Verilog, first difference at line {k + 1}: {la[k] if k < len(la) else '<eof>'!r} vs {lb[k] if k < len(lb) else '<eof>'!r}",
                             detail=dict(dummy_signals=nd, line=k + 1, plain_run=la[max(0, k - 2):k + 3], offset_run=lb[max(0, k - 2):k + 3])))
    # (4c) DUID sweep inside the first process: the design rebuilt with its first DUID at every residue modulo `sweep`
    sw = docs[0]["sweep"]
    if sw["residues"] != sweep:
        raise C02MachineryError(f"DUID sweep covered {sw['residues']} of {sweep} residues")
    n_conv += sweep
    for k, tx in sw["distinct"]:
        tx = mask_dates(tx)
        if tx != ta:
            kk, la, lb = first_diff(tx)
            viol.append(dict(rule="netlist.repro.duid_sweep", msg=f"rebuilding the design in the same process with its DUIDs moved to residue {k} modulo {sweep} "
                             f"changes the emitted Verilog, first difference at line {kk + 1}: {la[kk] if kk < len(la) else '<eof>'!r} vs {lb[kk] if kk < len(lb) else '<eof>'!r}",
                             detail=dict(residue=k, modulo=sweep, line=kk + 1, plain_run=la[max(0, kk - 2):kk + 3], sweep_run=lb[max(0, kk - 2):kk + 3])))
    cover["duid_sweep_residues"] = sweep
    cover["conversions"] = n_conv
    cover["duid_offset_processes"] = len(NETLIST_DUMMIES)
    viol = aggregate(viol)
    for v in viol:
        v["detail"]["design"] = design
        v["trace"] = [f"top, ios = checks.c02_designs.build({design!r})", "litex.gen.fhdl.verilog.convert(top, ios=ios, name='top')"]
    n_decl = cover["declared"]
    if n_decl < 3 or cover["named_objects"] < 3:
        raise C02MachineryError(f"vacuous design: {cover}")
    return dict(cfg=name, exhaustive=True, violations=viol, evaluations=n_conv, distinct=1 if cover["suffixed_objects"] or viol else 0,
                sample=sample, cover=cover)


# ------------------------------------------------------------------------------------------------------------------
# Module API
# ------------------------------------------------------------------------------------------------------------------
def run_config(cfg, seed, tier):
    TIER[0] = tier
    if cfg[1] == "design":
        return run_design(cfg, seed)
    return run_namer(cfg, seed)


def extra_coverage(results):
    tot = {}
    for r in results:
        for k, v in (r.get("cover") or {}).items():
            if isinstance(v, int):
                tot[k] = tot.get(k, 0) + v
    return dict(menus=dict(backtrace_shapes=[[list(e) for e in s] for s in SHAPES[:N_BASE_SHAPES]],
                           backtrace_shapes_extended_thorough_k3=[[list(e) for e in s] for s in SHAPES[N_BASE_SHAPES:]], name_overrides=OVERRIDES,
                           related_reduced_quick=dict(shapes=R_SHAPES_Q, overrides=[OVERRIDES[i] for i in R_OVERRIDES_Q]),
                           related_reduced_k4=dict(shapes=R_SHAPES_4, overrides=[OVERRIDES[i] for i in R_OVERRIDES_4]),
                           keyword_list="IEEE 1800-2017 Annex B, 248 words, typed in checks/c02_names.py"),
                totals=tot)


def replay(rec):
    rule, d = rec["rule"], rec["detail"]
    if rule.startswith("namer."):
        return replay_namer(rule, d)
    design = d["design"]
    r = run_design(("netlist:" + design, "design", design), 0)      # plain + other hash seed + second build + DUID offsets
    hit = [v for v in r["violations"] if v["rule"] == rule]
    return dict(reproduced=bool(hit), design=design, found=[dict(rule=v["rule"], msg=v["msg"]) for v in r["violations"]])
