"""C17 — 8b/10b coding is invertible, DC-balanced and comma-safe (DESIGN.md §4 C17)."""
import collections, itertools
import fsmc  # noqa
from migen import *
from litex.soc.cores import code_8b10b as c8
from litex.soc.interconnect import stream
from fsmc.design import Design, MachineryError, cone_of_influence
from fsmc.explore import Explorer, replay_stock
from checks.streamlib import StreamHarness, QueueModel

PROPERTY = "C17"
LEVEL = "model_checking"
RULE = ("closure of the real Encoder over all 268 symbols x ce from every reachable projected state (feed-forward output registers "
        "checked when written, projection verified by a cone-of-influence walk); code table measured from that run, then every ordered "
        "symbol pair x both disparities for run length / comma; Decoder on all 1024 words; multi-word lanes and stream wrappers vs the table")
ASSUMPTIONS = [
    "2-state zero-delay FHDL semantics of litex.gen.sim",
    "comma-freedom is checked on data-only streams (K.28.x contain the comma by definition)",
    "multi-word encoders: lane symbols from a class set (quick) / all 268 (thorough, nwords=2), compared with the serial single-word encoding",
    "stream wrappers: symbols from a 6-symbol class set, all valid/ready schedules",
]
KS = [c8.K(28, i) for i in range(8)] + [c8.K(23, 7), c8.K(27, 7), c8.K(29, 7), c8.K(30, 7)]
SYMS = [(x, 0) for x in range(256)] + [(x, 1) for x in KS]


def serial(cw, lsb_first):
    """bit string in transmission order (a b c d e i f g h j)"""
    if lsb_first:
        return "".join(str((cw >> i) & 1) for i in range(10))
    return "".join(str((cw >> i) & 1) for i in range(9, -1, -1))


def measure_table(lsb_first, viol, stats):
    """Explore Encoder(1) to closure on the projected state; returns {(sym, rd_in): (codeword, rd_out)}."""
    class W(Module):
        def __init__(self):
            self.submodules.e = c8.Encoder(1, lsb_first)
    w = W()
    D = Design(w)
    fs = D.fs
    e = w.e
    drop = {e.output[0], e.disparity[0]}
    keep = [s for s in D.state_sigs if s not in drop]
    coi = cone_of_influence(D, keep)
    if coi & drop:
        raise MachineryError("projected registers feed back into kept state")
    S = [D.i(s) for s in keep]
    allS = D.S
    names = [s.backtrace[-1][0] if s.backtrace else "?" for s in keep]
    di = names.index("disp_in")
    I = dict(d=D.i(e.d[0]), k=D.i(e.k[0]), ce=D.i(e.ce))
    O = dict(out=D.i(e.output[0]), disp=D.i(e.disparity[0]))
    init = (tuple(fs.reset[i] for i in S), None, (fs.reset[O["out"]], fs.reset[O["disp"]]))
    seen = {init[:2]}
    front = collections.deque([init])
    T = {}
    ntr = nconf = 0
    while front:
        dd, insym, outs = front.popleft()
        for sym in SYMS:
            for ce in (1, 0):
                v = fs.v
                v[:] = fs.reset
                for i, x in zip(S, dd):
                    v[i] = x
                v[O["out"]], v[O["disp"]] = outs
                v[I["d"]], v[I["k"]], v[I["ce"]] = sym[0], sym[1], ce
                fs.settle()
                pre = list(v)
                dfull = tuple(v[i] for i in allS)
                fs.tick()
                ntr += 1
                if ntr % 211 == 0 or ntr < 100:
                    D.conform(dfull, pre, v, ("sys",))
                    nconf += 1
                nd = tuple(v[i] for i in S)
                nouts = (v[O["out"]], v[O["disp"]])
                if not ce:
                    if nd != dd or nouts != outs:
                        viol.setdefault("ce.freeze", dict(rule="ce.freeze", msg=f"registers changed with ce=0 (symbol {sym})", detail=dict(sym=sym)))
                    continue
                if insym is not None:
                    key = (insym, dd[di])
                    if T.setdefault(key, nouts) != nouts:
                        viol.setdefault("code.function", dict(rule="code.function", msg=f"code word of {insym} depends on more than (symbol, running disparity)", detail=dict(sym=insym)))
                ns = (nd, sym)
                if ns not in seen:
                    seen.add(ns)
                    front.append((nd, sym, nouts))
    stats.update(states=len(seen), transitions=ntr, conformed=nconf)
    return T


def check_table(T, lsb_first, viol, stats):
    for (sym, rd), (cw, dout) in T.items():
        ones = bin(cw).count("1")
        r1 = (1 if rd else -1) + 2*ones - 10
        if ones not in (4, 5, 6):
            viol.setdefault("code.popcount", dict(rule="code.popcount", msg=f"{sym} rd={rd}: code word {cw:#012b} has {ones} ones", detail=dict(sym=sym, rd=rd)))
        elif r1 not in (-1, 1) or int(r1 == 1) != dout:
            viol.setdefault("disparity.balance", dict(rule="disparity.balance", msg=f"{sym} rd={rd}: code word {cw:#012b} gives running disparity {r1}, encoder reports {dout}", detail=dict(sym=sym, rd=rd)))
    if len(T) != 2*len(SYMS):
        viol.setdefault("code.coverage", dict(rule="code.coverage", msg=f"only {len(T)} of {2*len(SYMS)} (symbol, disparity) entries reached"))
        return
    maxrun = npairs = 0
    for (s1, rd), (cw1, d1) in T.items():
        b1 = serial(cw1, lsb_first)
        for s2 in SYMS:
            cw2, d2 = T[(s2, d1)]
            st = b1 + serial(cw2, lsb_first)
            npairs += 1
            run = mr = 1
            for a, b in zip(st, st[1:]):
                run = run + 1 if a == b else 1
                if run > mr:
                    mr = run
            if mr > maxrun:
                maxrun = mr
            if mr > 5:
                viol.setdefault("run.length", dict(rule="run.length", msg=f"{s1} rd={rd} then {s2}: run of {mr} equal bits in {st}", detail=dict(s1=s1, s2=s2, rd=rd)))
            if s1[1] == 0 and s2[1] == 0 and ("0011111" in st or "1100000" in st):
                viol.setdefault("comma.data", dict(rule="comma.data", msg=f"data symbols {s1} rd={rd}, {s2}: comma in {st}", detail=dict(s1=s1, s2=s2, rd=rd)))
    stats["pairs"] = npairs
    stats["max_run"] = maxrun


def check_decoder(T, lsb_first, viol, stats):
    class W(Module):
        def __init__(self):
            self.submodules.d = c8.Decoder(lsb_first)
    w = W()
    D = Design(w)
    fs = D.fs
    d = w.d
    I = dict(inp=D.i(d.input), ce=D.i(d.ce))
    O = dict(d=D.i(d.d), k=D.i(d.k), inv=D.i(d.invalid))
    inv = {}
    for (sym, rd), (cw, dout) in T.items():
        inv.setdefault(cw, set()).add(sym)
    for cw, syms in inv.items():
        if len(syms) > 1:
            viol.setdefault("code.injective", dict(rule="code.injective", msg=f"code word {cw:#012b} produced by {sorted(syms)}"))
    def post(pre_state, word):
        v = D.load(pre_state)
        v[I["inp"]], v[I["ce"]] = word, 1
        fs.settle()
        fs.tick()
        st = D.state()
        # outputs are visible in the next cycle whatever the next input is
        v[I["inp"]], v[I["ce"]] = 0x2AA, 0
        fs.settle()
        return st, (v[O["d"]], v[O["k"]], v[O["inv"]])
    reset = D.reset_state()
    pres = [reset, post(reset, 0x3FF)[0], post(reset, 0x0FA)[0]]
    n = 0
    for word in range(1024):
        res = [post(p, word) for p in pres]
        n += 3
        if any(r != res[0] for r in res[1:]):
            viol.setdefault("decode.history", dict(rule="decode.history", msg=f"decoder result for {word:#012b} depends on earlier inputs", detail=dict(word=word)))
        st, (dd, kk, iv) = res[0]
        ones = bin(word).count("1")
        if bool(iv) != (ones not in (4, 5, 6)):
            viol.setdefault("decode.invalid", dict(rule="decode.invalid", msg=f"word {word:#012b} with {ones} ones: invalid={iv}", detail=dict(word=word)))
        if word in inv:
            sym = sorted(inv[word])[0]
            if (dd, kk) != sym:
                viol.setdefault("decode.roundtrip", dict(rule="decode.roundtrip", msg=f"decode(encode({sym})) = {(dd, kk)} (code word {word:#012b})", detail=dict(word=word, sym=sym)))
            if iv:
                viol.setdefault("decode.invalid", dict(rule="decode.invalid", msg=f"encoder output {word:#012b} flagged invalid", detail=dict(word=word)))
        # ce = 0 freezes every register
        v = D.load(st)
        v[I["inp"]], v[I["ce"]] = (~word) & 0x3FF, 0
        fs.settle()
        fs.tick()
        n += 1
        if D.state() != st:
            viol.setdefault("ce.freeze", dict(rule="ce.freeze", msg=f"decoder registers changed with ce=0 after {word:#012b}", detail=dict(word=word)))
    stats["decoder_evaluations"] = n


CLASS = [(0x00, 0), (0xFF, 0), (0x4A, 0), (0xB5, 0), (0xEB, 0), (0xF4, 0), (0x17, 0), (0x3C, 0), (0xE0, 0), (0x1F, 0), (0x7E, 0), (0x81, 0),
         (0xBC, 1), (0x1C, 1), (0xFC, 1), (0xF7, 1), (0xFB, 1), (0xFD, 1), (0xFE, 1), (0x3C, 1), (0xA7, 0), (0x58, 0), (0xD7, 0), (0x28, 0)]


def check_multiword(nwords, lsb_first, lanesyms, T, viol, stats, part=None):
    """every tuple of lane symbols x both entry disparities: the lanes must carry the serial single-word encoding"""
    class W(Module):
        def __init__(self):
            self.submodules.e = c8.Encoder(nwords, lsb_first)
    w = W()
    D = Design(w)
    fs = D.fs
    e = w.e
    Id = [D.i(s) for s in e.d]
    Ik = [D.i(s) for s in e.k]
    ce = D.i(e.ce)
    Oo = [D.i(s) for s in e.output]
    Od = [D.i(s) for s in e.disparity]
    cnt = [0, 0]
    def step(state, syms, cev=1):
        v = D.load(state)
        for i, (dv, kv) in enumerate(syms):
            v[Id[i]], v[Ik[i]] = dv, kv
        v[ce] = cev
        fs.settle()
        cnt[0] += 1
        if cnt[0] % 97 == 1:
            pre = list(v)
            fs.tick()
            D.conform(tuple(state), pre, v, ("sys",))
            cnt[1] += 1
        else:
            fs.tick()
        return D.state(), [(fs.v[o], fs.v[dd]) for o, dd in zip(Oo, Od)]
    # entry states: after reset (running disparity -1) and after a prefix group whose serial encoding (reference table,
    # starting at RD- like the reset state) ends at RD+.  Outputs of a group applied at step t are in the output
    # registers after edge t+1.
    reset = D.reset_state()
    filler = [(0xB5, 0)]*nwords
    entries = {}
    for pre in ([], [[(0xB5, 0)]*(nwords - 1) + [(0x20, 0)]]):
        st, rd = reset, 0
        for grp in pre:
            st, _ = step(st, grp)
            for sym in grp:
                rd = T[(sym, rd)][1]
        entries[rd] = st
    if set(entries) != {0, 1}:
        raise MachineryError(f"prefixes do not give both entry disparities: {sorted(entries)}")
    n = 0
    for k, syms in enumerate(itertools.product(lanesyms, repeat=nwords)):
        if part is not None and k % part[1] != part[0]:
            continue
        for rd, st in entries.items():
            s1, _ = step(st, list(syms))
            # a stalled cycle (ce = 0) showing other symbols on every lane must leave every register of every lane alone
            sf, _ = step(s1, [(0x17, 0), (0xFC, 1), (0xEB, 0), (0x00, 0)][:nwords] if nwords <= 4 else filler, cev=0)
            if sf != s1:
                viol.setdefault("ce.freeze", dict(rule="ce.freeze", msg=f"nwords={nwords}: registers changed with ce=0 after {syms} rd_in={rd}", detail=dict(syms=syms, rd=rd)))
            _, outs = step(s1, filler)
            n += 1
            r = rd
            for lane, sym in enumerate(syms):
                cw, r2 = T[(sym, r)]
                if outs[lane] != (cw, r2):
                    viol.setdefault("lanes.chain", dict(rule="lanes.chain", msg=f"nwords={nwords} lane {lane} of {syms} rd_in={rd}: got {outs[lane]}, serial encoding gives {(cw, r2)}",
                                                        detail=dict(syms=syms, rd=rd)))
                r = r2
    stats["evaluations"] = n
    stats["conformed"] = cnt[1]


class EncModel(QueueModel):
    """stream encoder: code stream of the single-word table, disparity carried across tokens"""
    capacity = 4
    def __init__(self, T, nwords, alphabet):
        self.T, self.nwords, self.alphabet = T, nwords, alphabet
    def init(self):
        return (0, ())
    def absorb(self, rd, tok):
        raw, first, last, praw = tok[:4]
        out = 0
        for i in range(self.nwords):
            d = (raw >> (8*i)) & 0xFF
            k = (raw >> (8*self.nwords + i)) & 1
            cw, rd = self.T[((d, k), rd)]
            out |= cw << (10*i)
        return rd, [(out, (1 << (10*self.nwords)) - 1, first, last, None)]


class DecModel(QueueModel):
    capacity = 3
    def __init__(self, inv, nwords):
        self.inv, self.nwords = inv, nwords
    def absorb(self, acc, tok):
        raw, first, last, praw = tok[:4]
        d = k = 0
        for i in range(self.nwords):
            sym = self.inv[(raw >> (10*i)) & 0x3FF]
            d |= sym[0] << (8*i)
            k |= sym[1] << i
        return acc, [(d | (k << (8*self.nwords)), (1 << (9*self.nwords)) - 1, first, last, None)]


_TAB = {}


def table(lsb_first):
    if lsb_first not in _TAB:
        viol, stats = {}, {}
        _TAB[lsb_first] = (measure_table(lsb_first, viol, stats), viol, stats)
    return _TAB[lsb_first]


STREAMSYMS = [(0x00, 0), (0x4A, 0), (0xEB, 0), (0xBC, 1), (0xF7, 1), (0xB5, 0)]


def stream_harness(name):
    T = table(True)[0]
    if name.startswith("StreamEncoder"):
        nwords = int(name.split("nwords=")[1][0])
        gaps = "+idle_symbols" in name
        if nwords == 1:
            alpha = [d | (k << 8) for d, k in STREAMSYMS]
        else:
            lane = [STREAMSYMS[1], STREAMSYMS[3], STREAMSYMS[2]] if "/3sym" in name else STREAMSYMS[:4]
            alpha = [d0 | (d1 << 8) | (k0 << 16) | (k1 << 17) for (d0, k0), (d1, k1) in itertools.product(lane, repeat=2)]
        return StreamHarness(name, lambda: c8.StreamEncoder(nwords), lambda H: EncModel(T, nwords, alpha), mode="free", alphabet=alpha,
                             M=len(alpha), maxpkt=2, nparam=1, idle_garbage=True,
                             idle_values=[0x20, 0x0FC | (1 << 8)] if gaps else None)
    nwords = int(name.split("nwords=")[1][0])
    inv = {cw: sym for (sym, rd), (cw, dout) in T.items()}
    words = sorted({T[(s, rd)][0] for s in STREAMSYMS for rd in (0, 1)})
    if nwords == 1:
        alpha = words
    else:
        alpha = [a | (b << 10) for a in words[:4] for b in words[4:8]]
    return StreamHarness(name, lambda: c8.StreamDecoder(nwords), lambda H: DecModel(inv, nwords), mode="free", alphabet=alpha,
                         M=len(alpha), maxpkt=2, nparam=1, idle_garbage=False)


def configs(tier):
    c = [("roundtrip(lsb_first=False)",), ("roundtrip(lsb_first=True)",)]
    if tier == "quick":
        c += [("multiword(nwords=2,lsb_first=False)/class24", 0, 1), ("multiword(nwords=4,lsb_first=True)/class6", 0, 1),
              ("multiword(nwords=2,lsb_first=True)/class24", 0, 1), ("multiword(nwords=4,lsb_first=False)/class6", 0, 1),
              ("multiword(nwords=3,lsb_first=False)/class8", 0, 1)]
    else:
        c += [(f"multiword(nwords=2,lsb_first=False)/all268/part{p}of8", p, 8) for p in range(8)]
        c += [(f"multiword(nwords=2,lsb_first=True)/class24", 0, 1), ("multiword(nwords=4,lsb_first=True)/class6", 0, 1),
              ("multiword(nwords=4,lsb_first=False)/class8", 0, 1)]
    c += [("StreamEncoder(nwords=1)",), ("StreamDecoder(nwords=1)",), ("StreamEncoder(nwords=1)+idle_symbols",)]
    # the multi-word wrappers (per-lane control flags, lane slices) with a data / control / unbalanced symbol in every lane
    c += [("StreamEncoder(nwords=2)/3sym",), ("StreamDecoder(nwords=2)",)]
    if tier == "thorough":
        c += [("StreamEncoder(nwords=2)",)]
    return c


def tuple_deep(x):
    return tuple(tuple_deep(y) for y in x) if isinstance(x, (list, tuple)) else x


def run_config(cfg, seed, tier):
    name = cfg[0]
    if name.startswith("Stream"):
        mk = lambda: stream_harness(name)
        res = Explorer(mk(), seed=seed).run()
        out = res.as_dict()
        for v in out["violations"]:
            rp = replay_stock(mk, [tuple_deep(c) for c in v["trace"]], [tuple_deep(c) for c in v["cycle"]] if v.get("cycle") else None,
                              [q for q in mk().live_queries if q[0] == v["rule"]][0] if v.get("cycle") else None)
            v["replayed"] = dict(reproduced=rp["reproduced"], path=rp["path"])
            if not rp["reproduced"]:
                raise MachineryError(f"{name}: {v['rule']} does not reproduce on the stock simulator")
        return out
    lsb = "lsb_first=True" in name
    T, tviol, tstats = table(lsb)
    viol, stats = dict(tviol), dict(tstats)
    if name.startswith("roundtrip"):
        check_table(T, lsb, viol, stats)
        check_decoder(T, lsb, viol, stats)
        return dict(cfg=name, states=stats["states"], transitions=stats["transitions"] + stats.get("decoder_evaluations", 0), conformed=stats["conformed"],
                    exhaustive=True, violations=list(viol.values()), cover=stats,
                    sample=[dict(symbol=list(s), rd_in=rd, codeword=f"{cw:010b}", rd_out=do) for (s, rd), (cw, do) in list(T.items())[:4]])
    nwords = int(name.split("nwords=")[1][0])
    if "all268" in name:
        lanes = SYMS
    else:
        lanes = CLASS[:int(name.split("class")[1])]
    mstats = {}
    mviol = {}
    check_multiword(nwords, lsb, lanes, T, mviol, mstats, part=(cfg[1], cfg[2]))
    return dict(cfg=name, states=mstats["evaluations"], transitions=3*mstats["evaluations"], conformed=mstats["conformed"], exhaustive=True,
                violations=list(mviol.values()), cover=mstats, sample=[dict(lanes=[list(s) for s in lanes[:nwords]])])


def replay(rec):
    """re-evaluate one recorded violation directly (table / decoder / lanes rules re-run their enumeration and look for the rule)"""
    r = run_config((rec["cfg"], 0, 1), 0, "thorough")
    hit = [v for v in r["violations"] if v["rule"] == rec["rule"]]
    return dict(cfg=rec["cfg"], rule=rec["rule"], reproduced=bool(hit), msg=hit[0]["msg"] if hit else None)
