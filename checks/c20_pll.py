"""C20 — computed PLL / clock configurations meet the request and the device limits.

For every clocking helper that elaborates without a vendor platform, and every speed grade / device variant, a grid
of requests (input frequency x 1..max outputs x margins x phases; a plain Cartesian product, no sampling) is put to the
REAL helper (register_clkin / create_clkout / do_finalize, which calls compute_config).  Two oracles:

 (i)  soundness   - a returned configuration is decoded to (input divider, multiplier, output dividers); every output
                    recomputed from those is within its margin, every divider / multiplier / PFD / VCO lies in the
                    range the class declares (with its vco_margin), the configuration's own vco/freq entries agree
                    with the dividers, and after do_finalize() the parameters and clock ports of the emitted primitive
                    equal the configuration.
 (ii) completeness- a refusal (any exception) of a request inside the declared input/output ranges is an error when
                    the independent interval-intersection search of c20_ref.py finds a setting inside the same
                    declared ranges.

Exact rationals with the relative guard band eps = 1e-9 of DESIGN 4b (widened for (i), narrowed for (ii)).

The Efinix helpers (TRIONPLL / TITANIUMPLL) run on a stub of the vendor platform object and have their own reference
(different PLL structure: pre-divider, multiplier, post-divider, feedback through one output divider): c20_efinix.py."""
import fsmc  # noqa: F401
import itertools, json, time, re
from fractions import Fraction as Fr

from fsmc.design import MachineryError
from checks.c20_ref import fr, search, verify, WIDE, NARROW, _s
from checks import c20_families as F
from checks.c20_families import Req
from checks import c20_efinix as FE

PROPERTY = "C20"
LEVEL = "exploration"
RULE = ("one configuration per (helper class, speed grade / device / variant); inside it the plain Cartesian product of: "
        "input-frequency grid (typical clocks inside the declared range, both range ends, two points 0.1 % outside) x "
        "output-frequency grid^n (n = 1, 2, 3 and max outputs in quick, n = 1..max in thorough; the grid for n = 1 has the "
        "range ends, extreme achievable outputs, awkward and round values, smaller sub-grids for n >= 2) x margin tuples "
        "over {0, 1e-4, 1e-2} (all pairs for n = 2 in thorough, uniform and mixed tuples otherwise) x phase pattern "
        "{0, 90}; input frequencies above a per-family cut get single-output requests only (a refused request costs the "
        "helper a full scan); TRIONPLL additionally x which output is the feedback (every index, phases from its "
        "per-phase divider table).  Every request goes through the real register_clkin / create_clkout / do_finalize -> "
        "compute_config.  evaluations = requests run.  A request is distinct by (class, variant, fin, ((f, phase, "
        "margin)...), flags) (duplicates are dropped before running) and non-trivial when it returned a configuration "
        "(then fully re-verified: recomputed frequencies, ranges, emitted instance) or was refused by compute_config "
        "after its search (then decided by the independent reference search); requests turned away by a range assert "
        "before any search, or crashing, are run and judged but not counted as distinct")
ASSUMPTIONS = [
    "frequencies are real numbers: only the listed grid is decided (DESIGN C20 'Limit'); grids include both ends of each declared input/output range, points 0.1 % outside them, the extreme achievable outputs vco_max/min_div and vco_min/max_div, vco_max/2, and awkward ratios (24.576 MHz, 74.25 MHz, 33.333 MHz)",
    "declared ranges are read from each instance's attributes after construction (divclk_divide_range, clkfbout_mult_frange, clkout_divide_range, clkoutN_divide_range, vco_freq_range, vco_margin, n/m/c_div_range, clkin_pfd_freq_range, clki/clkfb/clko_div_range, pfd_freq_range, divr/divf/divq_range, vco_in/vco_out_freq_range); Python range()/clkdiv_range() semantics (half-open)",
    "XilinxClocking multipliers are the INTEGERS of clkfbout_mult_frange (compute_config iterates range()), although MMCMs support fractional multipliers: not demanded",
    "USPMMCM, GW1NPLL/GW2APLL and GW5APLL write their lattices as literals inside compute_config (USPMMCM: multiplier and CLKOUT0 divider 2.0..128.0 step 0.125, CLKOUT0 without divide-by-1; GW1N: idiv,fdiv 1..63, odiv in {2,4,8,16,32,48,64,80,96,112,128}, CLKOUTD even 2..128; GW5A: idiv,fdiv 1..63, mdiv 2..127, ODIV 1..128 from do_finalize's comments): the reference mirrors those documented values",
    "margin semantics everywhere: |f_actual - f_requested| <= f_requested * margin",
    "comparisons: exact rationals, guard band eps=1e-9 relative; a returned configuration must be inside margin/ranges widened by eps; a refusal is blamed only for a solution inside margin/ranges narrowed by eps, or lying exactly on a bound / exactly on the requested frequency (margin 0) when every intermediate value of the helper's float computation is exactly representable as a double",
    "a refusal is any exception from register_clkin/create_clkout/do_finalize; the completeness oracle applies to requests inside the declared clkin/clko frequency ranges only (the property's quantifier); helpers that declare but never enforce clkin_freq_range/clko_freq_range (Xilinx, Intel) are not blamed for accepting a request outside them (counted in cover.outside_accepted), its configuration is still verified",
    "completeness restricted where the helper's search is incomplete by design: GW1NPLL/GW2APLL choose the VCO for the highest output only and derive the others by integer division, so only requests whose outputs are exact legal ratios (1, 3, even 2..128; one per port) of the highest one with equal margins are decided; GW5APLL ties phase granularity to the frequency margin, so only phase-0 requests are decided; ECP5PLL's 'first divider in range per output' strategy is NOT exempted (the reference accepts any divider in the margin interval as feedback)",
    "NXPLL's analog loop-filter fit (calculate_analog_parameters, 0.3 s per call, not part of the property) is stubbed on the instance except for one request per input frequency",
    "ECP5PLL variant 'dpa': expose_dpa() and uses_dpa=True on every output but the first (as test_clock does); Xilinx/Intel variant 'vco_margin=x': the public attribute set after construction",
    "oscillators with a programmable divider are included as single-stage models (NXOSCA: 450 MHz/(div+1) for HFCLKOUT and HFSDCOUT; GW1NOSC: 250 MHz, 210 MHz on GW1N-4, divided by FREQ_DIV in range(*osc_div_range); GW1NOSC has no configuration object separate from the emitted instance)",
    "GateMatePLL computes no dividers (REF_CLK/OUT_CLK go to the primitive in MHz, the vendor tool derives the rest): modelled as base frequency = lowest request, ports CLK0/CLK90 = base, CLK180/CLK270 = base or 2*base (doubler), margin 0; legal requests use each phase/port once",
    "TRIONPLL/TITANIUMPLL (checks/c20_efinix.py): the platform object is the repository's EfinixPlatform with only its constructor replaced (tool discovery and the pin data base need an Efinity installation; every method the helpers call is the real one, the interface writer is the real InterfaceWriter), clock input internal (CORE), output 0 on a ClockDomain and the others bare PLL outputs; the 'emitted primitive' is the Efinity interface script of InterfaceWriter.generate_pll (M, N, O, CLKOUTi_DIV, CLKOUTi_PHASE, FEEDBACK_CLK/MODE, REFCLK_FREQ, pin names)",
    "TRIONPLL relations as quoted in compute_config's comments (Trion data sheet): fPFD = fin/N, fVCO = fPFD*M*O*Cfbk, fPLL = fVCO/O, fout_i = fPLL/C_i, Cfbk = divider of the is_feedback output; N 1..15, M 1..255, O in {1,2,4,8}, C 1..256, M*O*Cfbk <= 255 (literals of the source); PFD/VCO/PLL windows and the per-phase divider menus are the class's own get_pfd/vco/pll_freq_range / get_c_range tables (they ignore the device argument: both Trion devices see the same limits); completeness mirrors the source's literal 'O in {2,4,8} when more than one output is declared' (a returned configuration may use any O of {1,2,4,8}); a phase outside the class's table has an empty divider menu (the helper raises KeyError: a refusal)",
    "Efinix refusals: AssertionError from `assert len(final_list) != 0` is the helper's 'no configuration'; any other exception (ZeroDivisionError when no (O, Cfbk) pair fits the requested feedback frequency, KeyError for an unknown phase) and quit()/SystemExit count as a refusal too and are blamed only when the reference finds a setting (rule complete.crash.<type>); completeness rules carry the suffix .margin when the only settings are inexact ones inside the requested margins (compute_config compares frequencies for equality and never reads the margins) and .passthrough for a refused request that LiteX does not compute at all",
    "not covered: divider computation for TITANIUMPLL (version V3) and for TRIONPLL without an is_feedback output - LiteX computes none (do_finalize returns, the vendor tool's auto_calc_pll_clock does it when the interface script runs); for those requests only 'nothing is invented and the script carries the request unchanged' is checked (rules pass.*); external (pin) clock inputs, LVDS inputs and dynamic phase shift pads of the Efinix helpers (need the Efinity pin data base)",
    "tracer shim (names only)",
]
MAXTASKS = 4
MAX_PER_RULE = 2          # violations kept per (configuration, rule); the total is in detail.count


# ---------------------------------------------------------------------------------------------------------------------
def families():
    from litex.soc.cores.clock.xilinx_s6 import S6PLL, S6DCM
    from litex.soc.cores.clock.xilinx_s7 import S7PLL, S7MMCM
    from litex.soc.cores.clock.xilinx_us import USPLL, USMMCM
    from litex.soc.cores.clock.xilinx_usp import USPPLL, USPMMCM
    from litex.soc.cores.clock.intel_cyclone4 import CycloneIVPLL
    from litex.soc.cores.clock.intel_cyclone5 import CycloneVPLL
    from litex.soc.cores.clock.intel_cyclone10 import Cyclone10LPPLL
    from litex.soc.cores.clock.intel_max10 import Max10PLL
    from litex.soc.cores.clock.intel_stratix5 import StratixVPLL
    from litex.soc.cores.clock.lattice_ecp5 import ECP5PLL
    from litex.soc.cores.clock.lattice_ice40 import iCE40PLL
    from litex.soc.cores.clock.lattice_nx import NXPLL
    from litex.soc.cores.clock.lattice_nx import NXOSCA
    from litex.soc.cores.clock.gowin_gw1n import GW1NPLL, GW1NOSC
    from litex.soc.cores.clock.gowin_gw2a import GW2APLL
    from litex.soc.cores.clock.gowin_gw5a import GW5APLL
    from litex.soc.cores.clock.colognechip import GateMatePLL
    from litex.soc.cores.clock.efinix import TRIONPLL, TITANIUMPLL
    fams = [F.Xilinx(S6PLL), F.Xilinx(S6DCM), F.Xilinx(S7PLL, vco_margin=0.1), F.Xilinx(S7MMCM), F.Xilinx(USPLL),
            F.Xilinx(USMMCM), F.Xilinx(USPPLL), F.XilinxUSPMMCM(USPMMCM),
            F.Intel(CycloneIVPLL, vco_margin=0.1), F.Intel(CycloneVPLL), F.Intel(Cyclone10LPPLL), F.Intel(Max10PLL),
            F.Intel(StratixVPLL),
            F.ECP5(ECP5PLL), F.ICE40(iCE40PLL), F.NX(NXPLL), F.Gowin1(GW1NPLL), F.Gowin1(GW2APLL), F.Gowin5(GW5APLL),
            F.NXOsc(NXOSCA), F.GowinOsc(GW1NOSC), F.GateMate(GateMatePLL), FE.Efinix(TRIONPLL), FE.Efinix(TITANIUMPLL)]
    return {f.name: f for f in fams}


def configs(tier):
    out = []
    for fam in families().values():
        for i, (vname, vkw) in enumerate(fam.variants()):
            out.append(("%s[%s]" % (fam.name, vname), fam.name, i))
    return out


# ---------------------------------------------------------------------------------------------------------------------
# grids
# typical board / transceiver reference clocks, most common first: a grid takes the first n_in inside the declared range
IN_TYPICAL = [100e6, 25e6, 50e6, 125e6, 12e6, 200e6, 27e6, 48e6, 74.25e6, 156.25e6, 400e6, 16e6, 33.333e6, 250e6, 10e6,
              322.265625e6, 622.08e6, 19.2e6, 8e6, 500e6, 800e6]
# most common first: the small sub-grids used for 2, 3 and more outputs take the first k inside the reachable span
OUT_TYPICAL = [100e6, 50e6, 200e6, 25e6, 125e6, 400e6, 75e6, 12e6, 150e6, 48e6, 300e6, 10e6, 250e6, 16e6, 40e6, 600e6, 800e6,
               500e6, 5e6]
OUT_ROUND = [5e6, 10e6, 12e6, 16e6, 25e6, 40e6, 48e6, 50e6, 75e6, 100e6, 125e6, 150e6, 200e6, 250e6, 300e6, 400e6, 500e6,
             600e6, 800e6]
OUT_AWKWARD = [24.576e6, 74.25e6, 33.333e6, 148.5e6, 11.2896e6, 133.333e6]
MARGINS = [0, 1e-4, 1e-2]


def spread(vals, k):
    """k values of the sorted list, evenly by index, always with both ends"""
    vals = sorted(set(vals))
    if k >= len(vals):
        return vals
    if k <= 1:
        return [vals[len(vals) // 2]]
    return sorted(set(vals[round(i * (len(vals) - 1) / (k - 1))] for i in range(k)))


def uniq(xs):
    seen, out = set(), []
    for x in xs:
        if x not in seen:
            seen.add(x)
            out.append(x)
    return out


# Grid sizes.  n_in: typical inputs strictly inside the declared range (both ends and the two points 0.1 % outside are
# always added); n1/n2/n3/nm: output grid sizes for 1, 2, 3 and >= 4 outputs (nm=0: none); cut1: inputs above it are
# "light" (single output requests on a 6-point output grid with margin 1e-2 only); cut2 / cut3: 2-output / >=3-output requests are
# only put at inputs <= cut.  The cuts exist because a REFUSED request costs the helper a complete scan whose length
# grows with the input frequency (S7PLL 0.2-0.4 s, ECP5 0.25 s, USPMMCM 0.7 s, Intel 0.4-5 s at the top of the range).
BASE = dict(quick=dict(n_in=2, n1=7, n2=4, n3=3, nm=2, cut1=None, cut2=450e6, cut3=260e6, m2="few", m3="few", mm=(1e-2,)),
            thorough=dict(n_in=8, n1=16, n2=6, n3=4, nm=2, cut1=None, cut2=None, cut3=450e6, m2="all", m3="all", mm=(1e-2, 1e-4)))
SPEC = {
    "S6DCM":    dict(quick=dict(n_in=4, n1=12), thorough=dict(n_in=12, n1=19)),
    "iCE40PLL": dict(quick=dict(n_in=6, n1=12), thorough=dict(n_in=14, n1=19)),
    # fractional CLKOUT0: every refused (D, M) pair costs 1016 more divider tests
    "S7MMCM":   dict(quick=dict(n2=3, n3=2, cut1=450e6, cut2=260e6, cut3=130e6), thorough=dict(n2=6, cut3=260e6)),
    "USPMMCM":  dict(quick=dict(n_in=1, n1=3, n2=4, n3=2, nm=1, cut1=130e6, m2="three", m3="two"),
                     thorough=dict(n_in=4, n1=8, n2=4, n3=3, nm=2, cut1=260e6, cut3=130e6, m2="few", m3="few", mm=(1e-2,))),
    "ECP5PLL":  dict(quick=dict(), thorough=dict(n_in=6, n2=6)),
    "NXPLL":    dict(quick=dict(n3=2), thorough=dict(n_in=6, n2=6, n3=3)),
    "GW5APLL":  dict(quick=dict(n3=2, cut1=260e6), thorough=dict(n_in=6, n2=6, n3=3, cut1=260e6)),
}
# IntelClocking.compute_config never exits early (it ranks every valid (N, M)): 0.05-0.25 s per request up to 100 MHz,
# 0.4 s (Cyclone) to 5 s (Stratix V, 800 MHz) at the top of the input range.
INTEL = dict(quick=dict(n_in=2, n1=5, n2=3, n3=2, nm=0, cut1=130e6, m2="three", m3="two"),
             thorough=dict(n_in=3, n1=10, n2=4, n3=3, nm=2, cut1=130e6, cut3=130e6, m2="few", m3="few", mm=(1e-2,)))


class Grid:
    def __init__(self, fam, pll, tier):
        self.fam, self.tier = fam, tier
        z = dict(BASE[tier])
        z.update((INTEL if isinstance(fam, F.Intel) else SPEC.get(fam.name, {})).get(tier, {}))
        self.z = z
        probe = fam.model(pll, Req(100e6, [(100e6, 0, 0)]))
        dv = probe.outs[0].divs
        self.reach = (float(probe.src_rng[0] / dv.hi()), float(probe.src_rng[1] / dv.lo()))     # achievable output span
        in_rng = self.input_range(pll)
        out_rng = self.output_range(pll)
        lo_o = max(self.reach[0], out_rng[0]) if out_rng else self.reach[0]
        hi_o = min(self.reach[1], out_rng[1]) if out_rng else self.reach[1]
        hi_o = min(hi_o, 2.4e9)                        # S6DCM declares no real VCO ceiling (1e16)
        typ_in = ([50e6, 25e6] + IN_TYPICAL) if isinstance(fam, F.Intel) else IN_TYPICAL  # Intel boards: 50 MHz first
        core_in = uniq([f for f in typ_in if in_rng[0] < f < in_rng[1]])[:z["n_in"]]
        self.inputs = uniq([in_rng[0] * (1 - 1e-3), in_rng[0]] + sorted(core_in) + [in_rng[1], in_rng[1] * (1 + 1e-3)])
        cand = [f for f in OUT_ROUND if lo_o < f < hi_o]
        awk = [f for f in OUT_AWKWARD if lo_o < f < hi_o]
        typ = [f for f in OUT_TYPICAL if lo_o < f < hi_o]
        vmax = float(probe.src_rng[1])
        ends = [lo_o * (1 - 1e-3), lo_o, hi_o, hi_o * (1 + 1e-3)] + [x for x in (vmax / 2, vmax / 3) if lo_o < x < hi_o]
        self.out1 = uniq(ends + awk[:max(1, z["n1"] // 5)] + spread(cand, z["n1"]))
        self.out2 = uniq(awk[:1] + typ[:z["n2"] - 2] + [hi_o])
        self.out3 = uniq(awk[:1] + typ[:z["n3"] - 1])
        self.outm = uniq(typ[:z["nm"]])
        self.outl = uniq(awk[:1] + typ[:2] + [f for f in (10e6, 12e6) if lo_o < f < hi_o] + [hi_o])
        self.nmax = min(pll.nclkouts_max, 5 if isinstance(fam, F.Intel) else 7)

    def input_range(self, pll):
        for a in ("clkin_freq_range", "clki_freq_range"):
            if getattr(pll, a, None) is not None:
                lo, hi = getattr(pll, a)
                return (lo, min(hi, 1.2e9))            # iCE40 declares 133e9: the grid stops at 1.2 GHz
        return (3e6, 400e6)                            # Gowin: no declared input range; its PFD window

    def output_range(self, pll):
        r = getattr(pll, "clko_freq_range", None)
        if r is None:
            return None
        return (max(r[0], 1e3), min(r[1], 1.2e9))

    def margin_tuples(self, n):
        if n == 1:
            return [(m,) for m in MARGINS]
        if n == 2:
            return {"all": list(itertools.product(MARGINS, repeat=2)),
                    "few": [(0, 0), (1e-4, 1e-4), (1e-2, 1e-2), (1e-2, 0), (0, 1e-2)],
                    "three": [(1e-2, 1e-2), (1e-2, 0), (0, 1e-2)]}[self.z["m2"]]
        if n == 3:
            return {"all": [(1e-2, 1e-2, 1e-2), (1e-4, 1e-4, 1e-4), (1e-2, 1e-4, 0), (0, 0, 0), (0, 1e-4, 1e-2)],
                    "few": [(1e-2, 1e-2, 1e-2), (1e-4, 1e-4, 1e-4), (1e-2, 1e-4, 0)],
                    "two": [(1e-2, 1e-2, 1e-2), (1e-2, 1e-4, 0)]}[self.z["m3"]]
        return [tuple([m] * n) for m in self.z["mm"]]

    def phase_tuples(self, n):
        if not self.fam.has_phase:
            return [tuple([0] * n)]
        # Xilinx primitives take the phase as a real number: one fractional phase (the emitted parameter must carry it unchanged)
        frac = type(self.fam).__name__ == "Xilinx"
        if n == 1:
            return [(0,), (90,)] + ([(22.5,)] if frac else [])
        return [tuple([0] * (n - 1) + [90])] + ([tuple([0] * (n - 1) + [-112.5])] if frac and n == 2 else [])

    def counts(self):
        ns = [1, 2, 3] + ([self.nmax] if (self.nmax > 3 and self.z["nm"]) else [])
        if self.tier == "thorough":
            ns = list(range(1, self.nmax + 1))
        return [n for n in ns if n <= self.nmax and (n <= 3 or self.z["nm"])]

    def out_grid(self, n):
        return {1: self.out1, 2: self.out2, 3: self.out3}.get(n, self.outm)

    def requests(self):
        z = self.z
        for fin in self.inputs:
            first = True
            if z["cut1"] is not None and fin > z["cut1"]:
                for f in self.outl:
                    yield Req(fin, [(f, 0, 1e-2)])
                continue
            for n in self.counts():
                if n >= 3 and z["cut3"] is not None and fin > z["cut3"]:
                    continue
                if n == 2 and z["cut2"] is not None and fin > z["cut2"]:
                    continue
                for fs in itertools.product(self.out_grid(n), repeat=n):
                    for ms in self.margin_tuples(n):
                        for ps in self.phase_tuples(n):
                            flags = ("analog",) if (first and self.fam.name == "NXPLL") else ()
                            first = False
                            yield Req(fin, list(zip(fs, ps, ms)), flags)
        for fin, outs in EXTRA_REQUESTS.get(self.fam.name, ()):
            yield Req(fin, list(outs))


# single requests kept in every tier because a defect was found (and repaired) at exactly this point
EXTRA_REQUESTS = {
    # FX-C20-9: nearest output divider 129 > 128 while the boundary divider 128 is inside the margin
    "GW5APLL": [(12e6, [(6.25e6, 0, 1e-2)]), (12e6, [(6.25e6, 0, 0)])],
    # outputs with DIFFERENT margins whose ratio to the input is not exact: the derived (divided) output must be judged by its own margin,
    # stricter (refusal expected) or looser (a setting exists) than the margin of the fastest output
    "GW1NPLL": [(100e6, [(13.5e6, 0, 1e-4), (27e6, 0, 1e-2)]), (27e6, [(100e6, 0, 1e-2), (50e6, 0, 1e-4)]), (27e6, [(54e6, 0, 1e-4), (17.9e6, 0, 1e-2)]),
                (27e6, [(100e6, 0, 1e-4), (50e6, 0, 1e-2)])],
    "GW2APLL": [(100e6, [(13.5e6, 0, 1e-4), (27e6, 0, 1e-2)]), (27e6, [(100e6, 0, 1e-2), (50e6, 0, 1e-4)]), (27e6, [(54e6, 0, 1e-4), (17.9e6, 0, 1e-2)])],
}


class GowinGrid(Grid):
    """GW1NPLL/GW2APLL: structured requests (outputs that are legal exact ratios of the highest one, in every order),
    plus a small unstructured Cartesian block that only the soundness oracle judges"""
    PRIM = dict(quick=[24e6, 48e6, 120e6], thorough=[12e6, 24e6, 48e6, 96e6, 120e6, 240e6, 25e6, 27e6, 400e6])

    def requests(self):
        prim = self.PRIM[self.tier]
        ins = [f for f in self.inputs if f <= 200e6][:(4 if self.tier == "quick" else 8)]
        quick = self.tier == "quick"
        for fin in ins:
            for P in prim:
                for m in MARGINS:
                    for p in (0, 90):
                        yield Req(fin, [(P, p, m)])
                for k in ((1, 2, 3, 4, 5, 256) if quick else (1, 2, 3, 4, 6, 8, 5, 130, 256)):
                    for ph in ((0, 0), (0, 90), (90, 0), (90, 90)):
                        for ms in (((1e-2, 1e-2), (0, 0), (1e-2, 1e-4)) if quick else ((1e-2, 1e-2), (1e-4, 1e-4), (0, 0), (1e-2, 1e-4))):
                            yield Req(fin, [(P, ph[0], ms[0]), (P / k, ph[1], ms[1])])
                            yield Req(fin, [(P / k, ph[1], ms[1]), (P, ph[0], ms[0])])
                for ks in ((1, 3, 2), (3, 1, 4), (2, 3, 1), (1, 1, 3), (1, 3, 3), (1, 2, 4)):
                    for m in (1e-2, 1e-4):
                        yield Req(fin, [(P / k, 0, m) for k in ks])
                        yield Req(fin, [(P / k, 90 if (i == 1) else 0, m) for i, k in enumerate(ks)])
                for ks in ((1, 1, 3, 2), (2, 3, 1, 1), (1, 3, 2, 4)):
                    yield Req(fin, [(P / k, 90 if (i == ks.index(1)) else 0, 1e-2) for i, k in enumerate(ks)])
            for fs in itertools.product(self.out3 + [27e6], repeat=2):
                for ms in ((1e-2, 1e-2), (1e-4, 1e-4), (1e-2, 1e-4), (1e-4, 1e-2)):       # equal and different margins on inexact ratios
                    yield Req(fin, [(fs[0], 0, ms[0]), (fs[1], 0, ms[1])])
        for fin, outs in EXTRA_REQUESTS.get(self.fam.name, ()):
            yield Req(fin, list(outs))


class OscGrid:
    """oscillators: output frequencies around source/div for small, middle and the extreme dividers, awkward values, the
    declared ends; NXOSCA: HF only, SDC only, and both outputs (Cartesian)"""
    def __init__(self, fam, pll, tier):
        self.fam, self.tier = fam, tier
        src = pll.clk_hf_freq if fam.name == "NXOSCA" else 250e6
        self.src = src
        dmax = 255 if fam.name == "NXOSCA" else 127
        pts = [src, src * 1.001, src / 2, src / 3, src / 7, src / 10, src / 100, src / dmax, src / dmax * 0.999, src / (dmax + 1),
               src / 2.5, 24.576e6, 10e6, 2e6, 1e6, 48e6, 100e6, 33.333e6]
        if tier == "thorough":
            pts += [src / d for d in range(4, dmax, 9)] + [src / (d + 0.5) for d in range(2, 40, 3)] + [210e6, 105e6, 5e6, 3e6]
        self.out1 = uniq(pts)
        self.out2 = uniq([src / 2, src / 10, 24.576e6, src / 2.5] + ([src / 100, 100e6, 1e6] if tier == "thorough" else []))
        self.inputs, self.out3, self.outm = [src], [], []
        self.margins = [0, 1e-4, 1e-2, 5e-2]

    def counts(self):
        return [1, 2] if self.fam.name == "NXOSCA" else [1]

    def requests(self):
        kinds = (("hf",), ("sdc",)) if self.fam.name == "NXOSCA" else ((),)
        for kind in kinds:
            for f in self.out1:
                for m in self.margins:
                    yield Req(self.src, [(f, 0, m)], kind)
        if self.fam.name == "NXOSCA":
            for f0, f1 in itertools.product(self.out2, repeat=2):
                for m0, m1 in ((1e-2, 1e-2), (5e-2, 1e-4), (0, 5e-2)):
                    yield Req(self.src, [(f0, 0, m0), (f1, 0, m1)], ("hf", "sdc"))


class GateMateGrid:
    """GateMatePLL: every non-empty set of the four ports (phases) x output frequencies (Cartesian), three inputs"""
    def __init__(self, fam, pll, tier):
        self.tier = tier
        self.inputs = [10e6, 25e6] + ([100e6] if tier == "thorough" else [])
        top = pll._max_freq
        self.out1 = uniq([25e6, 50e6, 100e6, 24.576e6, 125e6, top / 2, top, top * 1.001])
        self.out2 = [50e6, 100e6, 200e6] if tier == "quick" else [50e6, 100e6, 200e6, 25e6, 33.333e6]
        self.out3, self.outm = [50e6, 100e6], [50e6, 100e6]

    def counts(self):
        return [1, 2, 3, 4]

    def requests(self):
        phases = (0, 90, 180, 270)
        for fin in self.inputs:
            for n in self.counts():
                grid = {1: self.out1, 2: self.out2}.get(n, self.out3)
                for ports in itertools.permutations(phases, n) if n <= 2 else itertools.combinations(phases, n):
                    for fs in itertools.product(grid, repeat=n):
                        yield Req(fin, [(f, p, 0) for f, p in zip(fs, ports)])
            yield Req(fin, [(50e6, 0, 0), (50e6, 0, 0)])          # same port twice: must be refused


class EfinixGrid:
    """TRIONPLL: input grid over the window the PFD range and N = 1..15 allow (both ends, 0.1 % outside, typical clocks) x
    1..3 outputs x output menu^n x margin tuples x phase tuples x WHICH output is the feedback (every index), plus
    per-input structural points (fin/15, fin/16: the last legal and the first illegal pre-divider; 2*fin, 3/4*fin) and a
    few requests without a feedback output (pass-through).  The class's tables ignore the device, so in the quick tier
    only the first device gets the whole grid, the others a light one (sizes Z).  A refused request costs the helper a
    complete scan (50 ms), which is what bounds the quick grid.
    TITANIUMPLL: pass-through requests only (1..5 outputs)."""
    IN = dict(quick=[25e6, 100e6, 400e6],
              thorough=[12e6, 25e6, 27e6, 33.333e6, 50e6, 74.25e6, 100e6, 125e6, 200e6, 400e6, 800e6])
    Z = dict(
        quick=dict(n1=7, n2=3, n3=3, awk3=False, in2=(25e6, 100e6), in3=(25e6,),
                   p1=((0, MARGINS), (90, (0,)), (180, (0,)), (45, (0,))),
                   c2=(((0, 0), (0, 0)), ((0, 90), (0, 0)), ((0, 0), (1e-2, 1e-2)), ((0, 90), (1e-2, 0))),
                   c3=(((0, 0, 0), (0, 0, 0)), ((0, 0, 90), (1e-2, 1e-4, 0)))),
        light=dict(n1=7, n2=3, n3=3, awk3=False, in2=(100e6,), in3=(100e6,),
                   p1=((0, (0,)), (90, (0,))),
                   c2=(((0, 0), (0, 0)), ((0, 90), (0, 0))),
                   c3=(((0, 0, 90), (0, 0, 0)),)),
        thorough=dict(n1=16, n2=4, n3=3, awk3=True, in2=None, in3=(12e6, 25e6, 50e6, 100e6, 400e6),
                      p1=((0, MARGINS), (90, MARGINS), (45, (0,)), (135, (0,)), (180, (0, 1e-2)), (270, (0,)), (30, (0,))),
                      c2=tuple((ps, ms) for ps in ((0, 0), (0, 90), (180, 0), (90, 270))
                               for ms in ((0, 0), (1e-2, 1e-2), (1e-2, 0))),
                      c3=tuple((ps, ms) for ps in ((0, 0, 0), (0, 0, 90), (180, 0, 0))
                               for ms in ((0, 0, 0), (1e-2, 1e-2, 1e-2), (1e-2, 1e-4, 0)))))

    def __init__(self, fam, pll, tier):
        self.fam, self.tier = fam, tier
        self.trion = fam.name == "TRIONPLL"
        self.nmax = pll.nclkouts_max
        if not self.trion:
            self.inputs = [25e6, 100e6]
            self.out1 = [100e6, 24.576e6, 400e6, 33.333e6]
            self.out2, self.out3, self.outm = [100e6, 50e6], [100e6], [100e6]
            return
        first = pll._c20_platform.device == fam.DEVICES[fam.name][0]
        z = self.z = self.Z[tier if (tier == "thorough" or first) else "light"]
        L = fam.limits(pll)
        self.pfd = (float(L.pfd[0]), float(L.pfd[1]))
        in_rng = (float(L.pfd[0] * L.N[0]), float(L.pfd[1] * L.N[-1]))            # 10 MHz .. 1.5 GHz
        lo_o, hi_o = float(L.pll[0] / L.C[-1]), float(L.pll[1] / L.C[0])           # fPLL_min/256 .. fPLL_max/1
        self.inputs = uniq([in_rng[0] * (1 - 1e-3), in_rng[0]] + self.IN[tier] + [in_rng[1], in_rng[1] * (1 + 1e-3)])
        cand = [f for f in OUT_ROUND if lo_o < f < hi_o]
        awk = [f for f in OUT_AWKWARD if lo_o < f < hi_o]
        typ = [f for f in OUT_TYPICAL if lo_o < f < hi_o]
        ends = [lo_o * (1 - 1e-3), lo_o, hi_o, hi_o * (1 + 1e-3), float(L.vco[1]) / 3]
        self.out1 = uniq(ends + awk[:max(1, z["n1"] // 5)] + spread(cand, z["n1"]))
        self.out2 = uniq(awk[:1] + typ[:z["n2"]])
        self.out3 = uniq((awk[:1] if z["awk3"] else []) + typ[:z["n3"]])
        self.outm = []

    def counts(self):
        return [1, 2, 3] if self.trion else [1, 2, 3, 5]

    def requests(self):
        if not self.trion:
            for fin in self.inputs:
                for f in self.out1:
                    for p in (0, 90, 135):
                        yield Req(fin, [(f, p, 0)], ("nofb",))
                        yield Req(fin, [(f, p, 0)], ("fb0",))
                for fs in itertools.product(self.out2, repeat=2):
                    for fl in ("nofb", "fb0", "fb1"):
                        yield Req(fin, [(fs[0], 0, 0), (fs[1], 90, 1e-2)], (fl,))
                yield Req(fin, [(100e6, 0, 0), (50e6, 0, 0), (25e6, 180, 0)], ("fb2",))
                yield Req(fin, [(100e6, 0, 0), (50e6, 45, 0), (25e6, 0, 0), (200e6, 0, 0), (12.5e6, 0, 0)], ("fb4",))
            yield Req(100e6, [(100e6, 0, 0)] * 6, ("nofb",))               # more outputs than the primitive has
            return
        z = self.z
        lo_in, hi_in = self.inputs[1], self.inputs[-2]
        for fin in self.inputs:
            inside = lo_in <= fin <= hi_in
            # one output (it is the feedback)
            extra = [fin / 15, fin / 16, fin * 2, fin / 4 * 3] if inside else []
            if inside:
                # the feedback output is exactly fin*M/N: ratios that need the first pre-divider BEYOND the PFD window
                # (N = floor(fin/fPFD_min) + 1 when fin is no multiple of fPFD_min, N = ceil(fin/fPFD_max) - 1) must be refused
                n_hi = int(fin // self.pfd[0]) + 1
                if fin % self.pfd[0] and 2 <= n_hi <= 15:
                    extra.append(fin * (n_hi + 1) / n_hi)
                n_lo = -int(-fin // self.pfd[1]) - 1
                if n_lo >= 1:
                    extra.append(fin * (n_lo + 1) / n_lo)
            for k, f in enumerate(uniq(self.out1 + extra)):
                for p, ms in z["p1"]:
                    for m in ms:
                        yield Req(fin, [(f, p, m)], ("fb0",) + (("sigclk",) if (k == 0 and p == 0 and m == 0) else ()))
            if not inside:
                continue
            for f in self.out2[1:3]:                                       # no feedback output: pass-through
                yield Req(fin, [(f, 0, 0)], ("nofb",))
                yield Req(fin, [(f, 0, 0), (f / 2, 90, 0)], ("nofb",))
            if z["in2"] is None or fin in z["in2"] or (fin == lo_in and z is not self.Z["light"]):
                for fs in itertools.product(self.out2, repeat=2):
                    for ps, ms in z["c2"]:
                        for fb in range(2):
                            yield Req(fin, list(zip(fs, ps, ms)), ("fb%d" % fb,))
            if z["in3"] is None or fin in z["in3"]:
                for fs in itertools.product(self.out3, repeat=3):
                    for ps, ms in z["c3"]:
                        for fb in range(3):
                            yield Req(fin, list(zip(fs, ps, ms)), ("fb%d" % fb,))


def grid_for(fam, pll, tier):
    if isinstance(fam, FE.Efinix):
        return EfinixGrid(fam, pll, tier)
    if isinstance(fam, F.GateMate):
        return GateMateGrid(fam, pll, tier)
    if isinstance(fam, (F.NXOsc, F.GowinOsc)):
        return OscGrid(fam, pll, tier)
    if isinstance(fam, F.Gowin1):
        return GowinGrid(fam, pll, tier)
    return Grid(fam, pll, tier)


# ---------------------------------------------------------------------------------------------------------------------
def jsonable_config(cfg):
    out = {}
    for k, v in (cfg or {}).items():
        if isinstance(v, (int, float, str, bool)) or v is None:
            out[k] = v
        elif isinstance(v, Fr):
            out[k] = float(v)
    return out


def witness_json(w):
    if w is None:
        return None
    if "note" in w:
        return dict(note=w["note"])
    d = dict(input_div=_s(w["D"]), mult=_s(w["M"]), vco_or_source_hz=float(w["src"]), pfd_hz=float(w["pfd"]),
             out_dividers=[_s(p[2]) for p in w["picks"]])
    for k in ("clkfb_div", "fb_div", "fb", "postdiv_O", "pll_hz"):
        if k in w:
            d[k] = w[k] if isinstance(w[k], (int, str, float)) else _s(w[k])
    return d


def slug(kind, e):
    """short classifier of a refusal for the rule name, so that different defects get different rules:
    crash -> exception type; search -> 'none' for the helpers' "No ... config found", else the first words of the message"""
    if kind == "crash":
        return type(e).__name__.lower()
    msg = str(e)
    if re.match(r"No \w+ config found", msg):
        return "none"
    words = re.findall(r"[A-Za-z]+", msg.replace("'", ""))[:2]
    return "_".join(w.lower() for w in words) or type(e).__name__.lower()


def evaluate(fam, variant, req):
    """one request against the real helper + both oracles -> dict(kind, viol=[(rule, msg, extra)], cover={...})"""
    r = fam.drive(variant, req)
    pll = r.pll
    if pll is None:
        raise MachineryError("%s%r: constructor failed: %r" % (fam.name, variant, r.exc))
    cover = {}
    viol = []
    inr = fam.in_range(pll, req)
    res = dict(kind=None, viol=viol, cover=cover, config=None, exc=None)
    if r.exc is None:
        cfg = r.config
        res["config"] = jsonable_config(cfg)
        if not isinstance(cfg, dict):
            viol.append(("config.none", "do_finalize completed without a configuration dict (%r)" % (cfg,), None))
            res["kind"] = "config"
            return res
        res["kind"] = "config"
        if cfg.get("passthrough"):
            # Efinix without a LiteX-side computation: the request goes to the vendor tool unchanged (judged by decode)
            res["kind"] = "passthrough"
            cover["passthrough"] = 1
        else:
            cover["returned"] = 1
        if not inr:
            cover["outside_accepted"] = 1
        D, M, ds, bad = fam.decode(pll, cfg, req)
        viol += [(a, b, None) for a, b in bad]
        if D is not None:
            dec = (D, M, ds)
            viol += [(a, b, None) for a, b in fam.ref_verify(pll, req, dec, WIDE)]
            try:
                viol += [(a, b, None) for a, b in fam.check_instance(pll, cfg, req, dec)]
            except LookupError as e:
                viol.append(("inst.missing", str(e), None))
            for k, v in fam.used_nontrivially(dec).items():
                if v:
                    cover[k] = cover.get(k, 0) + v
            if not viol and fam.ref_applicable(pll, req) is None:
                # validity of the reference itself: what the helper found (and was verified) must be satisfiable
                if fam.ref_search(pll, req, WIDE) is None:
                    raise MachineryError("%s%r %r: verified configuration %r but the reference search finds none" % (
                        fam.name, variant, req, res["config"]))
                cover["ref_agrees_sat"] = 1
        return res
    # refusal
    e = r.exc
    res["exc"] = "%s: %s" % (type(e).__name__, str(e)[:160])
    if r.stage in ("clkin", "clkout"):
        kind = "reject"
    elif r.stage == "search" and isinstance(e, fam.NO_SOLUTION):
        kind = "search"
    else:
        kind = "crash"
    res["kind"] = "refused." + kind
    cover["refused." + kind] = 1
    if not inr:
        cover["outside_refused"] = 1
        return res
    why = fam.ref_applicable(pll, req)
    if why is not None:
        cover["ref_not_applicable"] = 1
        return res
    w = fam.ref_search(pll, req, NARROW)
    if w is None:
        cover["ref_agrees_unsat"] = 1
    else:
        viol.append(("complete.%s.%s%s" % (kind, slug(kind, e), fam.rule_suffix(req)), "refused (%s at stage %s) although a setting inside the declared ranges exists: %s" % (
            res["exc"], r.stage, json.dumps(witness_json(w))), dict(witness=witness_json(w))))
    return res


def run_config(cfg, seed, tier):
    name, famname, vi = cfg
    cpu0 = time.process_time()
    fam = families()[famname]
    variant = fam.variants()[vi]
    probe = fam.cls if isinstance(fam, F.GowinOsc) else fam.new(variant[1])
    fam.post_new(probe, variant[0])
    grid = grid_for(fam, probe, tier)
    reqs = list(grid.requests())
    keys = set()
    if seed:
        k = seed % max(1, len(reqs))
        reqs = reqs[k:] + reqs[:k]
    cover = {}
    found = []
    evaluations = distinct = 0
    sample = None
    for req in reqs:
        if req.key() in keys:
            continue
        keys.add(req.key())
        res = evaluate(fam, variant, req)
        evaluations += 1
        if res["kind"] in ("config", "refused.search"):
            distinct += 1
        for k, v in res["cover"].items():
            cover[k] = cover.get(k, 0) + v
        for rule, msg, extra in res["viol"]:
            found.append((rule, req.key(), req, msg, extra, res))
        if res["kind"] == "config" and not res["viol"] and (sample is None or req.key() < sample[0]):
            sample = (req.key(), dict(request=req.to_json(), outcome="configuration", config=res["config"]))
    # deterministic selection of the reported violations (independent of the seed's order)
    found.sort(key=lambda t: (t[0], repr(t[1])))
    violations, per_rule = [], {}
    for rule, _, req, msg, extra, res in found:
        per_rule[rule] = per_rule.get(rule, 0) + 1
    kept = {}
    for rule, _, req, msg, extra, res in found:
        if kept.get(rule, 0) >= MAX_PER_RULE:
            continue
        kept[rule] = kept.get(rule, 0) + 1
        violations.append(dict(rule=rule, msg="%s: %s" % (req, msg), trace=[repr(req)],
                               detail=dict(family=famname, variant=variant[0], request=req.to_json(), count=per_rule[rule],
                                           config=res["config"], refusal=res["exc"], extra=extra)))
    return dict(cfg=name, exhaustive=True, violations=violations, evaluations=evaluations, distinct=distinct,
                sample=sample[1] if sample else None, cover=cover, cpu_s=round(time.process_time() - cpu0, 1),
                grid=dict(inputs=grid.inputs, out1=grid.out1, out2=grid.out2, out3=grid.out3, outmax=grid.outm,
                          noutputs=grid.counts(), requests=len(keys)))


def replay(rec):
    d = rec["detail"]
    fam = families()[d["family"]]
    variant = [v for v in fam.variants() if v[0] == d["variant"]][0]
    req = Req.from_json(d["request"])
    res = evaluate(fam, variant, req)
    rules = [v[0] for v in res["viol"]]
    return dict(cfg=rec["cfg"], rule=rec["rule"], reproduced=rec["rule"] in rules, request=repr(req), outcome=res["kind"],
                config=res["config"], refusal=res["exc"], violations=[(a, b) for a, b, c in res["viol"]])


def extra_coverage(results):
    """aggregated anti-vacuity counters for the evidence file"""
    tot = {}
    for r in results:
        for k, v in (r.get("cover") or {}).items():
            tot[k] = tot.get(k, 0) + v
    return dict(cover_total=tot, helper_classes=sorted(set(str(r.get("cfg", "")).split("[")[0] for r in results)),
                not_covered=["TITANIUMPLL / TRIONPLL without feedback output: dividers are computed by the Efinity tool, not by LiteX "
                             "(pass-through of the request checked only)"])
