"""C13 part (c): SoCCSRHandler / SoCIRQHandler (SoCLocHandler.add / alloc, address_map, enable) call histories.

Reference: the legal range [0, N) is computed from the constructor arguments, not read from the handler:
  CSR: N = number of `paging`-byte pages in a CSR space of 2**address_width words of alignment/8 bytes;  IRQ: N = n_irqs.
After every successful call all granted numbers are ints, pairwise different and inside [0, N); a call under an already
granted name succeeds only with use_loc_if_exists and then changes nothing."""
import fsmc  # noqa: F401
import types, collections

from litex.soc.integration import soc

from checks.c13_common import guarded, MachineryError


class _Mem:
    name_override = "mem"


class LocModel:
    def __init__(self, kind="csr", address_width=14, paging=0x4000, n_irqs=4, reserved=()):
        self.kind, self.address_width, self.paging, self.n_irqs = kind, address_width, paging, n_irqs
        self.reserved = tuple(tuple(x) for x in reserved)
        if kind == "csr":
            self.N = (2**address_width * (32 // 8)) // paging
            self.key = f"csr|aw{address_width}|pg{paging:#x}|res{self.reserved}"
        else:
            self.N = n_irqs
            self.key = f"irq|n{n_irqs}"
        N = self.N
        self.nvals = list(dict.fromkeys([None, -1, 0, 1, N - 1, N, N + 1]))
        self.cover = collections.Counter()

    def params(self):
        return dict(part="loc", kind=self.kind, address_width=self.address_width, paging=self.paging, n_irqs=self.n_irqs,
                    reserved=[list(x) for x in self.reserved])

    def fresh(self):
        if self.kind == "csr":
            out, h = guarded(lambda: soc.SoCCSRHandler(address_width=self.address_width, paging=self.paging, reserved_csrs=dict(self.reserved)))
        else:
            out, h = guarded(lambda: soc.SoCIRQHandler(n_irqs=self.n_irqs))
        if out != "ok":
            raise MachineryError(f"{self.key}: constructor {out}")
        return types.SimpleNamespace(h=h, last=None)

    def info(self, ctx):
        return (len(ctx.h.locs), bool(getattr(ctx.h, "enabled", True)))

    def menu(self, info):
        nnames, enabled = info
        calls = []
        for ref in [-1] + list(range(nnames)):
            for n in self.nvals:
                for flag in (False, True):
                    calls.append(("add", ref, n, flag))
            if self.kind == "csr":
                calls += [("map", ref, False), ("map", ref, True)]
        if self.kind == "irq":
            calls.append(("enable",))
        return calls

    def roots(self):
        return self.menu((len(self.reserved), self.kind == "csr"))

    def step(self, ctx, call, idx):
        h = ctx.h
        names = list(h.locs)
        if call[0] == "enable":
            ctx.last = dict(name=None, reused=False)
            return guarded(h.enable)
        ref = call[1]
        name = f"l{idx}" if ref < 0 else names[ref]
        if call[0] == "add":
            _, _, n, flag = call
            ctx.last = dict(name=name, reused=name in h.locs, nlocs=len(h.locs))
            return guarded(lambda: h.add(name, n=n, use_loc_if_exists=flag))
        if call[0] == "map":
            mem = _Mem() if call[2] else None
            full = name + "_mem" if call[2] else name
            ctx.last = dict(name=full, reused=full in h.locs, nlocs=len(h.locs))
            return guarded(lambda: h.address_map(name, mem))
        raise MachineryError(f"unknown call {call}")

    def canon(self, ctx):
        h = ctx.h
        names = list(h.locs)
        ent = []
        for k in names:
            base = names.index(k[:-4]) if (k.endswith("_mem") and k[:-4] in h.locs) else -1
            ent.append((base, h.locs[k]))
        return (tuple(ent), bool(getattr(h, "enabled", True)))

    def jstate(self, ctx):
        return dict(locs=dict(ctx.h.locs), legal_range=[0, self.N - 1])

    def jcall(self, call):
        if call[0] == "add":
            return ["add", "new-name" if call[1] < 0 else f"name-of-entry-{call[1]}", f"n={call[2]}", f"use_loc_if_exists={call[3]}"]
        if call[0] == "map":
            return ["address_map", "new-name" if call[1] < 0 else f"name-of-entry-{call[1]}", "memory" if call[2] else "None"]
        return list(call)

    def check_call(self, ctx, call, idx, ret, before):
        h, L = ctx.h, ctx.last
        viol = []
        vals = list(h.locs.values())
        what = "CSR page" if self.kind == "csr" else "IRQ number"
        for name, v in h.locs.items():
            if isinstance(v, bool) or not isinstance(v, int) or not (0 <= v < self.N):
                explicit = call[0] == "add" and call[2] is not None and name == L["name"] and not L["reused"]
                # loc.range.last is the signature of DESIGN candidate j (explicit n == n_locs accepted)
                rule = ("loc.range.last" if v == self.N else "loc.range.fixed") if explicit else "loc.range.auto"
                viol.append(dict(rule=rule, msg=f"{what} {v!r} granted to {name!r} ({'explicit request' if explicit else 'automatic'}): outside the "
                                 f"legal range 0..{self.N - 1} ({self.kind} handler, {self.N} locations)", detail=dict(n_locs=self.N, value=v)))
                break
        if len(set(vals)) != len(vals):
            dup = sorted(v for v, c in collections.Counter(vals).items() if c > 1)
            viol.append(dict(rule="loc.duplicate", msg=f"{what}(s) {dup} granted to more than one name: {dict(h.locs)}"))
        if call[0] == "add":
            _, ref, n, flag = call
            if L["reused"]:
                if not flag:
                    viol.append(dict(rule="name.reuse", msg=f"add() under the already granted name {L['name']!r} was accepted without use_loc_if_exists"))
                elif self.canon(ctx) != before:
                    viol.append(dict(rule="loc.changed", msg=f"add({L['name']!r}, n={n}, use_loc_if_exists=True) on an existing name changed the locations"))
                else:
                    self.cover["use_loc_if_exists_hits"] += 1
            else:
                if len(h.locs) != L["nlocs"] + 1 or L["name"] not in h.locs:
                    viol.append(dict(rule="loc.not_registered", msg=f"add({L['name']!r}) returned but the name was not added exactly once"))
                elif n is not None and h.locs[L["name"]] != n:
                    viol.append(dict(rule="loc.wrong", msg=f"add({L['name']!r}, n={n}) registered {h.locs[L['name']]!r}"))
                elif n is None:
                    self.cover["auto_allocations"] += 1
        elif call[0] == "map":
            if L["name"] not in h.locs or ret != h.locs[L["name"]] or len(h.locs) != L["nlocs"] + (0 if L["reused"] else 1):
                viol.append(dict(rule="loc.wrong", msg=f"address_map returned {ret!r} for {L['name']!r}; locations {dict(h.locs)}"))
            self.cover["address_map_calls"] += 1
        return viol

    def check_reject(self, ctx, call, idx, before, after):
        return []

    def check_state(self, ctx):
        return []
