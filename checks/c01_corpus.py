"""C01 program source (ii): corpus of real LiteX cores at small parameters (DESIGN.md §4 C01).

Every entry is a deterministic constructor; it is instantiated inside a wrapper Module that only adds the clock
domains.  Free signals (read, never driven) become the inputs of both sides; every signal of the original fragment
that the emitted Verilog declares is compared, and every memory word."""
import fsmc  # noqa: F401
from migen import *
from migen.fhdl.tools import list_signals, list_targets, list_special_ios
from migen.fhdl.specials import Memory
from litex.soc.interconnect import stream, wishbone, packet, csr, csr_bus
from litex.soc.interconnect.axi import *
from litex.soc.interconnect.csr import CSRStorage, CSRStatus, AutoCSR
from litex.soc.interconnect.csr_eventmanager import EventManager, EventSourcePulse, EventSourceProcess, EventSourceLevel
from litex.soc.cores import code_8b10b, ecc, uart, timer, pwm, gpio
from litex.soc.cores.spi.spi_master import SPIMaster


def _packetizer():
    hdr = packet.Header({"a": packet.HeaderField(0, 0, 16), "b": packet.HeaderField(2, 0, 8)}, 3, swap_field_bytes=True)
    return packet.Packetizer(stream.EndpointDescription([("data", 16)], [("a", 16), ("b", 8)]), [("data", 16)], hdr)


def _depacketizer():
    hdr = packet.Header({"a": packet.HeaderField(0, 0, 16), "b": packet.HeaderField(2, 0, 16)}, 4, swap_field_bytes=True)
    return packet.Depacketizer([("data", 16)], stream.EndpointDescription([("data", 16)], [("a", 16), ("b", 16)]), hdr)


class _CSRDemo(Module, AutoCSR):
    def __init__(self):
        self.ctrl = CSRStorage(12, reset=0x5A3, name="ctrl")
        self.wide = CSRStorage(20, name="wide", atomic_write=True)
        self.stat = CSRStatus(10, name="stat")
        self.inp = Signal(10)
        self.comb += self.stat.status.eq(self.inp ^ self.ctrl.storage[:10])


def _csrbank():
    class M(Module):
        def __init__(self):
            self.submodules.d = d = _CSRDemo()
            self.submodules.bank = csr_bus.CSRBank(d.get_csrs(), address=0, bus=csr_bus.Interface(8, 14))
    return M()


def _eventmanager():
    class M(Module):
        def __init__(self):
            self.submodules.ev = ev = EventManager()
            ev.p = EventSourcePulse(name="p")
            ev.q = EventSourceProcess(name="q")
            ev.l = EventSourceLevel(name="l")
            ev.finalize()
            self.submodules.bank = csr_bus.CSRBank(ev.get_csrs(), address=0, bus=csr_bus.Interface(8, 14))
    return M()


def _wb_shared():
    class M(Module):
        def __init__(self):
            ms = [wishbone.Interface(32, adr_width=8) for _ in range(2)]
            ss = [wishbone.Interface(32, adr_width=8) for _ in range(2)]
            self.ms, self.ss = ms, ss
            self.submodules.ic = wishbone.InterconnectShared(ms, [(lambda a, i=i: a[4:6] == i, s) for i, s in enumerate(ss)], register=True)
    return M()


def _asyncfifo():
    return ClockDomainsRenamer({"write": "sys", "read": "b"})(stream.AsyncFIFO([("data", 4)], 4))


# name -> (constructor, clocks, tier)
CORPUS = {
    "SyncFIFO.buffered4":  (lambda: stream.SyncFIFO([("data", 8)], 4, buffered=True), ("sys",), "quick"),
    "SyncFIFO.d2":         (lambda: stream.SyncFIFO([("data", 4)], 2, buffered=False), ("sys",), "thorough"),
    "AsyncFIFO.d4":        (_asyncfifo, ("sys", "b"), "quick"),
    "Converter.8to32":     (lambda: stream.Converter(8, 32), ("sys",), "quick"),
    "Converter.32to8":     (lambda: stream.Converter(32, 8), ("sys",), "thorough"),
    "StrideConverter":     (lambda: stream.StrideConverter([("a", 8), ("b", 4)], [("a", 16), ("b", 8)]), ("sys",), "thorough"),
    "Gearbox.10to8":       (lambda: stream.Gearbox(10, 8), ("sys",), "quick"),
    "PipeValid":           (lambda: stream.PipeValid([("data", 8)]), ("sys",), "thorough"),
    "WishboneSRAM.burst":  (lambda: wishbone.SRAM(64, bus=wishbone.Interface(32, adr_width=8, bursting=True)), ("sys",), "quick"),
    "WishboneCache":       (lambda: wishbone.Cache(8, wishbone.Interface(32, adr_width=8), wishbone.Interface(64, adr_width=7)), ("sys",), "quick"),
    "WishboneDownConv":    (lambda: wishbone.DownConverter(wishbone.Interface(32, adr_width=8), wishbone.Interface(8, adr_width=10)), ("sys",), "quick"),
    "WishboneShared2x2":   (_wb_shared, ("sys",), "quick"),
    "AXILiteSRAM":         (lambda: AXILiteSRAM(64), ("sys",), "quick"),
    "AXILiteDownConv":     (lambda: AXILiteDownConverter(AXILiteInterface(64, 8), AXILiteInterface(32, 8)), ("sys",), "thorough"),
    "AXILite2Wishbone":    (lambda: AXILite2Wishbone(AXILiteInterface(32, 8), wishbone.Interface(32, adr_width=6)), ("sys",), "thorough"),
    "AXIBurst2Beat":       (lambda: AXIBurst2Beat(AXIStreamInterface(layout=ax_description(32), id_width=1),
                                                  AXIStreamInterface(layout=ax_description(32), id_width=1)), ("sys",), "quick"),
    "Packetizer.unaligned": (_packetizer, ("sys",), "quick"),
    "Depacketizer":        (_depacketizer, ("sys",), "thorough"),
    "Encoder8b10b.x2":     (lambda: code_8b10b.Encoder(2), ("sys",), "quick"),
    "Decoder8b10b":        (lambda: code_8b10b.Decoder(), ("sys",), "quick"),
    "ECCEncoder8":         (lambda: ecc.ECCEncoder(8), ("sys",), "thorough"),
    "ECCDecoder16":        (lambda: ecc.ECCDecoder(16), ("sys",), "quick"),
    "Timer":               (lambda: timer.Timer(), ("sys",), "quick"),
    "PWM":                 (lambda: pwm.PWM(), ("sys",), "quick"),
    "SPIMaster":           (lambda: SPIMaster(None, 8, 1e6, 1e5), ("sys",), "quick"),
    "RS232PHY":            (lambda: uart.RS232PHY(uart.UARTPads(), 1e6, 115200), ("sys",), "quick"),
    "CSRBank":             (_csrbank, ("sys",), "quick"),
    "EventManager":        (_eventmanager, ("sys",), "thorough"),
    "GPIOOut": (lambda: gpio.GPIOOut(Signal(8)), ("sys",), "thorough"),
}


WITH_MEMORY = {"SyncFIFO.buffered4", "SyncFIFO.d2", "AsyncFIFO.d4", "WishboneSRAM.burst", "WishboneCache", "AXILiteSRAM", "Decoder8b10b"}


def _menu(sig, is_rst):
    n = len(sig)
    if is_rst:
        return [0, 0, 0, 0, 0, 0, 0, 1]
    if n <= 2:
        return list(range(1 << n))
    m = (1 << n) - 1
    vals = [0, 1, 1 << (n - 1), m, 0x5555555555555555 & m, 0xAAAAAAAAAAAAAAAA & m, 2, m - 1]
    out = []
    for v in vals:
        if v not in out:
            out.append(v)
    return out


def _bt(sig, name):
    return any(n == name for n, _ in (sig.backtrace or []))


# variants with restricted input menus: (core, {predicate on the input signal: menu})
VARIANTS = {
    # period = 0 makes `counter < period - 1` compare with -1 in the simulator (gap h1); explore the rest of PWM without it
    "PWM.period_nz": ("PWM", [(lambda s: _bt(s, "period"), [2, 3, 5, 0xFFFFFFFF, 1])]),
}


def core_program(name):
    overrides = []
    if name in VARIANTS:
        name, overrides = VARIANTS[name]
    build, clocks, _ = CORPUS[name]

    def mk():
        class W(Module):
            def __init__(self):
                self.cds = []
                for c in clocks:
                    cd = ClockDomain(c)
                    setattr(self.clock_domains, "cd_" + c, cd)
                    self.cds.append(cd)
                self.submodules.dut = build()
        w = W()
        f = w.get_fragment()
        sigs = list_signals(f) | list_special_ios(f, ins=True, outs=True, inouts=True)
        clkrst = set()
        for cd in w.cds:
            clkrst |= {cd.clk, cd.rst}
        driven = list_targets(f) | list_special_ios(f, ins=False, outs=True, inouts=True)
        free = sorted((sigs - driven) - clkrst, key=lambda s: s.duid)
        rsts = [cd.rst for cd in w.cds]
        inputs = free + rsts
        mems = sorted([s for s in f.specials if isinstance(s, Memory)], key=lambda m: m.duid)
        observe = []
        for s in sorted(sigs - clkrst, key=lambda s: s.duid):
            observe.append((s.backtrace[-1][0] if s.backtrace else "sig", s))
        menus = [_menu(s, s in rsts) for s in inputs]
        for pred, menu in overrides:
            for k, s in enumerate(inputs):
                if pred(s):
                    menus[k] = list(menu)
        info = dict(ios=set(inputs) | {cd.clk for cd in w.cds}, clocks=tuple(clocks), clock_domains=list(w.cds), inputs=inputs,
                    menus=menus, observe=observe, memories=mems, n_rst=len(rsts))
        return f, info
    return mk


def bfs_alphabet(info):
    """all combinations of the 1-bit inputs (at most 7 of them free, the rest tied to the data pattern's parity) x three
    data patterns for the wider inputs"""
    import itertools
    inputs, menus = info["inputs"], info["menus"]
    nr = info["n_rst"]
    if sum(len(s) for s in inputs) <= 12:      # narrow cores: every input valuation
        return list(itertools.product(*[m if len(s) == 1 and len(m) <= 2 else (range(1 << len(s)) if len(m) > 1 else m)
                                        for s, m in zip(inputs, menus)]))
    one = [k for k, s in enumerate(inputs) if len(s) == 1]
    free1 = one[:7] if len(one) > 7 else one
    if len(one) > 7:      # keep the resets among the free ones
        rst_idx = list(range(len(inputs) - nr, len(inputs)))
        free1 = [k for k in one if k not in rst_idx][:7 - nr] + rst_idx
    out = []
    for bits in itertools.product((0, 1), repeat=len(free1)):
        for p in range(3):
            vals = []
            for k, s in enumerate(inputs):
                if k in free1:
                    vals.append(bits[free1.index(k)])
                elif len(s) == 1:
                    vals.append(p & 1)
                else:
                    m = [x for x in menus[k]]
                    vals.append(m[[1, 3, 4][p] % len(m)] if len(m) > 4 else m[p % len(m)])
            out.append(tuple(vals))
    return out
