"""C20 family adapters: how each LiteX clocking helper is constructed and driven, which ranges it DECLARES (read from
the instance's attributes after construction), how its returned configuration decodes to (input divider, multiplier,
output dividers), and what the emitted primitive must carry.  The reference search itself is in c20_ref.py."""
import fsmc  # noqa: F401  (sys.path + tracer shim)
import io, contextlib, signal
from fractions import Fraction as Fr

from migen import Signal, ClockDomain
from migen.fhdl.structure import Constant
from migen.fhdl.specials import Instance
from migen.fhdl import tracer as _tracer

from checks.c20_ref import (fr, representable, Lazy, TRUE, FALSE, WIDE, NARROW, EPS, Arith, Explicit, Union, Out, Model,
                            search, verify, _s)


class Timeout(Exception):
    pass


class watchdog:
    """every helper call that loops runs under a SIGALRM watchdog"""
    def __init__(self, seconds):
        self.s = seconds

    def __enter__(self):
        def h(sig, frm):
            raise Timeout("watchdog %ds" % self.s)
        self.old = signal.signal(signal.SIGALRM, h)
        signal.alarm(self.s)

    def __exit__(self, *a):
        signal.alarm(0)
        signal.signal(signal.SIGALRM, self.old)
        return False


class Req:
    """one request: input frequency and 1..n outputs (freq, phase, margin), plus family specific flags"""
    __slots__ = ("fin", "outs", "flags")

    def __init__(self, fin, outs, flags=()):
        self.fin, self.outs, self.flags = fin, tuple(tuple(o) for o in outs), tuple(flags)

    def key(self):
        return (self.fin, self.outs, self.flags)

    def to_json(self):
        return dict(fin=self.fin, outs=[list(o) for o in self.outs], flags=list(self.flags))

    @classmethod
    def from_json(cls, d):
        return cls(d["fin"], d["outs"], d.get("flags", ()))

    def __repr__(self):
        return "fin=%g outs=%s%s" % (self.fin, ",".join("%g@%g/%g" % (f, p, m) for f, p, m in self.outs),
                                     (" " + "+".join(self.flags)) if self.flags else "")


class Result:
    """outcome of driving the real helper once"""
    def __init__(self):
        self.stage = "ctor"         # where an exception was raised: ctor, clkin, clkout, search, finalize
        self.exc = None             # the exception (None when a configuration came back and finalize completed)
        self.config = None          # dict returned by compute_config (captured)
        self.pll = None
        self.searched = False       # compute_config was entered


def inst_params(pll, of_names):
    """the single emitted primitive: ({param: python value}, {output port: expr}, {input port: expr}, of)"""
    insts = [s for s in pll._fragment.specials if isinstance(s, Instance) and s.of in of_names]
    if len(insts) != 1:
        raise LookupError("expected exactly one instance of %s, found %d" % ("/".join(of_names), len(insts)))
    inst = insts[0]
    params, outs, ins = {}, {}, {}
    for it in inst.items:
        if isinstance(it, Instance.Parameter):
            v = it.value
            params[it.name] = v.value if isinstance(v, Constant) else v
        elif isinstance(it, Instance.Output):
            outs[it.name] = it.expr
        elif isinstance(it, Instance.Input):
            ins[it.name] = it.expr
    return params, outs, ins, inst.of


def close(a, b, rel=1e-9):
    a, b = fr(a), fr(b)
    return abs(a - b) <= Fr(rel) * max(abs(a), abs(b), 1)


def as_exact_number(v):
    """a primitive parameter / config entry as an exact number, or None if it is not one"""
    if isinstance(v, bool):
        return None
    if isinstance(v, (int, float, Fr)):
        return fr(v)
    return None


def num_eq(a, b):
    a, b = as_exact_number(a), as_exact_number(b)
    return a is not None and b is not None and a == b


class Family:
    """base adapter"""
    name = "?"
    prims = ()
    has_phase = True
    CRASH_OK = ()            # exception types that are a normal refusal at the front door
    NO_SOLUTION = (ValueError,)   # how compute_config reports "no configuration found" after its search

    def __init__(self, cls):
        self.cls = cls
        self.name = cls.__name__

    # -- construction ------------------------------------------------------------------------------------------------
    def variants(self):
        return [("default", {})]

    def new(self, variant_kwargs):
        return self.cls(**variant_kwargs)

    def post_new(self, pll, variant_name):
        pass

    def register(self, pll, req):
        pll.register_clkin(Signal(), req.fin)

    def create(self, pll, req):
        for i, (f, p, m) in enumerate(req.outs):
            kw = dict(margin=m)
            if self.has_phase:
                kw["phase"] = p
            pll.create_clkout(ClockDomain("c20_%d" % i), f, **kw)

    def prepare_finalize(self, pll, req):
        pass

    def drive(self, variant, req, timeout=300):
        vname, vkw = variant
        r = Result()
        sink = io.StringIO()
        # Migen's name tracer keeps every object ever created in global lists that it scans linearly (quadratic over a
        # long enumeration); the lists only feed signal naming, so they are emptied between requests.
        _tracer.classname_to_objs.clear()
        _tracer.name_to_idx.clear()
        try:
            with watchdog(timeout), contextlib.redirect_stdout(sink):
                pll = self.new(vkw)
                self.post_new(pll, vname)
                r.pll = pll
                r.stage = "clkin"
                self.register(pll, req)
                r.stage = "clkout"
                self.create(pll, req)
                r.stage = "finalize"
                orig = pll.compute_config

                def capture(*a, **k):
                    r.stage = "search"
                    r.searched = True
                    c = orig(*a, **k)
                    r.config = c
                    r.stage = "finalize"
                    return c
                pll.compute_config = capture
                self.prepare_finalize(pll, req)
                pll.do_finalize()
                r.stage = "done"
        except Timeout:
            raise
        except Exception as e:           # any exception is a refusal of the request
            r.exc = e
        return r

    # -- oracle hooks ------------------------------------------------------------------------------------------------
    def in_range(self, pll, req):
        """the request lies inside the input/output frequency ranges the class declares (quantifier of the property)"""
        return True

    def model(self, pll, req):
        raise NotImplementedError

    def ref_applicable(self, pll, req):
        """None if the completeness oracle applies to this request, else the documented reason it does not"""
        return None

    def sound_model(self, pll, req, dec):
        """model against which a returned configuration is verified (default: the declared model)"""
        return self.model(pll, req)

    def ref_search(self, pll, req, tol):
        """the independent decision procedure for this request: a witness dict or None (default: the generic
        interval-intersection search over the declared model; families with another structure bring their own)"""
        return search(self.model(pll, req), tol)

    def ref_verify(self, pll, req, dec, tol):
        """[(rule, msg)] for a decoded returned configuration"""
        D, M, ds = dec
        return verify(self.sound_model(pll, req, dec), D, M, ds, tol)

    def decode(self, pll, cfg, req):
        """-> (D, M, [d_n], [(rule, msg)]) from the returned configuration"""
        raise NotImplementedError

    def check_instance(self, pll, cfg, req, dec):
        raise NotImplementedError

    def used_nontrivially(self, dec):
        return {}

    def rule_suffix(self, req):
        """request class appended to completeness rule names (lets a known finding be matched narrowly)"""
        return ""


_PRODS = {}


def products(aset, bset):
    """{a*b} of two arithmetic lattices as an explicit sorted set (cached: 16384 elements for ECP5)"""
    key = (aset.start, aset.step, aset.count, bset.start, bset.step, bset.count)
    if key not in _PRODS:
        _PRODS[key] = Explicit(a * b for a in aset for b in bset)
    return _PRODS[key]


def fact_chain(pfd, K, aset, bset):
    """intermediate products pfd*a of (pfd*a)*b for EVERY factorisation K = a*b inside the two lattices (conservative:
    the exactness clause then holds whichever factorisation the helper meets first)"""
    return [pfd * a for a in aset.iter_in(K / bset.hi(), K / bset.lo()) if bset.contains(K / a)]


def _vco_rng(pll):
    lo, hi = pll.vco_freq_range
    vm = fr(getattr(pll, "vco_margin", 0))
    return (fr(lo) * (1 + vm), fr(hi) * (1 - vm)), vm == 0


def _rng_has(rng, x):
    return rng is None or (rng[0] <= x <= rng[1])


# =====================================================================================================================
# Xilinx: S6PLL S6DCM S7PLL S7MMCM USPLL USMMCM USPPLL (XilinxClocking.compute_config) and USPMMCM (own search)
class Xilinx(Family):
    SPEEDGRADES = (-1, -2, -3)
    PRIM = dict(S6PLL="PLL_ADV", S6DCM="DCM_CLKGEN", S7PLL="PLLE2_ADV", S7MMCM="MMCME2_ADV", USPLL="PLLE2_ADV",
                USMMCM="MMCME2_ADV", USPPLL="PLLE2_ADV", USPMMCM="MMCME4_ADV")

    def __init__(self, cls, vco_margin=None):
        Family.__init__(self, cls)
        self.vm = vco_margin
        self.prims = (self.PRIM[self.name],)

    def variants(self):
        vs = [("sg%d" % sg, dict(speedgrade=sg)) for sg in self.SPEEDGRADES]
        if self.vm is not None:
            vs.append(("sg-1,vco_margin=%g" % self.vm, dict(speedgrade=-1)))
        return vs

    def post_new(self, pll, vname):
        if "vco_margin" in vname:
            pll.vco_margin = self.vm        # public attribute read by compute_config

    def create(self, pll, req):
        for i, (f, p, m) in enumerate(req.outs):
            pll.create_clkout(ClockDomain("c20_%d" % i), f, phase=p, margin=m)

    def in_range(self, pll, req):
        # XilinxClocking never enforces clkin_freq_range: it only delimits the property's quantifier (see ASSUMPTIONS)
        return _rng_has(getattr(pll, "clkin_freq_range", None), req.fin)

    def out_divs(self, pll, n):
        parts = [Arith.from_range(pll.clkout_divide_range)]
        extra = getattr(pll, "clkout%d_divide_range" % n, None)
        if extra is not None:
            parts.append(Arith.from_range(extra))
        return parts[0] if len(parts) == 1 else Union(parts)

    def mult_set(self, pll):
        # compute_config iterates range(*clkfbout_mult_frange): the declared multipliers are the integers of the range
        return Arith.from_range(pll.clkfbout_mult_frange)

    def model(self, pll, req):
        rng, exact = _vco_rng(pll)
        return Model(req.fin, Arith.from_range(pll.divclk_divide_range), self.mult_set(pll), rng,
                     [Out(f, m, self.out_divs(pll, n)) for n, (f, p, m) in enumerate(req.outs)],
                     src_exact_bounds=exact)

    def decode(self, pll, cfg, req):
        bad = []
        D, M = cfg.get("divclk_divide"), cfg.get("clkfbout_mult")
        ds = []
        for n, (f, p, m) in enumerate(req.outs):
            ds.append(cfg.get("clkout%d_divide" % n))
            if not num_eq(cfg.get("clkout%d_phase" % n), p):
                bad.append(("config.phase", "clkout%d_phase %r != requested %r" % (n, cfg.get("clkout%d_phase" % n), p)))
        if as_exact_number(D) is None or as_exact_number(M) is None or any(as_exact_number(d) is None for d in ds):
            bad.append(("config.missing", "configuration lacks divider/multiplier entries: %r" % sorted(cfg)))
            return None, None, ds, bad
        src = fr(req.fin) * fr(M) / fr(D)
        if not close(cfg.get("vco", 0), src):
            bad.append(("config.vco", "config['vco']=%r but fin*mult/div = %.3f" % (cfg.get("vco"), float(src))))
        for n, d in enumerate(ds):
            if not close(cfg.get("clkout%d_freq" % n, 0), src / fr(d)):
                bad.append(("config.freq", "config['clkout%d_freq']=%r but vco/divide = %.3f" % (
                    n, cfg.get("clkout%d_freq" % n), float(src / fr(d)))))
        return D, M, ds, bad

    def check_instance(self, pll, cfg, req, dec):
        D, M, ds = dec
        P, O, I, of = inst_params(pll, self.prims)
        bad = []

        def want(name, val, exact=True):
            got = P.get(name)
            if not (num_eq(got, val) if exact else (as_exact_number(got) is not None and close(got, val, 1e-9))):
                bad.append(("inst." + name, "%s.%s = %r but configuration says %r" % (of, name, got, val)))
        nm = self.name
        if nm == "S6DCM":
            want("CLKFX_MULTIPLY", M)
            want("CLKFX_DIVIDE", fr(ds[0]) * fr(D))
            want("CLKIN_PERIOD", Fr(10**9) / fr(req.fin), exact=False)
            if O.get("CLKFX") is not pll.clkouts[0][0]:
                bad.append(("inst.port", "CLKFX is not the requested output signal"))
            return bad
        mmcm = "MMCM" in nm
        want("CLKFBOUT_MULT_F" if mmcm else "CLKFBOUT_MULT", M)
        want("DIVCLK_DIVIDE", D)
        want("CLKIN1_PERIOD", Fr(10**9) / fr(req.fin), exact=False)
        for n, (f, p, m) in enumerate(req.outs):
            dn = "CLKOUT%d_DIVIDE_F" % n if (mmcm and n == 0) else "CLKOUT%d_DIVIDE" % n
            want(dn, ds[n])
            want("CLKOUT%d_PHASE" % n, p)
            if O.get("CLKOUT%d" % n) is not pll.clkouts[n][0]:
                bad.append(("inst.port", "CLKOUT%d is not the signal of requested output %d" % (n, n)))
        for k in P:
            if k.startswith("CLKOUT") and "_DIVIDE" in k and int(k[6]) >= len(req.outs):
                bad.append(("inst.extra", "divider %s emitted for an output that was not requested" % k))
        return bad

    def used_nontrivially(self, dec):
        D, M, ds = dec
        return dict(input_div_gt1=int(fr(D) > 1), fractional_div=int(any(fr(d).denominator != 1 for d in ds)),
                    fractional_mult=int(fr(M).denominator != 1))


class XilinxUSPMMCM(Xilinx):
    """USPMMCM overrides compute_config: multiplier and CLKOUT0 divider lattices are written in the function body
    (2.0 .. 128.0 step 0.125, quoting UG572); CLKOUT0 has *only* that lattice (no divide-by-1)."""
    LATTICE = Arith(2, Fr(1, 8), 1024 - 16 + 1)

    def mult_set(self, pll):
        return self.LATTICE

    def out_divs(self, pll, n):
        if n == 0:
            return self.LATTICE
        return Xilinx.out_divs(self, pll, n)


# =====================================================================================================================
class Intel(Family):
    """IntelClocking.compute_config: N (PFD window), M, C counters; the configuration carries m, vco and clk*_divide=c*n"""
    prims = ("ALTPLL",)
    GRADES = dict(CycloneIVPLL=("-6", "-7", "-8", "-8L", "-9L"), CycloneVPLL=("-C6", "-C7", "-I7", "-C8", "-A7"),
                  Cyclone10LPPLL=("-C6", "-C8", "-I7", "-A7", "-I8"), Max10PLL=("-6", "-7", "-8"),
                  StratixVPLL=("-C1", "-C2", "-C2L", "-I2", "-I2L", "-C3", "-I3", "-I3L", "-C4", "-I4"))

    def __init__(self, cls, vco_margin=None):
        Family.__init__(self, cls)
        self.vm = vco_margin

    def variants(self):
        vs = [("sg" + g, dict(speedgrade=g)) for g in self.GRADES[self.name]]
        if self.vm is not None:
            vs.append(("sg%s,vco_margin=%g" % (self.GRADES[self.name][0], self.vm), dict(speedgrade=self.GRADES[self.name][0])))
        return vs

    def post_new(self, pll, vname):
        if "vco_margin" in vname:
            pll.vco_margin = self.vm

    def in_range(self, pll, req):
        return _rng_has(getattr(pll, "clkin_freq_range", None), req.fin) and \
            all(_rng_has(getattr(pll, "clko_freq_range", None), f) for f, p, m in req.outs)

    def model(self, pll, req):
        rng, exact = _vco_rng(pll)
        cdiv = Arith.from_range(pll.c_div_range)
        return Model(req.fin, Arith.from_range(pll.n_div_range), Arith.from_range(pll.m_div_range), rng,
                     [Out(f, m, cdiv) for f, p, m in req.outs], pfd_rng=pll.clkin_pfd_freq_range, src_exact_bounds=exact,
                     chain=lambda fin, D, M, src: [fin * M, src])

    def decode(self, pll, cfg, req):
        bad = []
        M, vco = cfg.get("m"), cfg.get("vco")
        if as_exact_number(M) is None or as_exact_number(vco) is None or fr(vco) <= 0:
            return None, None, [], [("config.missing", "configuration lacks m/vco: %r" % sorted(cfg))]
        n_exact = fr(req.fin) * fr(M) / fr(vco)
        D = round(n_exact)
        if D < 1 or not close(fr(req.fin) * fr(M) / D, vco):
            return None, None, [], [("config.vco", "config['vco']=%r is not fin*m/n for any integer n (m=%r)" % (vco, M))]
        src = fr(req.fin) * fr(M) / D
        ds = []
        for k, (f, p, m) in enumerate(req.outs):
            dv = cfg.get("clk%d_divide" % k)
            if as_exact_number(dv) is None:
                bad.append(("config.missing", "no clk%d_divide" % k))
                ds.append(None)
                continue
            c = fr(dv) / D
            ds.append(c)
            if not close(cfg.get("clk%d_freq" % k, 0), src / c):
                bad.append(("config.freq", "config['clk%d_freq']=%r but fin*m/divide = %.3f" % (k, cfg.get("clk%d_freq" % k), float(src / c))))
            if not num_eq(cfg.get("clk%d_phase" % k), p):
                bad.append(("config.phase", "clk%d_phase %r != requested %r" % (k, cfg.get("clk%d_phase" % k), p)))
        return D, M, ds, bad

    def check_instance(self, pll, cfg, req, dec):
        D, M, ds = dec
        P, O, I, of = inst_params(pll, self.prims)
        bad = []
        for k, (f, p, m) in enumerate(req.outs):
            if ds[k] is None:
                continue
            if not num_eq(P.get("CLK%d_MULTIPLY_BY" % k), M):
                bad.append(("inst.CLK%d_MULTIPLY_BY" % k, "ALTPLL.CLK%d_MULTIPLY_BY = %r but m = %r" % (k, P.get("CLK%d_MULTIPLY_BY" % k), M)))
            if not num_eq(P.get("CLK%d_DIVIDE_BY" % k), fr(ds[k]) * D):
                bad.append(("inst.CLK%d_DIVIDE_BY" % k, "ALTPLL.CLK%d_DIVIDE_BY = %r but c*n = %s" % (k, P.get("CLK%d_DIVIDE_BY" % k), _s(fr(ds[k]) * D))))
            out = fr(req.fin) * fr(M) / (fr(ds[k]) * D)
            ps = Fr(10**12) / out * fr(p) / 360
            got = as_exact_number(P.get("CLK%d_PHASE_SHIFT" % k))
            if got is None or abs(got - ps) > 1:
                bad.append(("inst.CLK%d_PHASE_SHIFT" % k, "ALTPLL.CLK%d_PHASE_SHIFT = %r ps but %g deg of %.3f MHz is %.1f ps" % (
                    k, P.get("CLK%d_PHASE_SHIFT" % k), p, float(out) / 1e6, float(ps))))
        got = as_exact_number(P.get("INCLK0_INPUT_FREQUENCY"))
        if got is None or abs(got - Fr(10**12) / fr(req.fin)) > 1:
            bad.append(("inst.INCLK0_INPUT_FREQUENCY", "ALTPLL.INCLK0_INPUT_FREQUENCY = %r ps for %g Hz" % (P.get("INCLK0_INPUT_FREQUENCY"), req.fin)))
        for k in P:
            if k.startswith("CLK") and k.endswith("_DIVIDE_BY") and int(k[3:k.index("_")]) >= len(req.outs):
                bad.append(("inst.extra", "%s emitted for an output that was not requested" % k))
        return bad

    def used_nontrivially(self, dec):
        return dict(input_div_gt1=int(fr(dec[0]) > 1))


# =====================================================================================================================
class ECP5(Family):
    """ECP5PLL: vco = fin/clki_div * clkfb_div * (divider of the feedback output); the feedback output is one of the
    requested outputs (not a DPA one when expose_dpa() was called) or a spare output when fewer than nclkouts_max are
    requested."""
    prims = ("EHXPLLL",)
    LETTER = {0: "P", 1: "S", 2: "S2", 3: "S3"}

    def variants(self):
        return [("default", {}), ("dpa", {})]

    def post_new(self, pll, vname):
        self._dpa = (vname == "dpa")
        if self._dpa:
            pll.expose_dpa()

    def create(self, pll, req):
        for i, (f, p, m) in enumerate(req.outs):
            # variant "dpa": as in test_clock, every output but the first uses dynamic phase adjustment
            pll.create_clkout(ClockDomain("c20_%d" % i), f, phase=p, margin=m, uses_dpa=(i != 0))

    def in_range(self, pll, req):
        return _rng_has(pll.clki_freq_range, req.fin) and all(_rng_has(pll.clko_freq_range, f) for f, p, m in req.outs)

    def fb_allowed(self, pll, n):
        return not (n != 0 and pll.dpa_en)

    def model(self, pll, req):
        fbs = Arith.from_range(pll.clkfb_div_range)
        ods = Arith.from_range(pll.clko_div_range)
        prods = products(fbs, ods)
        nmax, nreq = pll.nclkouts_max, len(req.outs)
        allowed = [self.fb_allowed(pll, n) for n in range(nreq)]

        def post(model, w, tol):
            # feedback coupling: M = clkfb_div * b with b the divider of the feedback output
            K = w["M"]
            for b in ods.iter_in(K / fbs.hi(), K / fbs.lo()):
                a = K / b
                if not fbs.contains(a):
                    continue
                if nreq < nmax:
                    return dict(w, clkfb_div=a, fb_div=b, fb="spare")
                for n, (lo, hi, d) in enumerate(w["picks"]):
                    if allowed[n] and lo <= b and (hi is None or b <= hi):
                        return dict(w, clkfb_div=a, fb_div=b, fb=n)
            return None
        return Model(req.fin, Arith.from_range(pll.clki_div_range), prods, pll.vco_freq_range,
                     [Out(f, m, ods) for f, p, m in req.outs], pfd_rng=pll.pfd_freq_range, post=post,
                     chain=lambda fin, D, M, src: [fin / D, src] + fact_chain(fin / D, M, fbs, ods))

    def decode(self, pll, cfg, req):
        bad = []
        D, fbd, fb = cfg.get("clki_div"), cfg.get("clkfb_div"), cfg.get("clkfb")
        if as_exact_number(D) is None or as_exact_number(fbd) is None or not isinstance(fb, int) or \
                as_exact_number(cfg.get("clko%s_div" % fb)) is None:
            return None, None, [], [("config.missing", "configuration lacks clki_div/clkfb_div/clkfb/feedback divider: %r" % cfg)]
        fbo = cfg["clko%d_div" % fb]
        M = fr(fbd) * fr(fbo)
        src = fr(req.fin) / fr(D) * M
        if not close(cfg.get("vco", 0), src):
            bad.append(("config.vco", "config['vco']=%r but fin/clki_div*clkfb_div*clko%d_div = %.3f (clkfb_div=%r, feedback divider=%r)" % (
                cfg.get("vco"), fb, float(src), fbd, fbo)))
        if not Arith.from_range(pll.clkfb_div_range).contains(fbd):
            bad.append(("range.mult", "clkfb_div %r outside declared %r" % (fbd, pll.clkfb_div_range)))
        if not Arith.from_range(pll.clko_div_range).contains(fbo):
            bad.append(("range.outdiv", "feedback output divider %r outside declared %r" % (fbo, pll.clko_div_range)))
        if not (0 <= fb < pll.nclkouts_max):
            bad.append(("range.fb", "feedback output index %r outside 0..%d" % (fb, pll.nclkouts_max - 1)))
        if fb < len(req.outs) and not self.fb_allowed(pll, fb):
            bad.append(("sound.fb_dpa", "feedback taken from output %d which uses dynamic phase adjustment" % fb))
        ds = []
        for n, (f, p, m) in enumerate(req.outs):
            ds.append(cfg.get("clko%d_div" % n))
            if as_exact_number(ds[-1]) is None:
                bad.append(("config.missing", "no clko%d_div" % n))
                continue
            if not close(cfg.get("clko%d_freq" % n, 0), src / fr(ds[-1])):
                bad.append(("config.freq", "config['clko%d_freq']=%r but vco/div = %.3f" % (n, cfg.get("clko%d_freq" % n), float(src / fr(ds[-1])))))
            if not num_eq(cfg.get("clko%d_phase" % n), p):
                bad.append(("config.phase", "clko%d_phase %r != requested %r" % (n, cfg.get("clko%d_phase" % n), p)))
        self._fb = (fb, fbd, fbo)
        return D, M, ds, bad

    def check_instance(self, pll, cfg, req, dec):
        D, M, ds = dec
        fb, fbd, fbo = self._fb
        P, O, I, of = inst_params(pll, self.prims)
        bad = []

        def want(name, val):
            if not (num_eq(P.get(name), val) if not isinstance(val, str) else P.get(name) == val):
                bad.append(("inst." + name, "EHXPLLL.%s = %r but configuration says %r" % (name, P.get(name), val)))
        want("CLKI_DIV", D)
        want("CLKFB_DIV", fbd)
        want("FEEDBK_PATH", "INT_O" + self.LETTER.get(fb, "?"))
        want("CLKO%s_DIV" % self.LETTER.get(fb, "?"), fbo)
        want("CLKO%s_ENABLE" % self.LETTER.get(fb, "?"), "ENABLED")
        for n, (f, p, m) in enumerate(req.outs):
            L = self.LETTER[n]
            if as_exact_number(ds[n]) is None:
                continue
            want("CLKO%s_DIV" % L, ds[n])
            want("CLKO%s_ENABLE" % L, "ENABLED")
            if O.get("CLKO" + L) is not pll.clkouts[n][0]:
                bad.append(("inst.port", "CLKO%s is not the signal of requested output %d" % (L, n)))
            cp, fp = as_exact_number(P.get("CLKO%s_CPHASE" % L)), as_exact_number(P.get("CLKO%s_FPHASE" % L))
            if cp is None or fp is None or not (0 <= fp < 8):
                bad.append(("inst.CLKO%s_PHASE" % L, "missing/illegal CPHASE/FPHASE %r/%r" % (P.get("CLKO%s_CPHASE" % L), P.get("CLKO%s_FPHASE" % L))))
            else:
                d = fr(ds[n])
                deg = ((cp - (d - 1)) * 8 + fp) * 45 / d      # one VCO period = 360/d degrees, FPHASE in eighths
                if abs(deg - fr(p)) > Fr(45, 2) / d + Fr(1, 10**6):
                    bad.append(("inst.CLKO%s_PHASE" % L, "CPHASE/FPHASE %s/%s with divider %s encode %.3f deg, requested %g" % (
                        _s(cp), _s(fp), _s(d), float(deg), p)))
        for n in range(len(req.outs), 4):
            if n != fb and ("CLKO%s_DIV" % self.LETTER[n]) in P:
                bad.append(("inst.extra", "CLKO%s_DIV emitted for an output that is neither requested nor the feedback" % self.LETTER[n]))
        return bad

    def used_nontrivially(self, dec):
        fb = self._fb[0]
        return dict(input_div_gt1=int(fr(dec[0]) > 1), feedback_spare=int(fb >= len(dec[2])), feedback_on_output=int(fb < len(dec[2])))


# =====================================================================================================================
class ICE40(Family):
    prims = ("SB_PLL40_CORE", "SB_PLL40_PAD")
    has_phase = False

    def variants(self):
        return [("SB_PLL40_CORE", dict(primitive="SB_PLL40_CORE")), ("SB_PLL40_PAD", dict(primitive="SB_PLL40_PAD"))]

    def in_range(self, pll, req):
        return _rng_has(pll.clki_freq_range, req.fin) and all(_rng_has(pll.clko_freq_range, f) for f, p, m in req.outs)

    def model(self, pll, req):
        one = lambda rng: Arith(fr(rng[0]) + 1, 1, rng[1] - rng[0])        # register value r encodes a divide by r+1
        q = Explicit(2 ** i for i in range(*pll.divq_range))
        return Model(req.fin, one(pll.divr_range), one(pll.divf_range), pll.vco_freq_range,
                     [Out(f, m, q) for f, p, m in req.outs], chain=lambda fin, D, M, src: [fin / D, src])

    def decode(self, pll, cfg, req):
        bad = []
        r, f_, q = cfg.get("divr"), cfg.get("divf"), cfg.get("divq")
        if not all(isinstance(x, int) for x in (r, f_, q)):
            return None, None, [], [("config.missing", "configuration lacks integer divr/divf/divq: %r" % cfg)]
        src = fr(req.fin) / (r + 1) * (f_ + 1)
        if not close(cfg.get("vco", 0), src):
            bad.append(("config.vco", "config['vco']=%r but fin/(divr+1)*(divf+1) = %.3f" % (cfg.get("vco"), float(src))))
        if not close(cfg.get("clkout_freq", 0), src / 2 ** q):
            bad.append(("config.freq", "config['clkout_freq']=%r but vco/2^divq = %.3f" % (cfg.get("clkout_freq"), float(src / 2 ** q))))
        return r + 1, f_ + 1, [2 ** q] if q >= 0 else [None], bad

    def check_instance(self, pll, cfg, req, dec):
        P, O, I, of = inst_params(pll, (pll.primitive,))
        bad = []
        for k in ("divr", "divf", "divq"):
            if not num_eq(P.get(k.upper()), cfg.get(k)):
                bad.append(("inst." + k.upper(), "%s.%s = %r but configuration says %r" % (of, k.upper(), P.get(k.upper()), cfg.get(k))))
        if O.get("PLLOUTGLOBAL") is not pll.clkouts[0][0]:
            bad.append(("inst.port", "PLLOUTGLOBAL is not the requested output signal"))
        return bad

    def used_nontrivially(self, dec):
        return dict(input_div_gt1=int(fr(dec[0]) > 1))


# =====================================================================================================================
class NX(Family):
    """NXPLL: vco = fin / clki_div * clkfb_div, outputs vco / clko_div.  vco_in_freq_range is the declared window of the
    reference after the input divider (phase detector input)."""
    prims = ("PLL",)
    LETTER = {0: "P", 1: "S", 2: "S2", 3: "S3", 4: "S4"}

    def variants(self):
        return [("default", {})]

    def create(self, pll, req):
        for i, (f, p, m) in enumerate(req.outs):
            pll.create_clkout(ClockDomain("c20_%d" % i), f, phase=p, margin=m)

    def prepare_finalize(self, pll, req):
        # The analog loop-filter parameter fit (0.3 s, prints) is not part of the property: stubbed on the instance,
        # except for requests flagged "analog" (one per input frequency) which run it for real.
        if "analog" not in req.flags:
            pll.calculate_analog_parameters = lambda *a, **k: {}

    def in_range(self, pll, req):
        return _rng_has(pll.clki_freq_range, req.fin) and all(_rng_has(pll.clko_freq_range, f) for f, p, m in req.outs)

    def model(self, pll, req):
        od = Arith.from_range(pll.clko_div_range)
        return Model(req.fin, Arith.from_range(pll.clki_div_range), Arith.from_range(pll.clkfb_div_range),
                     pll.vco_out_freq_range, [Out(f, m, od) for f, p, m in req.outs], pfd_rng=pll.vco_in_freq_range,
                     chain=lambda fin, D, M, src: [fin / D, src])

    def decode(self, pll, cfg, req):
        bad = []
        D, M = cfg.get("clki_div"), cfg.get("clkfb_div")
        if as_exact_number(D) is None or as_exact_number(M) is None:
            return None, None, [], [("config.missing", "configuration lacks clki_div/clkfb_div: %r" % cfg)]
        src = fr(req.fin) / fr(D) * fr(M)
        if not close(cfg.get("vco", 0), src):
            bad.append(("config.vco", "config['vco']=%r but fin/clki_div*clkfb_div = %.3f" % (cfg.get("vco"), float(src))))
        ds = []
        for n, (f, p, m) in enumerate(req.outs):
            ds.append(cfg.get("clko%d_div" % n))
            if as_exact_number(ds[-1]) is None:
                bad.append(("config.missing", "no clko%d_div" % n))
                continue
            if not close(cfg.get("clko%d_freq" % n, 0), src / fr(ds[-1])):
                bad.append(("config.freq", "config['clko%d_freq']=%r but vco/div = %.3f" % (n, cfg.get("clko%d_freq" % n), float(src / fr(ds[-1])))))
            if not num_eq(cfg.get("clko%d_phase" % n), p):
                bad.append(("config.phase", "clko%d_phase %r != requested %r" % (n, cfg.get("clko%d_phase" % n), p)))
        return D, M, ds, bad

    def check_instance(self, pll, cfg, req, dec):
        D, M, ds = dec
        P, O, I, of = inst_params(pll, self.prims)
        bad = []

        def want(name, val):
            if P.get(name) != val:
                bad.append(("inst." + name, "PLL.%s = %r but configuration says %r" % (name, P.get(name), val)))
        want("REF_MMD_DIG", str(D))           # reference (input) divider
        want("DIVF", str(M - 1))              # feedback divider on CLKOS5, register = value - 1
        want("FBK_MMD_DIG", "1")
        want("SEL_FBK", "FBKCLK5")
        for n, (f, p, m) in enumerate(req.outs):
            if as_exact_number(ds[n]) is None:
                continue
            L, A = self.LETTER[n], chr(65 + n)
            want("DIV" + A, str(ds[n] - 1))
            want("ENCLK_CLKO" + L, "ENABLED")
            if O.get("CLKO" + L) is not pll.clkouts[n][0]:
                bad.append(("inst.port", "CLKO%s is not the signal of requested output %d" % (L, n)))
            try:
                dl = int(P.get("DEL" + A))
                deg = Fr(dl - (ds[n] - 1)) * 360 / ds[n]          # delay in VCO cycles beyond the divider's own
                if abs(deg - fr(p)) >= Fr(360) / ds[n] + Fr(1, 10**6):
                    bad.append(("inst.DEL" + A, "DEL%s=%r with divider %r encodes %.3f deg, requested %g" % (A, P.get("DEL" + A), ds[n], float(deg), p)))
            except (TypeError, ValueError):
                bad.append(("inst.DEL" + A, "DEL%s=%r is not a number" % (A, P.get("DEL" + A))))
        for n in range(len(req.outs), 5):
            if "DIV" + chr(65 + n) in P:
                bad.append(("inst.extra", "DIV%s emitted for an output that was not requested" % chr(65 + n)))
        return bad

    def used_nontrivially(self, dec):
        return dict(input_div_gt1=int(fr(dec[0]) > 1))


# =====================================================================================================================
class Gowin1(Family):
    """GW1NPLL / GW2APLL (rPLL / PLLVR): CLKOUT = fin*fdiv/idiv, VCO = CLKOUT*odiv; the other ports are CLKOUT/1 with a
    phase (CLKOUTP), CLKOUT/3 (CLKOUTD3) and CLKOUT/SDIV with SDIV even in 2..128 (CLKOUTD).
    The loops of compute_config are written with literal bounds: idiv, fdiv in 1..63, odiv in the listed values."""
    prims = ("rPLL", "PLLVR")
    IDIV = Arith(1, 1, 63)
    FDIV = Arith(1, 1, 63)
    ODIV = (2, 4, 8, 16, 32, 48, 64, 80, 96, 112, 128)
    SDIV = Arith(2, 2, 64)          # "an even value [2-128]"
    DEVICES = dict(
        GW1NPLL=[("GW1NSR-4C", "GW1NSR-LV4CQN48PC7/I6"), ("GW1NS-4", "GW1NS-LV4CQN48C5/I4"), ("GW1N-1S", "GW1N-1S-LV1SCS30C6/I5"),
                 ("GW1N-9C", "GW1NR-LV9QN88PC6/I5")],
        GW2APLL=[("GW2A-18C", "GW2A-LV18PG256C8/I7"), ("GW2AR-18C", "GW2AR-LV18QN88C8/I7")])

    def variants(self):
        return [(dev, dict(devicename=dn, device=dev)) for dn, dev in self.DEVICES[self.name]]

    def in_range(self, pll, req):
        return True          # no input/output frequency range is declared

    def primary(self, req):
        return max(f for f, p, m in req.outs)

    def rule_suffix(self, req):
        return "" if req.outs[0][0] == self.primary(req) else ".unordered"     # first output is not the highest one

    def structure(self, req):
        """port assignment of the documented structure when every output is an exact legal ratio of the highest
        requested frequency; None (with a reason) otherwise"""
        fmax = fr(self.primary(req))
        ks, ports = [], []
        for f, p, m in req.outs:
            k = fmax / fr(f)
            if k.denominator != 1:
                return None, "output %g is not an integer fraction of the highest output" % f
            ks.append(int(k))
        if len(set(m for f, p, m in req.outs)) != 1:
            return None, "margins differ between outputs"
        sd = sorted(set(k for k in ks if k not in (1, 3)))
        if len(sd) > 1 or (sd and not self.SDIV.contains(sd[0])):
            return None, "needs more than one / an illegal CLKOUTD divider"
        if ks.count(3) > 1 or (sd and ks.count(sd[0]) > 1):
            return None, "two outputs on one divided port"
        ones = [(p != 0) for (f, p, m), k in zip(req.outs, ks) if k == 1]
        if ones.count(False) > 1 or ones.count(True) > 1:
            return None, "two outputs on CLKOUT or on CLKOUTP"
        if len(set(p for f, p, m in req.outs if p != 0)) > 1:
            return None, "more than one non-zero phase"
        if any(p != 0 and (p % 22.5 != 0 or not 0 < p < 360) for f, p, m in req.outs):
            return None, "phase is not a multiple of 22.5 degrees"
        return ks, None

    def ref_applicable(self, pll, req):
        # compute_config picks the VCO for the highest output alone and derives the others by integer division: by
        # design it is only complete for requests that have this structure.
        ks, why = self.structure(req)
        return why

    def model(self, pll, req):
        rng, exact = _vco_rng(pll)
        od = [fr(x) for x in self.ODIV]

        def vco_ok(src, ex, tol):
            return any(tol.inside(src * o, rng, ex if exact else FALSE) for o in od)
        fmax = self.primary(req)
        m = [mm for f, p, mm in req.outs if f == fmax][0]
        return Model(req.fin, self.IDIV, self.FDIV, (rng[0] / max(od), rng[1] / min(od)), [Out(fmax, m, Explicit([1]))],
                     pfd_rng=pll.pfd_freq_range, src_exact_bounds=exact, src_pred=vco_ok,
                     chain=lambda fin, D, M, src: [fin * M, src] + [src * o for o in od])

    def sound_model(self, pll, req, dec):
        """soundness model: every requested output with the divider of the port it was routed to (the VCO window is
        checked in decode because it involves odiv)"""
        route = dec[2]
        return Model(req.fin, self.IDIV, self.FDIV, (0, 10**15),
                     [Out(f, m, Explicit([1, 3]) if k in (1, 3) else self.SDIV) for (f, p, m), k in zip(req.outs, route)],
                     pfd_rng=pll.pfd_freq_range)

    def decode(self, pll, cfg, req):
        bad = []
        D, M, od = cfg.get("idiv"), cfg.get("fdiv"), cfg.get("odiv")
        if not all(isinstance(x, int) for x in (D, M, od)):
            return None, None, [], [("config.missing", "configuration lacks integer idiv/fdiv/odiv: %r" % sorted(cfg))]
        src = fr(req.fin) * M / D
        rng, _ = _vco_rng(pll)
        if od not in self.ODIV:
            bad.append(("range.odiv", "odiv %r is not one of %r" % (od, self.ODIV)))
        if not WIDE.inside(src * od, rng):
            bad.append(("range.vco", "VCO = CLKOUT*odiv = %.6f MHz outside declared [%g, %g] MHz" % (float(src * od) / 1e6, float(rng[0]) / 1e6, float(rng[1]) / 1e6)))
        if not close(cfg.get("vco", 0), src * od):
            bad.append(("config.vco", "config['vco']=%r but fin*fdiv/idiv*odiv = %.3f" % (cfg.get("vco"), float(src * od))))
        # which port carries which requested output
        sdiv = cfg.get("SDIV_SEL")
        route = []
        for n, (f, p, m) in enumerate(req.outs):
            sig = pll.clkouts[n][0]
            ports = [k for k in ("CLKOUT", "CLKOUTP", "CLKOUTD", "CLKOUTD3") if cfg.get(k) is sig]
            if len(ports) != 1:
                bad.append(("sound.unrouted", "requested output %d (%g Hz) is connected to %s PLL port" % (n, f, "no" if not ports else "more than one")))
                route.append(None)
                continue
            port = ports[0]
            if port in ("CLKOUTD", "CLKOUTD3"):
                want_src = "CLKOUT" if p == 0 else "CLKOUTP"
                if cfg.get(port + "_SRC") != want_src:
                    bad.append(("config.phase", "%s_SRC=%r but the output's phase %g needs %s" % (port, cfg.get(port + "_SRC"), p, want_src)))
            elif (port == "CLKOUTP") != (p != 0):
                bad.append(("config.phase", "output %d with phase %g routed to %s" % (n, p, port)))
            route.append(dict(CLKOUT=1, CLKOUTP=1, CLKOUTD3=3).get(port, sdiv))
        nz = sorted(set(p for f, p, m in req.outs if p != 0))
        if nz:
            want_psda = "{:04b}".format(int(nz[0] // 22.5))
            if cfg.get("PSDA_SEL") != want_psda:
                bad.append(("config.phase", "PSDA_SEL=%r but phase %g is %s in 22.5 degree steps" % (cfg.get("PSDA_SEL"), nz[0], want_psda)))
        self._route = route
        self._od = od
        return D, M, route, bad

    def check_instance(self, pll, cfg, req, dec):
        D, M, route = dec
        P, O, I, of = inst_params(pll, self.prims)
        bad = []

        def want(name, val):
            got = P.get(name)
            if not (got == val if isinstance(val, str) else num_eq(got, val)):
                bad.append(("inst." + name, "%s.%s = %r but configuration says %r" % (of, name, got, val)))
        want("IDIV_SEL", D - 1)
        want("FBDIV_SEL", M - 1)
        want("ODIV_SEL", self._od)
        want("DYN_SDIV_SEL", cfg.get("SDIV_SEL"))
        want("PSDA_SEL", cfg.get("PSDA_SEL"))
        for port in ("CLKOUT", "CLKOUTP", "CLKOUTD", "CLKOUTD3"):
            if cfg.get(port) is not None and O.get(port) is not cfg.get(port):
                bad.append(("inst.port", "%s is not the signal the configuration routes there" % port))
            if port in ("CLKOUTD", "CLKOUTD3") and cfg.get(port) is not None:
                want(port + "_SRC", cfg.get(port + "_SRC"))
        return bad

    def used_nontrivially(self, dec):
        return dict(input_div_gt1=int(dec[0] > 1))


# =====================================================================================================================
class Gowin5(Family):
    """GW5APLL: vco = fin/idiv*fdiv*mdiv, out = vco/odiv.  Ranges as written in the source: loops idiv, fdiv in 1..63,
    mdiv in 2..127; do_finalize's parameter comments give ODIV 1-128.  A non-zero phase adds the helper's own
    phase-granularity condition, so the completeness oracle is applied to phase-0 requests only."""
    prims = ("PLLA", "PLL")
    IDIV = Arith(1, 1, 63)
    FDIV = Arith(1, 1, 63)
    MDIV = Arith(2, 1, 126)
    ODIV = Arith(1, 1, 128)
    DEVICES = [("GW5A-25A", "GW5A-LV25MG121NES"), ("GW5AST-138", "GW5AST-LV138FPG676AES")]

    def variants(self):
        return [(dev, dict(devicename=dn, device=dev)) for dn, dev in self.DEVICES]

    def ref_applicable(self, pll, req):
        if any(p != 0 for f, p, m in req.outs):
            return "non-zero phase: the helper ties phase granularity to the frequency margin (its own rule)"
        return None

    def model(self, pll, req):
        rng, exact = _vco_rng(pll)
        prods = products(self.FDIV, self.MDIV)
        return Model(req.fin, self.IDIV, prods, rng, [Out(f, m, self.ODIV) for f, p, m in req.outs],
                     pfd_rng=pll.pfd_freq_range, src_exact_bounds=exact,
                     chain=lambda fin, D, M, src: [fin / D, src] + fact_chain(fin / D, M, self.FDIV, self.MDIV))

    def decode(self, pll, cfg, req):
        bad = []
        D, fd, md = cfg.get("idiv"), cfg.get("fdiv"), cfg.get("mdiv")
        if not all(isinstance(x, int) for x in (D, fd, md)):
            return None, None, [], [("config.missing", "configuration lacks integer idiv/fdiv/mdiv: %r" % sorted(cfg))]
        if not self.FDIV.contains(fd):
            bad.append(("range.mult", "fdiv %r outside 1..63" % fd))
        if not self.MDIV.contains(md):
            bad.append(("range.mult", "mdiv %r outside 2..127" % md))
        src = fr(req.fin) / D * fd * md
        if not close(cfg.get("vco", 0), src):
            bad.append(("config.vco", "config['vco']=%r but fin/idiv*fdiv*mdiv = %.3f" % (cfg.get("vco"), float(src))))
        ds = [cfg.get("odiv%d" % n) for n in range(len(req.outs))]
        for n, d in enumerate(ds):
            if not isinstance(d, int):
                bad.append(("config.missing", "no odiv%d" % n))
                ds[n] = None
        self._parts = (fd, md)
        return D, fd * md, ds, bad

    def check_instance(self, pll, cfg, req, dec):
        D, M, ds = dec
        fd, md = self._parts
        P, O, I, of = inst_params(pll, self.prims)
        bad = []

        def want(name, val):
            got = P.get(name)
            if not (got == val if isinstance(val, str) else num_eq(got, val)):
                bad.append(("inst." + name, "%s.%s = %r but configuration says %r" % (of, name, got, val)))
        want("IDIV_SEL", D)
        want("FBDIV_SEL", fd)
        want("MDIV_SEL", md)
        for n, (f, p, m) in enumerate(req.outs):
            if ds[n] is None:
                continue
            want("ODIV%d_SEL" % n, ds[n])
            want("CLKOUT%d_EN" % n, "TRUE")
            if O.get("CLKOUT%d" % n) is not pll.clkouts[n][0]:
                bad.append(("inst.port", "CLKOUT%d is not the signal of requested output %d" % (n, n)))
        return bad

    def used_nontrivially(self, dec):
        return dict(input_div_gt1=int(dec[0] > 1))


# =====================================================================================================================
# Oscillators with one programmable divider (no PLL): the "configuration" is the divider
class NXOsc(Family):
    """NXOSCA: 450 MHz / (div + 1), div in range(*clk_hf_div_range), for the HFCLKOUT and the HFSDCOUT outputs.
    Request: one output per flag, flags name the outputs ("hf", "sdc") in the order they are created."""
    prims = ("OSCA",)
    has_phase = False

    def drive(self, variant, req, timeout=60):
        r = Result()
        _tracer.classname_to_objs.clear()
        _tracer.name_to_idx.clear()
        try:
            with watchdog(timeout), contextlib.redirect_stdout(io.StringIO()):
                osc = self.cls()
                r.pll = osc
                r.stage = "clkout"
                for i, ((f, p, m), which) in enumerate(zip(req.outs, req.flags)):
                    (osc.create_hf_clk if which == "hf" else osc.create_hfsdc_clk)(ClockDomain("c20_%d" % i), f, margin=m)
                r.stage = "finalize"
                orig, got = osc.compute_divisor, []

                def capture(*a, **k):
                    r.stage = "search"
                    r.searched = True
                    v = orig(*a, **k)
                    got.append(v)
                    r.stage = "finalize"
                    return v
                osc.compute_divisor = capture
                osc.do_finalize()
                # do_finalize asks for the HF divisor first, then the SDC one
                order = [w for w in ("hf", "sdc") if w in req.flags]
                r.config = dict(zip(order, got)) if len(got) == len(order) else dict(calls=got)
                r.stage = "done"
        except Timeout:
            raise
        except Exception as e:
            r.exc = e
        return r

    def in_range(self, pll, req):
        return all(_rng_has(pll.clk_hf_freq_range, f) for f, p, m in req.outs)

    def model(self, pll, req):
        lo, hi = pll.clk_hf_div_range
        divs = Arith(fr(lo) + 1, 1, hi - lo)
        src = fr(pll.clk_hf_freq)
        one = Explicit([1])
        return Model(src, one, one, (src, src), [Out(f, m, divs) for f, p, m in req.outs], chain=lambda fin, D, M, s: [s])

    def decode(self, pll, cfg, req):
        ds, bad = [], []
        for which in req.flags:
            v = cfg.get(which)
            try:
                ds.append(int(v) + 1)
            except (TypeError, ValueError):
                bad.append(("config.missing", "no divisor for output %r: %r" % (which, cfg)))
                ds.append(None)
        return 1, 1, ds, bad

    def check_instance(self, pll, cfg, req, dec):
        P, O, I, of = inst_params(pll, self.prims)
        bad = []
        names = dict(hf=("HF_CLK_DIV", "HFCLKOUT", "hf_clk_out"), sdc=("HF_SED_SEC_DIV", "HFSDCOUT", "hfsdc_clk_out"))
        for which in req.flags:
            par, port, attr = names[which]
            if P.get(par) != cfg.get(which):
                bad.append(("inst." + par, "OSCA.%s = %r but the computed divisor is %r" % (par, P.get(par), cfg.get(which))))
            if O.get(port) is not getattr(pll, attr)[0]:
                bad.append(("inst.port", "%s is not the requested output signal" % port))
        return bad


class GowinOsc(Family):
    """GW1NOSC(device, freq, margin): the constructor picks FREQ_DIV in range(*osc_div_range) and emits the OSC primitive;
    there is no separate configuration object, the emitted FREQ_DIV is the configuration.  The oscillator frequency is a
    local of the constructor: 250 MHz, 210 MHz on the GW1N-4 family (datasheet values mirrored here)."""
    prims = ("OSC",)
    has_phase = False
    DEVICES = [("GW1NR-9", 250e6), ("GW1N-4", 210e6)]

    def variants(self):
        return [(d, dict(device=d)) for d, f in self.DEVICES]

    def drive(self, variant, req, timeout=60):
        r = Result()
        _tracer.classname_to_objs.clear()
        _tracer.name_to_idx.clear()
        self._src = dict(self.DEVICES)[variant[1]["device"]]
        r.pll = self.cls                      # range attributes live on the class; no object exists after a refusal
        r.stage = "search"
        r.searched = True
        try:
            with watchdog(timeout):
                (f, p, m), = req.outs
                osc = self.cls(variant[1]["device"], f, margin=m)
                r.pll = osc
                P, O, I, of = inst_params(osc, self.prims)
                r.config = dict(FREQ_DIV=P.get("FREQ_DIV"), DEVICE=P.get("DEVICE"))
                r.stage = "done"
        except Timeout:
            raise
        except Exception as e:
            r.exc = e
        return r

    def model(self, pll, req):
        src = fr(self._src)
        one = Explicit([1])
        return Model(src, one, one, (src, src), [Out(f, m, Arith.from_range(pll.osc_div_range)) for f, p, m in req.outs],
                     chain=lambda fin, D, M, s: [s])

    def decode(self, pll, cfg, req):
        d = cfg.get("FREQ_DIV")
        if not isinstance(d, int):
            return None, None, [], [("config.missing", "no integer FREQ_DIV on the OSC instance: %r" % cfg)]
        return 1, 1, [d], []

    def check_instance(self, pll, cfg, req, dec):
        bad = []
        if cfg.get("DEVICE") != self._dev(pll):
            bad.append(("inst.DEVICE", "OSC.DEVICE = %r" % cfg.get("DEVICE")))
        return bad

    def _dev(self, pll):
        P, O, I, of = inst_params(pll, self.prims)
        return P.get("DEVICE")


# =====================================================================================================================
class GateMate(Family):
    """GateMatePLL (CC_PLL): no divider search - the primitive receives REF_CLK / OUT_CLK in MHz and the place&route tool
    derives the dividers.  What the helper computes is the base frequency (the lowest request) and the CLK180/CLK270
    doubler flags.  Model: source = base frequency, 'divider' 1 on every port, 1 or 1/2 (doubler) on CLK180/CLK270,
    margin 0.  Request: outputs (f, phase in {0, 90, 180, 270}, 0); the phase selects the port."""
    prims = ("CC_PLL",)

    def variants(self):
        return [(m, dict(perf_mode=m)) for m in ("undefined", "lowpower", "economy", "speed")]

    def drive(self, variant, req, timeout=60):
        r = Result()
        _tracer.classname_to_objs.clear()
        _tracer.name_to_idx.clear()
        try:
            with watchdog(timeout):
                pll = self.cls(**variant[1])
                r.pll = pll
                r.stage = "clkin"
                pll.register_clkin(Signal(), req.fin)
                r.stage = "clkout"
                self._sig = {}
                for i, (f, p, m) in enumerate(req.outs):
                    pll.create_clkout(ClockDomain("c20_%d" % i), f, phase=p)
                    self._sig[p] = pll._clkouts[p][0]
                r.stage = "search"
                r.searched = True
                pll.do_finalize()
                P, O, I, of = inst_params(pll, self.prims)
                r.config = {k: P.get(k) for k in ("REF_CLK", "OUT_CLK", "CLK180_DOUB", "CLK270_DOUB", "PERF_MD")}
                r.stage = "done"
        except Timeout:
            raise
        except Exception as e:
            r.exc = e
        return r

    def in_range(self, pll, req):
        return all(f <= pll._max_freq for f, p, m in req.outs)

    def ref_applicable(self, pll, req):
        ph = [p for f, p, m in req.outs]
        if len(set(ph)) != len(ph) or any(p not in (0, 90, 180, 270) for p in ph):
            return "two outputs on one port / unsupported phase: not a legal request"
        return None

    def model(self, pll, req):
        base = fr(min(f for f, p, m in req.outs))
        one = Explicit([1])
        return Model(base, one, one, (base, base),
                     [Out(f, 0, Explicit([1, Fr(1, 2)]) if p in (180, 270) else one) for f, p, m in req.outs],
                     chain=lambda fin, D, M, s: [s])

    def decode(self, pll, cfg, req):
        bad = []
        base = fr(min(f for f, p, m in req.outs))
        try:
            if not close(Fr(cfg["OUT_CLK"]) * 10**6, base, 1e-12):
                bad.append(("inst.OUT_CLK", "CC_PLL.OUT_CLK = %r MHz but the lowest requested output is %g Hz" % (cfg["OUT_CLK"], float(base))))
            if not close(Fr(cfg["REF_CLK"]) * 10**6, fr(req.fin), 1e-12):
                bad.append(("inst.REF_CLK", "CC_PLL.REF_CLK = %r MHz but the input is %g Hz" % (cfg["REF_CLK"], req.fin)))
        except (TypeError, ValueError, KeyError):
            bad.append(("config.missing", "REF_CLK/OUT_CLK are not decimal strings: %r" % cfg))
        ds = []
        for f, p, m in req.outs:
            ds.append(Fr(1, 2) if (p in (180, 270) and cfg.get("CLK%d_DOUB" % p) == 1) else 1)
        return 1, 1, ds, bad

    def check_instance(self, pll, cfg, req, dec):
        P, O, I, of = inst_params(pll, self.prims)
        bad = []
        for f, p, m in req.outs:
            if O.get("CLK%d" % p) is not self._sig.get(p):
                bad.append(("inst.port", "CLK%d is not the signal of the output requested with phase %d" % (p, p)))
        if P.get("PERF_MD") != pll._perf_mode:
            bad.append(("inst.PERF_MD", "PERF_MD = %r" % P.get("PERF_MD")))
        return bad
