"""C19 — serial peripherals and timers produce exact waveforms and always finish (DESIGN.md §4 C19, §4b).

One configuration = one real LiteX core (elaborated by its own constructor, with a real CSRBank where the core has CSRs) closed with a
non-deterministic environment and a protocol monitor written from the standard / the core's documentation; explored to closure by fsmc."""
import fsmc  # noqa
from fsmc.explore import Explorer, replay_stock
from fsmc.design import MachineryError

PROPERTY = "C19"
LEVEL = "model_checking"
RULE = ("BFS to closure of (real peripheral FHDL x environment x protocol monitor): every byte/word of the stated alphabet offered at every "
        "cycle (= every divider / accumulator phase), back-to-back and overlapping commands, every slave/line response allowed by the protocol, "
        "every CSR write of the stated alphabet at every cycle for the counters; a state is distinct by (all registers of the core, environment, monitor)")
ASSUMPTIONS = [
    "2-state zero-delay FHDL semantics of litex.gen.sim; CSR writes act one cycle after the bus write (CSRStorage.storage / re), CSR bus 32 bit",
    "UART: bit period N = 2^32/tuning_word in {3, 4, 5 1/3, 8} (TX) and 8 / 50 (RX) clocks; every bit boundary of the transmitter within +-1 clock of k*N, frame length within "
    "+-1 clock of 10*N; the sink holds valid/data until ready (stream rule); the receiver's line is an ideal transmitter at P, P*0.98, P*1.02 with every sub-clock start "
    "phase on a 1/G grid, a sample taken exactly on a line edge may see either level (first flop of the MultiReg); after a frame with a 0 stop bit the line idles >= 2 clocks; "
    "a break holds the line low >= 11 bit periods; glitches shorter than a frame are not generated (the receiver has no start-bit verification)",
    "SPIMaster: clk_divider in 2..5 (dividers < 2 are outside the documented range), length in 1..data_width (length 0 and > data_width excluded), length/cs/cs_mode/loopback/divider "
    "are only changed while done = 1; overlapping start pulses keep length unchanged; MISO comes from a mode-0 slave model that changes it only with the chip select "
    "or in the cycle in which the clock pin is seen low after being high (stable between falling pin-clock edges), deselected level = 1",
    "SPISlave: ideal mode-0 master with half period 3..5 system clocks (2 is too fast for the 2-flop synchronisers + edge detector: MISO arrives late), chip select asserted 3 or 5 clocks "
    "before the first rising edge, released >= half period + 1 after the last falling edge, >= 4 clocks between transfers; start / irq / done are expected within 4 clocks of the chip-select edge; "
    "the word to send is stable from the chip-select edge on; transfers of 0..data_width clocks",
    "I2CMaster: commands are written only while the machine reports idle (software polls the idle bit), one command bit per write (compound commands are marked TODO in i2c.py), "
    "read only after a byte has been written since the last (re)start, no clock stretching, the slave drives SDA only in the acknowledge slot of a write and the data slots of a read and "
    "changes it only while SCL is low; clock load values 0..2",
    "Timer / Watchdog / PWM: CSR values <= 3 (thorough: also 5); event latency is the constant register pipeline of EventSourceProcess; at reset the Timer's count is 0, which the "
    "rising-edge event source reports once (documented edge semantics, past level = 0); Timer period in periodic mode = reload + 1 cycles (0 is counted); Watchdog: time-out flag = "
    "(remaining == 0) sampled in enabled non-feed cycles, reset output while (enabled & timed out & reset mode) holds and has held for reset_delay cycles; "
    "PWM is judged in steady state only (no CSR write for period + 2 cycles), period >= 1 whenever enabled",
    "UART FIFO wrapper: software writes RXTX only after reading TXFULL = 0 since its last write; a byte the PHY delivers while RXFULL = 1 is lost (no back-pressure, documented by RXFULL); "
    "FIFO depth 2, one direction per configuration (they share only the event manager)",
    "one clock cycle after reset is not judged where a pin register resets to the active level (SPIMaster cs_n resets to 0) and the UART line idles >= 2 clocks after reset",
    "configurations whose name carries a bound (2_transfers, first_frame, lengths ..) are bounded explorations; a cap hit is reported as non-exhaustive",
]

REGISTRY = {}       # name -> (tier, factory)


def reg(name, tier, factory):
    if name in REGISTRY:
        raise MachineryError(f"duplicate configuration {name}")
    REGISTRY[name] = (tier, factory)


def _register_all():
    from checks import c19_uart as U
    # -- UART transmitter --------------------------------------------------------------------------
    for label, tw in (("3", -(-2**32//3)), ("4", 2**30), ("5.33", 3*2**28), ("8", 2**29), ("6.6", int(2**32/6.6))):
        reg(f"uart.tx(N={label})", "quick", lambda label=label, tw=tw: U.TxHarness(f"uart.tx(N={label})", tw, U.BYTES6))
    reg("uart.tx(N=4,all_bytes)", "thorough", lambda: U.TxHarness("uart.tx(N=4,all_bytes)", 2**30, range(256)))
    reg("uart.tx(N=5.33,all_bytes)", "thorough", lambda: U.TxHarness("uart.tx(N=5.33,all_bytes)", 3*2**28, range(256)))
    # -- UART receiver -----------------------------------------------------------------------------
    from fractions import Fraction as F
    for label, ptx in (("P", F(8)), ("P-2%", F(784, 100)), ("P+2%", F(816, 100))):
        reg(f"uart.rx(P=8,line={label})", "quick", lambda label=label, ptx=ptx: U.RxHarness(f"uart.rx(P=8,line={label})", 2**29, ptx, U.BYTES6))
    for label, ptx in (("P", F(50)), ("P-2%", F(49)), ("P+2%", F(51))):
        reg(f"uart.rx(P=50,line={label})", "thorough", lambda label=label, ptx=ptx: U.RxHarness(f"uart.rx(P=50,line={label})", 2**32//50, ptx, U.BYTES24))
    for label, ptx in (("P", F(8)), ("P-2%", F(784, 100)), ("P+2%", F(816, 100))):
        ph = None if ptx.denominator == 1 else range(0, 25, 6)
        reg(f"uart.rx(P=8,line={label},24_bytes)", "thorough",
            lambda label=label, ptx=ptx, ph=ph: U.RxHarness(f"uart.rx(P=8,line={label},24_bytes)", 2**29, ptx, U.BYTES24, phases=ph, cap=3_000_000))
        reg(f"uart.rx(P=8,line={label},all_bytes,first_frame)", "thorough",
            lambda label=label, ptx=ptx, ph=ph: U.RxHarness(f"uart.rx(P=8,line={label},all_bytes,first_frame)", 2**29, ptx, range(256), phases=ph, max_frames=1))
    for label, clk, baud in (("4", 4e6, 1e6), ("3", 3e6, 1e6), ("5.33", 16e6, 3e6), ("8", 8e6, 1e6)):
        reg(f"uart.phy_loopback(N={label})", "quick", lambda label=label, clk=clk, baud=baud: U.PhyLoopHarness(f"uart.phy_loopback(N={label})", clk, baud, U.BYTES6))
    reg("uart.phy_loopback(N=4,all_bytes)", "thorough", lambda: U.PhyLoopHarness("uart.phy_loopback(N=4,all_bytes)", 4e6, 1e6, range(256)))
    reg("uart.fifos(depth=2,tx)", "quick", lambda: U.UartHarness("uart.fifos(depth=2,tx)", depth=2, side="tx"))
    reg("uart.fifos(depth=2,rx)", "quick", lambda: U.UartHarness("uart.fifos(depth=2,rx)", depth=2, side="rx"))
    reg("uart.fifos(depth=2,rx,rx_fifo_rx_we)", "quick", lambda: U.UartHarness("uart.fifos(depth=2,rx,rx_fifo_rx_we)", depth=2, rx_we=True, side="rx"))
    # -- SPI master ---------------------------------------------------------------------------------
    from checks import c19_spi as S
    def spi(name, tier, **kw):
        reg(name, tier, lambda: S.SpiMasterHarness(name, **kw))
    for div in (2, 3, 4, 5):
        for mode in ("raw", "aligned"):
            spi(f"spi.master(dw=4,div={div},{mode})", "quick", dw=4, div=div, mode=mode)
            spi(f"spi.master(dw=4,div={div},{mode},6_words,all_answers)", "thorough", dw=4, div=div, mode=mode, full_words=True, swords="all", cap=2_500_000)
    for div, mode in ((2, "raw"), (3, "aligned")):
        spi(f"spi.master(dw=8,div={div},{mode},lengths 1,2,5,8)", "thorough", dw=8, div=div, mode=mode, lengths=(1, 2, 5, 8), nwords=2, cap=3_000_000)
    spi("spi.master(dw=8,div=2,aligned,loopback,lengths 1..8)", "thorough", dw=8, div=2, mode="aligned", loopback=1, nwords=3)
    spi("spi.master(dw=4,div=2,raw,loopback)", "quick", dw=4, div=2, mode="raw", loopback=1)
    spi("spi.master(dw=4,div=3,aligned,loopback)", "quick", dw=4, div=3, mode="aligned", loopback=1)
    spi("spi.master(dw=4,div=2,aligned,cs_manual,ncs=2)", "quick", dw=4, div=2, mode="aligned", cs_mode=1, ncs=2)
    spi("spi.master(dw=4,div=3,raw,ncs=2)", "quick", dw=4, div=3, mode="raw", ncs=2)
    # clk_divider is a run-time register (add_clk_divider): programmed well above / below the value the core was built with
    spi("spi.master(dw=4,div=9,aligned,built for div=2)", "quick", dw=4, div=9, build_div=2, mode="aligned", nwords=2, lengths=(1, 3))
    spi("spi.master(dw=4,div=2,raw,built for div=5)", "quick", dw=4, div=2, build_div=5, mode="raw", nwords=2)
    spi("spi.master(dw=4,div=17,raw,built for div=3)", "thorough", dw=4, div=17, build_div=3, mode="raw", nwords=2, lengths=(1, 4))
    spi("spi.master(dw=4,div=2,aligned,csr,2_transfers)", "quick", dw=4, div=2, mode="aligned", csr=True, ncs=2, nwords=2, lengths=(2, 4))
    # -- SPI slave ----------------------------------------------------------------------------------
    def spis(name, tier, **kw):
        reg(name, tier, lambda: S.SpiSlaveHarness(name, **kw))
    spis("spi.slave(dw=4,half=3)", "quick", dw=4, half=3)
    spis("spi.slave(dw=4,half=4)", "quick", dw=4, half=4)
    spis("spi.slave(dw=4,half=3,chip select released for 1+ cycles)", "quick", dw=4, half=3, mingap=1, nwords=2)
    spis("spi.slave(dw=4,half=5,skew=1)", "quick", dw=4, half=5, skew=1)
    spis("spi.slave(dw=4,half=4,loopback)", "quick", dw=4, half=4, loopback=1)
    spis("spi.slave(dw=8,half=4)", "thorough", dw=8, half=4, nwords=4)
    # shared bus: between its own transfers the slave sees clock pulses and MOSI data addressed to another slave (cs_n high)
    spis("spi.slave(dw=4,half=3)+foreign_traffic", "quick", dw=4, half=3, foreign=2)
    spis("spi.slave(dw=4,half=4,loopback)+foreign_traffic", "thorough", dw=4, half=4, loopback=1, foreign=3)
    # -- I2C master ---------------------------------------------------------------------------------
    from checks import c19_i2c as I
    for load in (0, 1, 2):
        reg(f"i2c.master(load={load})", "quick", lambda load=load: I.I2CHarness(f"i2c.master(load={load})", load=load))
    reg("i2c.master(load=1,all_bytes)", "thorough", lambda: I.I2CHarness("i2c.master(load=1,all_bytes)", load=1, wbytes=range(256), rbytes=range(256)))
    # -- counters -----------------------------------------------------------------------------------
    from checks import c19_timers as T
    reg("timer(values<=3)", "quick", lambda: T.TimerHarness("timer(values<=3)", values=(0, 1, 2, 3)))
    reg("timer(values 0,1,5)", "thorough", lambda: T.TimerHarness("timer(values 0,1,5)", values=(0, 1, 5)))
    reg("watchdog(reset_delay=2)", "quick", lambda: T.WatchdogHarness("watchdog(reset_delay=2)", values=(0, 1, 2, 3), reset_delay=2))
    reg("watchdog(reset_delay=0)", "quick", lambda: T.WatchdogHarness("watchdog(reset_delay=0)", values=(0, 1, 3), reset_delay=0))
    reg("watchdog(reset_delay=1,halted)", "quick", lambda: T.WatchdogHarness("watchdog(reset_delay=1,halted)", values=(0, 2), reset_delay=1, with_halted=True))
    reg("pwm(period<=3)", "quick", lambda: T.PwmHarness("pwm(period<=3)"))
    reg("pwm(period 1,2,5)", "thorough", lambda: T.PwmHarness("pwm(period 1,2,5)", periods=(1, 2, 5), widths=(0, 1, 3, 5, 6)))
    for times in ((0, 2, 5), (1, 3), (0, 1, 2, 3), (2, 7), (1,), (0, 6), (0, 2), (1, 4), (0, 3, 8), (16,)):   # last event at 2^k, 2^k - 1, other
        reg(f"timeline{times}", "quick", lambda times=times: T.TimelineHarness(f"timeline{times}", times))
    for t in (1, 2, 3, 5, 8):
        reg(f"waittimer(t={t})", "quick", lambda t=t: T.WaitTimerHarness(f"waittimer(t={t})", t))


_register_all()


def configs(tier):
    return [(n,) for n, (t, f) in REGISTRY.items() if t == "quick" or tier == "thorough"]


def tuple_deep(x):
    return tuple(tuple_deep(y) for y in x) if isinstance(x, (list, tuple)) else x


def _replay(mk, H, v):
    cyc = [tuple_deep(c) for c in v["cycle"]] if v.get("cycle") else None
    q = [q for q in H.live_queries if q[0] == v["rule"]][0] if cyc else None
    return replay_stock(mk, [tuple_deep(c) for c in v["trace"]], cyc, q)


def run_config(cfg, seed, tier):
    mk = REGISTRY[cfg[0]][1]
    H = mk()
    res = Explorer(H, seed=seed).run()
    out = res.as_dict()
    for v in out["violations"]:
        rp = _replay(mk, H, v)
        v["replayed"] = dict(reproduced=rp["reproduced"], path=rp["path"], cycles=rp["cycles"])
        if not rp["reproduced"]:
            raise MachineryError(f"{cfg[0]}: violation {v['rule']} does not reproduce on the stock simulator: {rp}")
    return out


def replay(rec):
    mk = REGISTRY[rec["cfg"]][1]
    rp = _replay(mk, mk(), rec)
    return dict(cfg=rec["cfg"], rule=rec["rule"], reproduced=rp["reproduced"], err=rp["err"], path=rp["path"], cycles=rp["cycles"])
