"""C09 (AXI-full part) — AXI2AXILite, AXILite2AXI, AXI2Wishbone, Wishbone2AXI preserve memory semantics and protocol rules.

Loaded by checks/c09_bridges.py (configs / run_config / replay are appended to C09).  Environment: the AXI4 burst master
of C10 (one write burst and/or one read burst, FIXED/INCR/WRAP, len 0..3, every valid delay / ready pattern), an AXI-Lite
or Wishbone single-access master for the bridges that face the other way, and environment memory slaves (AXI-Lite, AXI4,
Wishbone) whose contents live in the environment state.  Oracle: flat byte memory computed with the AMBA equations of
checks/c10_ref.py (per byte an allowed set when the read runs concurrently with the write), one B per write burst,
len+1 R beats with last only on the final one, ids returned, slave-side valid/payload stability.

Base runs use a well-behaved slave (accepts AW no later than W, one request at a time, answers each AR before taking the
next, OKAY responses).  Every further slave behaviour is a capability named in the configuration (`+pipelined_slave`,
`+slave_w_before_aw`, `+err_responses`) — these are the runs expected to expose candidate p of DESIGN §3."""
import itertools
import fsmc  # noqa
from migen import *
from litex.soc.interconnect import wishbone
from litex.soc.interconnect.axi import AXIInterface, AXILiteInterface, AXI2AXILite, AXILite2AXI, AXI2Wishbone, Wishbone2AXI
from fsmc.explore import Explorer, replay_stock, Harness, COOP, PROGRESS
from fsmc.design import MachineryError
from checks import c10_ref as ref

ADRW, IDW = 32, 2
NWORDS = 8                  # the environment memory has 8 bus words (addresses 0 .. 8*bus bytes - 1)
WID, RID = 1, 2             # ids of the write / read burst of the AXI master
OKAY, SLVERR = 0, 2
AXF = ("addr", "len", "size", "burst", "id")


def init_byte(a):
    return (0xC0 | a) & 0xFF


def w_mark(n, lane):
    return (0x11 + 0x25 * n + 0x07 * lane) & 0xFF


class DUT(Module):
    def __init__(self, kind, dw):
        sh = (dw // 8).bit_length() - 1
        if kind == "AXI2AXILite":
            self.m, self.s = AXIInterface(dw, ADRW, id_width=IDW), AXILiteInterface(dw, ADRW)
            self.submodules.dut = AXI2AXILite(self.m, self.s)
            self.mk, self.sk = "axi", "axil"
        elif kind == "AXILite2AXI":
            self.m, self.s = AXILiteInterface(dw, ADRW), AXIInterface(dw, ADRW, id_width=IDW)
            self.submodules.dut = AXILite2AXI(self.m, self.s, write_id=WID, read_id=RID)
            self.mk, self.sk = "axil", "axi"
        elif kind == "AXI2Wishbone":
            self.m, self.s = AXIInterface(dw, ADRW, id_width=IDW), wishbone.Interface(data_width=dw, adr_width=ADRW - sh)
            self.submodules.dut = AXI2Wishbone(self.m, self.s)
            self.mk, self.sk = "axi", "wb"
        elif kind == "Wishbone2AXI":
            self.m, self.s = wishbone.Interface(data_width=dw, adr_width=ADRW - sh), AXIInterface(dw, ADRW, id_width=IDW)
            self.submodules.dut = Wishbone2AXI(self.m, self.s)
            self.mk, self.sk = "wb", "axi"
        else:
            raise ValueError(kind)


WBSIG = ("cyc", "stb", "we", "adr", "dat_w", "sel", "cti", "bte", "ack", "err", "dat_r")


def axi_port(D, itf, full):
    ax = ("valid", "ready") + (AXF if full else ("addr",))
    out = {}
    for c, names in (("aw", ax), ("ar", ax), ("w", ("valid", "ready", "data", "strb") + (("last",) if full else ())),
                     ("b", ("valid", "ready", "resp") + (("id",) if full else ())),
                     ("r", ("valid", "ready", "data", "resp") + (("id", "last") if full else ()))):
        out[c] = {n: D.i(getattr(getattr(itf, c), n)) for n in names}
    return out


class Plan:
    """Everything static about one scenario: the byte writes of the master in order, the memory afterwards and the values a
    read may return per byte."""
    def __init__(self, H, scn):
        order = scn[0]
        nl = H.nl
        NB = H.NB
        mem0 = [init_byte(a) for a in range(NB)]
        self.E = []
        if H.mk == "axi":
            addr, ln, size, burst = scn[1:]
            why = ref.illegal(addr, ln, size, burst, nl)
            if why:
                raise MachineryError(f"harness generated an illegal burst {scn}: {why}")
            self.lanes = ref.beat_bytes(addr, ln, size, burst, nl)
            self.wbeats = []
            for n, lanes in enumerate(self.lanes):
                data = sum((0xA0 | lane) << (8 * lane) for lane in range(nl))
                strb = 0
                use = lanes[1:] if (n % 4 == 1 and len(lanes) > 1) else lanes        # a sparse strobe on the second beat
                for (a, lane) in use:
                    m = w_mark(n, lane)
                    data = (data & ~(0xFF << (8 * lane))) | (m << (8 * lane))
                    strb |= 1 << lane
                    self.E.append((a, m))
                self.wbeats.append((data, strb, 1 if n == ln else 0))
            self.rbytes = [a for lanes in self.lanes for (a, lane) in lanes]
        else:
            word, strb, mark = scn[1:]
            self.data = sum((((mark << 6) | (word << 3) | (l + 1)) & 0xFF) << (8 * l) for l in range(nl))
            self.strb = strb
            for l in range(nl):
                if (strb >> l) & 1:
                    self.E.append((word * nl + l, (self.data >> (8 * l)) & 0xFF))
            self.lanes = [[(word * nl + l, l) for l in range(nl)]]
            self.rbytes = [a for (a, l) in self.lanes[0]]
        for (a, x) in self.E:
            if a >= NB:
                raise MachineryError(f"scenario {scn} writes outside the {NB}-byte memory")
        has_w, has_r = "w" in order, "r" in order
        final = list(mem0)
        written = {}
        if has_w:
            for (a, x) in self.E:
                final[a] = x
                written.setdefault(a, set()).add(x)
        self.final = tuple(final)
        self.allowed = {}
        for a in self.rbytes:
            if order in ("w>r",):
                self.allowed[a] = (final[a],)
            elif order in ("r>w", "r"):
                self.allowed[a] = (mem0[a],)
            else:
                self.allowed[a] = tuple(sorted({mem0[a]} | written.get(a, set())))


class FullBridgeHarness(Harness):
    """env = (scn, MS, SS, mem, stall)
         scn   None | (order, addr, len, size, burst) for the AXI master | (order, word, strb, mark) for AXI-Lite / Wishbone masters
               order: 'w>r' read after the write response, 'r>w', 'w|r' concurrent, 'w', 'r'
         MS    axi : ((m_aw, m_wi, m_wh, m_b), (m_ar, m_rn, m_rl, m_rerr))       m_b = 0 | 1 + resp of the B received
               axil: ((aw, w, m_b), (ar, m_rl, m_rerr))                           aw/w/ar: 0 not offered, 1 offered, 2 accepted
               wb  : (index of the current operation, request is up, err seen on the write, err seen on the read)
         SS    axil: (awq, wq, bq, b_up, arq, rcur, werr, rerr)    queues of accepted requests, responses due, sticky error flags
               axi : (aw, wn, b, b_up, ar, rn, rcur, werr, rerr)
               wb  : (latency so far, request seen last cycle, werr, rerr)
         mem   bytes of the environment memory behind the bridge
         stall per slave-side request channel the payload that must be held (valid & ~ready last cycle) or None"""
    conf_first = 20
    conf_every = 43
    cap = 1_500_000
    live_queries = (("live.stuck", COOP, PROGRESS, (),
                     "master and slave offer and accept everything they may, the transaction is not finished, nothing moves"),)

    def __init__(self, name, kind, dw=32, pipelined=False, w_before_aw=False, err=False, maxlat=1):
        self.name, self.kind, self.dw = name, kind, dw
        self.nl = dw // 8
        self.full = self.nl.bit_length() - 1
        self.NB = NWORDS * self.nl
        self.pipelined, self.w_before_aw, self.err, self.maxlat = pipelined, w_before_aw, err, maxlat
        self.Q = 3 if (pipelined or w_before_aw) else 1
        self.group = []
        self._plan = {}
        self.cov = dict(scenarios=0, finished=0, m_w_beats=0, m_r_beats=0, slave_writes=0, slave_reads=0, overlap_reads=0,
                        err_responses=0, max_queue=0)

    def set_group(self, g):
        self.group = list(g)
        self.cov["scenarios"] += len(self.group)

    def build(self):
        self.dut = DUT(self.kind, self.dw)
        self.mk, self.sk = self.dut.mk, self.dut.sk
        return self.dut

    def bind(self, D):
        d = self.dut
        self.M = axi_port(D, d.m, self.mk == "axi") if self.mk != "wb" else {n: D.i(getattr(d.m, n)) for n in WBSIG}
        self.S = axi_port(D, d.s, self.sk == "axi") if self.sk != "wb" else {n: D.i(getattr(d.s, n)) for n in WBSIG}

    def plan(self, scn):
        p = self._plan.get(scn)
        if p is None:
            p = self._plan[scn] = Plan(self, scn)
        return p

    def env_init(self):
        return (None, None, None, tuple(init_byte(a) for a in range(self.NB)), None)

    def ms0(self, scn):
        hw, hr = "w" in scn[0], "r" in scn[0]
        if self.mk == "axi":
            return ((0, 0, 0, 0) if hw else None, (0, 0, 0, 0) if hr else None)
        if self.mk == "axil":
            return ((0, 0, 0) if hw else None, (0, 0, 0) if hr else None)
        return (0, 0, 0, 0)

    def ss0(self):
        if self.sk == "axil":
            return ((), (), (), 0, (), None, 0, 0)
        if self.sk == "axi":
            return (None, 0, None, 0, None, 0, None, 0, 0)
        return (0, None, 0, 0)

    def wb_ops(self, scn):
        return {"w>r": "wr", "r>w": "rw", "w": "w", "r": "r"}[scn[0]]

    # ---- who may start what -----------------------------------------------------------------------------------
    def m_done(self, scn, MS):
        if self.mk == "wb":
            return MS[0] >= len(self.wb_ops(scn))
        W, R = MS
        wd = W is None or W[-1] != 0
        rd = R is None or R[-2] != 0
        return wd and rd

    def s_quiet(self, SS):
        if self.sk == "axil":
            awq, wq, bq, b_up, arq, rcur, werr, rerr = SS
            return not bq and not arq and rcur is None and not (awq and wq)
        if self.sk == "axi":
            aw, wn, b, b_up, ar, rn, rcur, werr, rerr = SS
            return b is None and ar is None
        return True

    def may_write(self, scn, MS):
        o = scn[0]
        if o in ("w>r", "w|r", "w"):
            return True
        R = MS[1]
        return R[-2] != 0          # r>w: after the last read beat

    def may_read(self, scn, MS):
        o = scn[0]
        if o in ("r>w", "w|r", "r"):
            return True
        W = MS[0]
        return W[-1] != 0          # w>r: after the write response

    # ---- choices ----------------------------------------------------------------------------------------------
    def choices(self, env):
        scn, MS, SS, mem, stall = env
        if scn is None:
            return [("scn",) + tuple(s) for s in self.group]
        if self.m_done(scn, MS) and self.s_quiet(SS):
            return [("end",)]
        return [(m, s) for m in self.m_choices(scn, MS) for s in self.s_choices(SS)]

    def m_choices(self, scn, MS):
        if self.mk == "wb":
            idx, up, we, re = MS
            if idx >= len(self.wb_ops(scn)):
                return [(0,)]
            return [(1,)] if up else [(0,), (1,)]
        W, R = MS
        aw_v = w_v = ar_v = (0,)
        b_r = r_r = (0, 1)
        if self.mk == "axi":
            ln = scn[2]
            if W is not None and W[3] == 0 and self.may_write(scn, MS):
                m_aw, m_wi, m_wh, m_b = W
                aw_v = {0: (0, 1), 1: (1,), 2: (0,)}[m_aw]
                w_v = ((1,) if m_wh else (0, 1)) if m_wi <= ln else (0,)
            if R is not None and not R[2] and self.may_read(scn, MS):
                ar_v = {0: (0, 1), 1: (1,), 2: (0,)}[R[0]]
        else:
            if W is not None and W[2] == 0 and self.may_write(scn, MS):
                aw_v = {0: (0, 1), 1: (1,), 2: (0,)}[W[0]]
                w_v = {0: (0, 1), 1: (1,), 2: (0,)}[W[1]]
            if R is not None and not R[1] and self.may_read(scn, MS):
                ar_v = {0: (0, 1), 1: (1,), 2: (0,)}[R[0]]
        if W is None or W[-1] != 0:
            b_r = (1,)
        if R is None or R[-2] != 0:
            r_r = (1,)
        return list(itertools.product(aw_v, w_v, b_r, ar_v, r_r))

    def s_choices(self, SS):
        e01 = (0, 1) if self.err else (0,)
        if self.sk == "wb":
            lat = SS[0]
            out = [("a",)]
            if lat < self.maxlat:
                out.append(("w",))
            if self.err:
                out.append(("e",))
            return out
        if self.sk == "axil":
            awq, wq, bq, b_up, arq, rcur, werr, rerr = SS
            if self.pipelined or self.w_before_aw:
                aw_r = (0, 1) if len(awq) < self.Q else (0,)
                w_r = (0, 1) if len(wq) < self.Q else (0,)
                ar_r = (0, 1) if (len(arq) < self.Q if self.pipelined else (not arq and rcur is None)) else (0,)
                pairs = [(a, r) for a in aw_r for r in ar_r]
            else:
                idle = not (awq or wq or bq or arq or rcur is not None)
                pairs = [(0, 0), (1, 0), (0, 1)] if idle else [(0, 0)]
                w_r = (0, 1) if (not wq and not bq and not arq and rcur is None) else (0,)
            b_v = ((1,) if b_up else (0, 1)) if bq else (0,)
            r_v = (1,) if rcur is not None else ((0, 1) if arq else (0,))
            return [(a, w, bv, be, r, rv, re) for (a, r) in pairs for w in w_r for bv in b_v for be in e01 for rv in r_v
                    for re in (e01 if (rv and rcur is None) else (0,))]
        aw, wn, b, b_up, ar, rn, rcur, werr, rerr = SS
        if self.pipelined:
            aw_r = (0, 1) if aw is None else (0,)
            ar_r = (0, 1) if ar is None else (0,)
            pairs = [(a, r) for a in aw_r for r in ar_r]
        else:
            idle = aw is None and b is None and ar is None
            pairs = [(0, 0), (1, 0), (0, 1)] if idle else [(0, 0)]
        w_r = (0, 1) if (b is None and ar is None or self.pipelined) else (0,)
        b_v = ((1,) if b_up else (0, 1)) if b is not None else (0,)
        r_v = (1,) if rcur is not None else ((0, 1) if ar is not None else (0,))
        return [(a, w, bv, be, r, rv, re) for (a, r) in pairs for w in w_r for bv in b_v for be in e01 for rv in r_v
                for re in (e01 if (rv and rcur is None) else (0,))]

    # ---- inputs -----------------------------------------------------------------------------------------------
    def mread(self, mem, word):
        base = word * self.nl
        return sum((mem[base + l] if base + l < self.NB else 0xEE) << (8 * l) for l in range(self.nl))

    def s_rbeat(self, SS, mem):
        """(data, last, id) of the read beat the AXI slave presents now"""
        aw, wn, b, b_up, ar, rn, rcur, werr, rerr = SS
        a, ln, sz, bt, i = ar
        adr, lo, up = ref.byte_lanes(a, ln, sz, bt, rn + 1, self.nl)
        return self.mread(mem, adr // self.nl), 1 if rn == ln else 0, i

    def drive(self, v, env, ch):
        scn, MS, SS, mem, stall = env
        M, S = self.M, self.S
        idle = scn is None or ch[0] in ("scn", "end")
        mc = ch[0] if not idle else None
        sc = ch[1] if not idle else None
        ones = (1 << self.dw) - 1
        # ---------------- master ----------------
        if self.mk == "wb":
            up = (not idle) and mc[0]
            if up:
                op = self.wb_ops(scn)[MS[0]]
                P = self.plan(scn)
                v[M["cyc"]] = v[M["stb"]] = 1
                v[M["adr"]], v[M["we"]] = scn[1], int(op == "w")
                v[M["sel"]] = P.strb if op == "w" else (1 << self.nl) - 1
                v[M["dat_w"]] = P.data if op == "w" else 0
            else:
                v[M["cyc"]] = v[M["stb"]] = 0
                v[M["adr"]], v[M["we"]], v[M["sel"]], v[M["dat_w"]] = (1 << (ADRW - self.full)) - 1, 1, (1 << self.nl) - 1, ones
            v[M["cti"]] = v[M["bte"]] = 0
        else:
            aw_v, w_v, b_r, ar_v, r_r = mc if not idle else (0, 0, 1, 0, 1)
            P = self.plan(scn) if scn is not None else None
            for c, val, idn in (("aw", aw_v, WID), ("ar", ar_v, RID)):
                X = M[c]
                v[X["valid"]] = val
                if self.mk == "axi":
                    if val:
                        v[X["addr"]], v[X["len"]], v[X["size"]], v[X["burst"]], v[X["id"]] = scn[1], scn[2], scn[3], scn[4], idn
                    else:
                        v[X["addr"]], v[X["len"]], v[X["size"]], v[X["burst"]], v[X["id"]] = (1 << ADRW) - 1, 0xFF, 7, 3, 0
                else:
                    v[X["addr"]] = scn[1] * self.nl if val else (1 << ADRW) - 1
            X = M["w"]
            v[X["valid"]] = w_v
            if w_v:
                if self.mk == "axi":
                    v[X["data"]], v[X["strb"]], v[X["last"]] = P.wbeats[MS[0][1]]
                else:
                    v[X["data"]], v[X["strb"]] = P.data, P.strb
            else:
                v[X["data"]], v[X["strb"]] = ones, (1 << self.nl) - 1
                if self.mk == "axi":
                    v[X["last"]] = 1
            v[M["b"]["ready"]] = b_r
            v[M["r"]["ready"]] = r_r
        # ---------------- slave ----------------
        if self.sk == "wb":
            v[S["ack"]] = v[S["err"]] = 0
            v[S["dat_r"]] = ones
            return
        aw_r, w_r, b_v, b_e, ar_r, r_v, r_e = sc if not idle else (0, 0, 0, 0, 0, 0, 0)
        v[S["aw"]["ready"]] = aw_r
        v[S["ar"]["ready"]] = ar_r
        v[S["w"]["ready"]] = 0                      # decided in react (W is accepted no earlier than its AW in base runs)
        X = S["b"]
        v[X["valid"]] = b_v
        if self.sk == "axil":
            awq, wq, bq, b_up, arq, rcur, werr, rerr = SS if SS is not None else self.ss0()
            v[X["resp"]] = bq[0] if b_v else 3
            X = S["r"]
            v[X["valid"]] = r_v
            if r_v:
                data, resp = rcur if rcur is not None else (self.mread(mem, arq[0] // self.nl), SLVERR if r_e else OKAY)
                v[X["data"]], v[X["resp"]] = data, resp
            else:
                v[X["data"]], v[X["resp"]] = ones, 3
        else:
            aw, wn, b, b_up, ar, rn, rcur, werr, rerr = SS if SS is not None else self.ss0()
            v[X["resp"]], v[X["id"]] = (b[1], b[0]) if b_v else (3, 0)
            X = S["r"]
            v[X["valid"]] = r_v
            if r_v:
                if rcur is not None:
                    data, resp = rcur
                    last, i = (1 if rn == ar[1] else 0), ar[4]
                else:
                    data, last, i = self.s_rbeat(SS, mem)
                    resp = SLVERR if r_e else OKAY
                v[X["data"]], v[X["resp"]], v[X["last"]], v[X["id"]] = data, resp, last, i
            else:
                v[X["data"]], v[X["resp"]], v[X["last"]], v[X["id"]] = ones, 3, 1, 0

    def react(self, v, env, ch):
        scn, MS, SS, mem, stall = env
        if scn is None or ch[0] in ("scn", "end"):
            return False
        S = self.S
        sc = ch[1]
        if self.sk == "wb":
            vis = v[S["cyc"]] and v[S["stb"]]
            a = 1 if (vis and sc[0] == "a") else 0
            e = 1 if (vis and sc[0] == "e") else 0
            dr = self.mread(mem, v[S["adr"]]) if (a and not v[S["we"]]) else (1 << self.dw) - 1
            if (v[S["ack"]], v[S["err"]], v[S["dat_r"]]) != (a, e, dr):
                v[S["ack"]], v[S["err"]], v[S["dat_r"]] = a, e, dr
                return True
            return False
        w_r = sc[1]
        aw_now = 1 if (v[S["aw"]["valid"]] and v[S["aw"]["ready"]]) else 0
        if self.sk == "axil":
            awq, wq = SS[0], SS[1]
            ok = self.w_before_aw or (len(awq) + aw_now > len(wq))
        else:
            ok = SS[0] is not None or aw_now
        eff = 1 if (w_r and ok) else 0
        if v[S["w"]["ready"]] != eff:
            v[S["w"]["ready"]] = eff
            return True
        return False

    # ---- monitors ---------------------------------------------------------------------------------------------
    def quiet(self, v, when):
        M, S = self.M, self.S
        if self.sk == "wb":
            if v[S["cyc"]] and v[S["stb"]]:
                return ("proto.stray_request", f"wishbone request {when}")
        else:
            for c in ("aw", "w", "ar"):
                if v[S[c]["valid"]]:
                    return ("proto.stray_request", f"slave-side {c}.valid=1 {when}")
        if self.mk == "wb":
            if v[M["ack"]] or v[M["err"]]:
                return ("resp.ack_stray", f"ack/err {when}")
        else:
            if v[M["b"]["valid"]]:
                return ("resp.b_stray", f"b.valid=1 {when}")
            if v[M["r"]["valid"]]:
                return ("resp.r_stray", f"r.valid=1 {when}")
        return None

    def sname(self, scn):
        if self.mk == "axi":
            return f"[{scn[0]}] {ref.BURST_NAMES[scn[4]]} addr={scn[1]:#x} len={scn[2]} size={scn[3]}"
        return f"[{scn[0]}] word={scn[1]} strb={scn[2]:#b}"

    def apply(self, mem, word, data, strb):
        ml = list(mem)
        for l in range(self.nl):
            if (strb >> l) & 1:
                ml[word * self.nl + l] = (data >> (8 * l)) & 0xFF
        return tuple(ml)

    def observe(self, v, env, ch):
        scn, MS, SS, mem, stall = env
        M, S = self.M, self.S
        if scn is None:
            err = self.quiet(v, "before any request")
            if err:
                return env, err, 0
            scn = tuple(ch[1:])
            return (scn, self.ms0(scn), self.ss0(), mem, None), None, 0
        P = self.plan(scn)
        nm = self.sname(scn)
        if ch[0] == "end":
            err = self.quiet(v, "after the transaction(s) completed")
            if err:
                return env, (err[0], f"{nm}: {err[1]}"), 0
            # back to back: the same scenario starts again from whatever state the bridge was left in (a state seen before
            # unless the bridge kept something).  The environment memory is put back to its initial contents while every
            # channel is quiet, which no bridge here can observe (none of them caches data).
            return self.env_init(), None, 0
        mc, sc = ch
        prog, coop = False, True
        cov = self.cov
        # ======================= slave side =======================
        snap = None
        mem2 = mem
        if self.sk == "wb":
            lat, last, werr, rerr = SS
            vis = v[S["cyc"]] and v[S["stb"]]
            SS2 = (0, None, werr, rerr)
            if vis:
                req = (v[S["adr"]], v[S["we"]], v[S["sel"]], v[S["dat_w"]] if v[S["we"]] else 0)
                if (req[0] + 1) * self.nl > self.NB:
                    return env, ("addr.range", f"{nm}: wishbone address {req[0]:#x} outside the {self.NB}-byte memory"), 0
                if last is not None and req != last:
                    return env, ("proto.wb_unstable", f"{nm}: wishbone request changed while waiting for ack: {last} -> {req}"), 0
                if sc[0] == "a":
                    prog = True
                    if req[1]:
                        mem2 = self.apply(mem, req[0], req[3], req[2])
                        cov["slave_writes"] += 1
                    else:
                        cov["slave_reads"] += 1
                elif sc[0] == "e":
                    prog = True
                    cov["err_responses"] += 1
                    SS2 = (0, None, werr or int(bool(req[1])), rerr or int(not req[1]))
                else:
                    SS2 = (lat + 1, req, werr, rerr)
                    coop = False
        else:
            full = self.sk == "axi"
            chans = (("aw", AXF if full else ("addr",)), ("w", ("data", "strb") + (("last",) if full else ())), ("ar", AXF if full else ("addr",)))
            snap = tuple((v[S[c]["valid"]], v[S[c]["ready"]]) + tuple(v[S[c][f]] for f in fs) for c, fs in chans)
            if stall is not None:
                for k, (old, new) in enumerate(zip(stall, snap)):
                    if old is not None:
                        if not new[0]:
                            return env, ("proto.valid_withdrawn", f"{nm}: slave-side channel {chans[k][0]}: valid withdrawn before ready"), 0
                        if new[2:] != old:
                            return env, ("proto.payload_changed", f"{nm}: slave-side channel {chans[k][0]}: {old} -> {new[2:]} while valid & ~ready"), 0
            hs = lambda c: bool(v[S[c]["valid"]] and v[S[c]["ready"]])
            aw_r, w_r, b_v, b_e, ar_r, r_v, r_e = sc
            if self.sk == "axil":
                awq, wq, bq, b_up, arq, rcur, werr, rerr = SS
                if hs("aw"):
                    a = v[S["aw"]["addr"]]
                    if a >= self.NB:
                        return env, ("addr.range", f"{nm}: slave-side AW address {a:#x} outside the {self.NB}-byte memory"), 0
                    awq, prog = awq + (a,), True
                if hs("w"):
                    wq, prog = wq + ((v[S["w"]["data"]], v[S["w"]["strb"]]),), True
                if hs("ar"):
                    a = v[S["ar"]["addr"]]
                    if a >= self.NB:
                        return env, ("addr.range", f"{nm}: slave-side AR address {a:#x} outside the {self.NB}-byte memory"), 0
                    arq, prog = arq + (a,), True
                cov["max_queue"] = max(cov["max_queue"], len(awq), len(wq), len(arq))
                # responses
                if b_v:
                    if v[S["b"]["ready"]]:
                        bq, b_up, prog = bq[1:], 0, True
                    else:
                        b_up = 1
                elif bq:
                    coop = False
                if r_v:
                    if rcur is None:
                        rcur = (v[S["r"]["data"]], v[S["r"]["resp"]])
                        cov["slave_reads"] += 1
                        if rcur[1] != OKAY:
                            rerr = 1
                            cov["err_responses"] += 1
                    if v[S["r"]["ready"]]:
                        rcur, arq, prog = None, arq[1:], True
                elif SS[4]:
                    coop = False
                # a write is performed as soon as its address and its data are there
                while awq and wq:
                    (a, awq), ((data, strb), wq) = (awq[0], awq[1:]), (wq[0], wq[1:])
                    resp = SLVERR if b_e else OKAY
                    if resp == OKAY:
                        mem2 = self.apply(mem2, a // self.nl, data, strb)
                    else:
                        werr = 1
                        cov["err_responses"] += 1
                    bq = bq + (resp,)
                    cov["slave_writes"] += 1
                if not self.pipelined and not self.w_before_aw:
                    idle = not (SS[0] or SS[1] or SS[2] or SS[4] or SS[5] is not None)
                    want_aw, want_ar = v[S["aw"]["valid"]], v[S["ar"]["valid"]]
                    if idle and (want_aw or want_ar) and not ((want_aw and aw_r) or (want_ar and ar_r)):
                        coop = False
                else:
                    if (len(SS[0]) < self.Q and not aw_r) or (len(SS[4]) < self.Q and not ar_r and (self.pipelined or (not SS[4] and SS[5] is None))):
                        coop = False
                if not w_r and len(SS[1]) < self.Q and (self.w_before_aw or SS[0]):
                    coop = False
                SS2 = (awq, wq, bq, b_up, arq, rcur, werr, rerr)
            else:
                aw, wn, b, b_up, ar, rn, rcur, werr, rerr = SS
                if hs("aw"):
                    if aw is not None:
                        return env, ("proto.aw_extra", f"{nm}: a second AW is accepted while a write burst is open"), 0
                    aw = tuple(v[S["aw"][f]] for f in AXF)
                    why = ref.illegal(aw[0], aw[1], aw[2], aw[3], self.nl, ADRW)
                    if why:
                        return env, ("ax.illegal", f"{nm}: slave-side AW {aw} is not a legal AXI burst: {why}"), 0
                    wn, prog = 0, True
                if hs("w"):
                    if aw is None:
                        return env, ("proto.w_without_aw", f"{nm}: environment slave accepted W without AW (harness error)"), 0
                    data, strb, last = v[S["w"]["data"]], v[S["w"]["strb"]], v[S["w"]["last"]]
                    adr, lo, up = ref.byte_lanes(aw[0], aw[1], aw[2], aw[3], wn + 1, self.nl)
                    if (adr // self.nl + 1) * self.nl > self.NB:
                        return env, ("addr.range", f"{nm}: slave-side write beat at {adr:#x} outside the {self.NB}-byte memory"), 0
                    for l in range(self.nl):
                        if (strb >> l) & 1 and not lo <= l <= up:
                            return env, ("w.strb.lane", f"{nm}: slave-side W beat {wn+1} strobes lane {l} outside its byte lanes {lo}..{up}"), 0
                    if last != (1 if wn == aw[1] else 0):
                        return env, ("w.last", f"{nm}: slave-side W beat {wn+1} of {aw[1]+1} has last={last}"), 0
                    resp = SLVERR if b_e else OKAY
                    if resp == OKAY:
                        mem2 = self.apply(mem2, adr // self.nl, data, strb)
                    cov["slave_writes"] += 1
                    wn, prog = wn + 1, True
                    if last:
                        if resp != OKAY:
                            werr = 1
                            cov["err_responses"] += 1
                        b, aw = (aw[4], resp), None
                if hs("ar"):
                    if ar is not None:
                        return env, ("proto.ar_extra", f"{nm}: a second AR is accepted while a read burst is open"), 0
                    ar = tuple(v[S["ar"][f]] for f in AXF)
                    why = ref.illegal(ar[0], ar[1], ar[2], ar[3], self.nl, ADRW)
                    if why:
                        return env, ("ax.illegal", f"{nm}: slave-side AR {ar} is not a legal AXI burst: {why}"), 0
                    adr = ref.byte_lanes(ar[0], ar[1], ar[2], ar[3], ar[1] + 1, self.nl)[0]
                    if max(ar[0], adr) // self.nl * self.nl + self.nl > self.NB:
                        return env, ("addr.range", f"{nm}: slave-side read burst {ar} leaves the {self.NB}-byte memory"), 0
                    rn, prog = 0, True
                if b_v:
                    if v[S["b"]["ready"]]:
                        b, b_up, prog = None, 0, True
                    else:
                        b_up = 1
                elif SS[2] is not None:
                    coop = False
                if r_v:
                    if rcur is None:
                        rcur = (v[S["r"]["data"]], v[S["r"]["resp"]])
                        cov["slave_reads"] += 1
                        if rcur[1] != OKAY:
                            rerr = 1
                            cov["err_responses"] += 1
                    if v[S["r"]["ready"]]:
                        rcur, prog = None, True
                        if rn == ar[1]:
                            ar, rn = None, 0
                        else:
                            rn += 1
                elif SS[4] is not None:
                    coop = False
                idle = SS[0] is None and SS[2] is None and SS[4] is None
                want_aw, want_ar = v[S["aw"]["valid"]], v[S["ar"]["valid"]]
                if self.pipelined:
                    if (SS[0] is None and want_aw and not aw_r) or (SS[4] is None and want_ar and not ar_r):
                        coop = False
                elif idle and (want_aw or want_ar) and not ((want_aw and aw_r) or (want_ar and ar_r)):
                    coop = False
                if not w_r and SS[2] is None and SS[4] is None:
                    coop = False
                SS2 = (aw, wn, b, b_up, ar, rn, rcur, werr, rerr)
        # ======================= master side =======================
        if self.mk == "wb":
            idx, up, m_werr, m_rerr = MS
            ack, er = v[M["ack"]], v[M["err"]]
            ops = self.wb_ops(scn)
            if not mc[0]:
                if ack or er:
                    return env, ("resp.ack_stray", f"{nm}: ack={ack} err={er} without a request"), 0
                MS2 = MS
                if idx < len(ops):
                    coop = False
            else:
                op = ops[idx]
                if ack or er:
                    prog = True
                    if er:
                        if op == "w":
                            m_werr = 1
                        else:
                            m_rerr = 1
                    elif op == "r":
                        got = v[M["dat_r"]]
                        for (a, l) in P.lanes[0]:
                            gb = (got >> (8 * l)) & 0xFF
                            if not self.err and gb not in P.allowed[a]:
                                return env, ("read.value", f"{nm}: read returns {gb:#x} for byte {a:#x}, allowed {[hex(x) for x in P.allowed[a]]}"), 0
                        cov["m_r_beats"] += 1
                    else:
                        cov["m_w_beats"] += 1
                    MS2 = (idx + 1, 0, m_werr, m_rerr)
                else:
                    MS2 = (idx, 1, m_werr, m_rerr)
        else:
            W, R = MS
            aw_v, w_v, b_r, ar_v, r_r = mc
            axi = self.mk == "axi"
            W2, R2 = W, R
            if W is None:
                if v[M["b"]["valid"]]:
                    return env, ("resp.b_stray", f"{nm}: b.valid=1 although no write was requested"), 0
            else:
                if axi:
                    m_aw, m_wi, m_wh, m_b = W
                    nbeats = scn[2] + 1
                else:
                    m_aw, m_w, m_b = W
                    m_wi, m_wh, nbeats = (1 if m_w == 2 else 0), (1 if m_w == 1 else 0), 1
                startable = m_b == 0 and self.may_write(scn, MS)
                if aw_v:
                    if v[M["aw"]["ready"]]:
                        m_aw, prog = 2, True
                    else:
                        m_aw = 1
                elif m_aw == 0 and startable:
                    coop = False
                if w_v:
                    if v[M["w"]["ready"]]:
                        m_wi, m_wh, prog = m_wi + 1, 0, True
                        cov["m_w_beats"] += 1
                    else:
                        m_wh = 1
                elif m_wi < nbeats and startable:
                    coop = False
                if v[M["b"]["valid"]]:
                    if m_b:
                        return env, ("resp.b_extra", f"{nm}: a second write response reaches the master"), 0
                    if m_aw != 2 or m_wi < nbeats:
                        return env, ("resp.b_early", f"{nm}: write response before the address and all {nbeats} data beat(s) were accepted"), 0
                    if b_r:
                        if axi and v[M["b"]["id"]] != WID:
                            return env, ("resp.b_id", f"{nm}: write response has id {v[M['b']['id']]}, request had {WID}"), 0
                        resp = v[M["b"]["resp"]]
                        if resp != OKAY and not self.err:
                            return env, ("resp.b_error", f"{nm}: write answered with resp={resp} by an error-free memory"), 0
                        m_b, prog = 1 + resp, True
                    else:
                        coop = False
                W2 = (m_aw, m_wi, m_wh, m_b) if axi else (m_aw, 2 if m_wi else (1 if m_wh else 0), m_b)
            if R is None:
                if v[M["r"]["valid"]]:
                    return env, ("resp.r_stray", f"{nm}: r.valid=1 although no read was requested"), 0
            else:
                if axi:
                    m_ar, m_rn, m_rl, m_rerr = R
                    nbeats = scn[2] + 1
                else:
                    m_ar, m_rl, m_rerr = R
                    m_rn, nbeats = 0, 1
                if ar_v:
                    if v[M["ar"]["ready"]]:
                        m_ar, prog = 2, True
                    else:
                        m_ar = 1
                elif m_ar == 0 and not m_rl and self.may_read(scn, MS):
                    coop = False
                if v[M["r"]["valid"]]:
                    if m_rl:
                        return env, ("resp.r_extra", f"{nm}: an R beat is offered after the {nbeats} beat(s) of the burst"), 0
                    if R[0] != 2 and not (ar_v and v[M["ar"]["ready"]]):
                        return env, ("resp.r_stray", f"{nm}: r.valid=1 before the read address was accepted"), 0
                    if r_r:
                        data, resp = v[M["r"]["data"]], v[M["r"]["resp"]]
                        if resp != OKAY:
                            if not self.err:
                                return env, ("resp.r_error", f"{nm}: read answered with resp={resp} by an error-free memory"), 0
                            m_rerr = 1
                        else:
                            for (a, l) in P.lanes[m_rn]:
                                gb = (data >> (8 * l)) & 0xFF
                                if not self.err and gb not in P.allowed[a]:
                                    return env, ("read.value", f"{nm}: R beat {m_rn+1} returns {gb:#x} for byte {a:#x} (lane {l}), allowed "
                                                               f"{[hex(x) for x in P.allowed[a]]}"), 0
                                if len(P.allowed[a]) > 1:
                                    cov["overlap_reads"] += 1
                        if axi:
                            if v[M["r"]["last"]] != (1 if m_rn == nbeats - 1 else 0):
                                return env, ("r.last", f"{nm}: R beat {m_rn+1} of {nbeats} has last={v[M['r']['last']]}"), 0
                            if v[M["r"]["id"]] != RID:
                                return env, ("resp.r_id", f"{nm}: R beat {m_rn+1} has id {v[M['r']['id']]}, request had {RID}"), 0
                        cov["m_r_beats"] += 1
                        m_rn, prog = m_rn + 1, True
                        if m_rn == nbeats:
                            m_rl = 1
                    else:
                        coop = False
                R2 = (m_ar, m_rn, m_rl, m_rerr) if axi else (m_ar, m_rl, m_rerr)
            MS2 = (W2, R2)
        # ======================= completion =======================
        if self.m_done(scn, MS2) and self.s_quiet(SS2):
            cov["finished"] += 1
            if self.err:
                werr, rerr = SS2[-2], SS2[-1]
                if self.mk == "wb":
                    m_we, m_re = MS2[2], MS2[3]
                else:
                    m_we = MS2[0] is not None and MS2[0][-1] - 1 != OKAY
                    m_re = MS2[1] is not None and MS2[1][-1]
                if (werr and not m_we) or (rerr and not m_re):
                    what = "write" if (werr and not m_we) else "read"
                    return env, ("resp.err_dropped", f"{nm}: the slave answered a {what} access of the burst with SLVERR/err, the master only saw OKAY"), 0
            elif "w" in scn[0] and mem2 != P.final:
                diff = [a for a in range(self.NB) if mem2[a] != P.final[a]]
                lost = all(mem2[a] == init_byte(a) for a in diff)
                left = ""
                if self.sk == "axil" and (SS2[0] or SS2[1]):
                    left = f"; the slave still holds {len(SS2[0])} AW without W and {len(SS2[1])} W without AW"
                return env, ("write.lost" if lost else "write.collateral",
                             f"{nm}: after the write response memory byte {diff[0]:#x} holds {mem2[diff[0]]:#x}, the burst leaves {P.final[diff[0]]:#x} there "
                             f"({len(diff)} byte(s) differ){left}"), 0
        stall2 = tuple((s[2:] if (s[0] and not s[1]) else None) for s in snap) if snap is not None else None
        flags = (COOP if coop else 0) | (PROGRESS if prog else 0)
        return (scn, MS2, SS2, mem2, stall2), None, flags

    def cover_report(self):
        return dict(self.cov)


# ---------------------------------------------------------------------------------------------------------------
# configurations
# ---------------------------------------------------------------------------------------------------------------
REG = {}


def reg(name, tier, **kw):
    REG[name] = (tier, kw)


def axi_scenarios(dw, tier, orders=("w>r", "r>w", "w|r"), small=False):
    nl = dw // 8
    full = nl.bit_length() - 1
    out = []
    bursts = []
    lens = (0, 1, 3) if (small or tier == "quick") else (0, 1, 2, 3)
    for ln in lens:
        bursts.append((0, ln, full, ref.INCR))
        if not small:
            bursts.append((nl + 1, ln, full, ref.INCR))               # unaligned start
    if not small:
        for size in range(full):
            for ln in (1, 3):
                bursts.append((1 << size, ln, size, ref.INCR))        # narrow
        for ln in (1, 3):
            bursts.append((nl, ln, full, ref.FIXED))
        bursts.append((2, 1, 0, ref.FIXED))
        for ln in (1, 3):
            for p in (0, ln):
                bursts.append((p * nl, ln, full, ref.WRAP))
    else:
        bursts.append((nl, 1, full, ref.WRAP))
        bursts.append((0, 1, full, ref.FIXED))
    for o in orders:
        for b in bursts:
            if ref.illegal(b[0], b[1], b[2], b[3], nl) is None:
                out.append((o,) + b)
    return out


def single_scenarios(dw, tier, orders=("w>r", "r>w", "w|r")):
    nl = dw // 8
    strbs = [(1 << nl) - 1, 1, 1 << (nl - 1), 0b0110 & ((1 << nl) - 1), 0]
    out = []
    for o in orders:
        for word in (0, 1):
            for s in strbs:
                out.append((o, word, s, 1))
    return out


reg("AXI2AXILite(32bit)", "quick", kind="AXI2AXILite", dw=32, scen="axi")
reg("AXI2AXILite(64bit)", "quick", kind="AXI2AXILite", dw=64, scen="axi")
reg("AXI2AXILite(32bit)+pipelined_slave", "quick", kind="AXI2AXILite", dw=32, scen="axi", small=True, pipelined=True)
reg("AXI2AXILite(32bit)+slave_w_before_aw", "quick", kind="AXI2AXILite", dw=32, scen="axi", small=True, w_before_aw=True, orders=("w", "w>r"))
reg("AXI2AXILite(32bit)+err_responses", "quick", kind="AXI2AXILite", dw=32, scen="axi", small=True, err=True, orders=("w", "r"))
reg("AXILite2AXI(32bit)", "quick", kind="AXILite2AXI", dw=32, scen="single")
reg("AXILite2AXI(64bit)", "quick", kind="AXILite2AXI", dw=64, scen="single")
reg("AXILite2AXI(32bit)+pipelined_slave", "quick", kind="AXILite2AXI", dw=32, scen="single", pipelined=True)
reg("AXILite2AXI(32bit)+err_responses", "quick", kind="AXILite2AXI", dw=32, scen="single", err=True, orders=("w", "r"))
reg("AXI2Wishbone(32bit)", "quick", kind="AXI2Wishbone", dw=32, scen="axi")
reg("AXI2Wishbone(64bit)", "quick", kind="AXI2Wishbone", dw=64, scen="axi")
reg("Wishbone2AXI(32bit)", "quick", kind="Wishbone2AXI", dw=32, scen="single", orders=("w>r", "r>w"))
reg("Wishbone2AXI(64bit)", "quick", kind="Wishbone2AXI", dw=64, scen="single", orders=("w>r", "r>w"))
reg("Wishbone2AXI(32bit)+pipelined_slave", "quick", kind="Wishbone2AXI", dw=32, scen="single", orders=("w>r", "r>w"), pipelined=True)
reg("Wishbone2AXI(32bit)+err_responses", "quick", kind="Wishbone2AXI", dw=32, scen="single", orders=("w", "r"), err=True)


def mkh(name):
    kw = dict(REG[name][1])
    for k in ("scen", "small", "orders"):
        kw.pop(k, None)
    return lambda: FullBridgeHarness(name, **kw)


def scenarios(name, tier):
    kw = REG[name][1]
    extra = {}
    if "orders" in kw:
        extra["orders"] = kw["orders"]
    if kw["scen"] == "axi":
        return axi_scenarios(kw["dw"], tier, small=kw.get("small", False), **extra)
    return single_scenarios(kw["dw"], tier, **extra)


def configs(tier):
    return [(n,) for n, (t, kw) in REG.items() if t == "quick" or tier == "thorough"]


def tuple_deep(x):
    return tuple(tuple_deep(y) for y in x) if isinstance(x, (list, tuple)) else x


def run_config(cfg, seed, tier):
    name = cfg[0]
    f = mkh(name)
    H = f()
    ex = Explorer(H, seed=seed)
    tot = dict(cfg=name, states=0, transitions=0, conformed=0, exhaustive=True, cap_hit=None, depth=0, sample=None)
    viol, failing, clean = {}, {}, []
    space = scenarios(name, tier)
    for s in space:
        H.set_group([s])
        res = ex.run()
        tot["states"] += res.states
        tot["transitions"] += res.transitions
        tot["conformed"] += res.conformed
        tot["depth"] = max(tot["depth"], res.depth)
        if not res.exhaustive and not res.violations:
            tot["exhaustive"], tot["cap_hit"] = False, res.cap
        label = H.sname(s)
        for v in res.violations:
            failing.setdefault(v["rule"], []).append(label)
            old = viol.get(v["rule"])
            if old is None or len(v["trace"]) < len(old["trace"]):
                viol[v["rule"]] = v
        if not res.violations:
            clean.append(label)
        if res.sample and (tot["sample"] is None or len(res.sample) > len(tot["sample"])):
            tot["sample"] = res.sample
    cov = H.cover_report()
    cov["clean_scenarios"] = len(clean)
    if failing:
        cov["failing_by_rule"] = {r: dict(count=len(l), first=l[:4]) for r, l in sorted(failing.items())}
        cov["clean_examples"] = clean[:8]
    if not viol and not cov["finished"]:
        raise MachineryError(f"{name}: no transaction ever finished")
    tot["scenarios"] = len(space)
    tot["cover"] = cov
    tot["violations"] = list(viol.values())
    for v in tot["violations"]:
        cyc = [tuple_deep(c) for c in v["cycle"]] if v.get("cycle") else None
        q = [q for q in H.live_queries if q[0] == v["rule"]][0] if cyc else None
        rp = replay_stock(f, [tuple_deep(c) for c in v["trace"]], cyc, q)
        v["replayed"] = dict(reproduced=rp["reproduced"], path=rp["path"], cycles=rp["cycles"])
        if not rp["reproduced"]:
            raise MachineryError(f"{name}: violation {v['rule']} does not reproduce on the stock simulator: {rp}")
    return tot


def replay(rec):
    f = mkh(rec["cfg"])
    cyc = [tuple_deep(c) for c in rec["cycle"]] if rec.get("cycle") else None
    q = [q for q in f().live_queries if q[0] == rec["rule"]][0] if cyc else None
    rp = replay_stock(f, [tuple_deep(c) for c in rec["trace"]], cyc, q)
    return dict(cfg=rec["cfg"], rule=rec["rule"], reproduced=rp["reproduced"], err=rp["err"], path=rp["path"], cycles=rp["cycles"])
