"""C16 — packet framing: headers round-trip, packets never interleaved or torn (DESIGN.md §4 C16)."""
import fsmc  # noqa
from migen import *
from litex.soc.interconnect import stream, packet
from fsmc.explore import Explorer, replay_stock, Harness, COOP, PROGRESS, OUTPROG
from fsmc.design import MachineryError
from checks.streamlib import *

PROPERTY = "C16"
LEVEL = "model_checking"
RULE = ("BFS to closure of (real Packetizer/Depacketizer/PacketFIFO/Arbiter/Dispatcher FHDL x producer(s) x byte-layout scoreboard) "
        "under every valid/ready/sel choice per cycle; distinct = distinct product states")
ASSUMPTIONS = [
    "2-state zero-delay FHDL semantics of litex.gen.sim",
    "header layouts from the listed menu (fields of 4/8/16/24 bits, byte and bit offsets, gaps, swap on/off, one layout with an _lsb/_msb split field)",
    "data widths 8/16/32 (64/128 with fewer layouts), payload 1..3 beats, header field values from a two-pattern alphabet per packet",
    "PacketFIFO fed packets no longer than its payload depth (longer packets block by design)",
    "stand-alone Depacketizer: base runs feed at least one beat after the beat that completes the header; '+residue_packet' (unaligned headers) also packets whose last beat is the one carrying the header tail; packets without any payload byte are malformed input",
    "base runs of the unaligned Packetizer: no producer pause inside a packet, packets of >= 2 beats; the excluded behaviours are explored by the '+mid_packet_pause' / '+single_beat_packet' configurations",
]

REGISTRY = {}


def reg(name, tier, mk):
    assert name not in REGISTRY, name
    REGISTRY[name] = (tier, mk)


# ---------------------------------------------------------------------------------------------------
# reference byte layout, written from the Header *definition* (not from Header.encode/decode)
# ---------------------------------------------------------------------------------------------------
def swap_bytes(v, w):
    if w <= 8:
        return v
    assert w % 8 == 0
    n = w // 8
    return int.from_bytes(v.to_bytes(n, "little"), "big")


class HdrRef:
    def __init__(self, fields, length, swap):
        self.fields = dict(fields)        # name -> (byte, offset, width)
        self.length = length
        self.swap = swap
        self.layout = [(k, self.fields[k][2]) for k in sorted(self.fields)]   # param layout order = sorted names
    def litex(self):
        return packet.Header({k: packet.HeaderField(*v) for k, v in self.fields.items()}, self.length, self.swap)
    def param_layout(self):
        return self.litex().get_layout()
    def split(self, praw):
        vals, off = {}, 0
        for n, w in self.layout:
            vals[n] = (praw >> off) & ((1 << w) - 1)
            off += w
        return vals
    def join(self, vals):
        praw, off = 0, 0
        for n, w in self.layout:
            praw |= (vals[n] & ((1 << w) - 1)) << off
            off += w
        return praw
    def encode(self, praw):
        vals = self.split(praw)
        hdr = 0
        for n, (byte, offset, w) in self.fields.items():
            v = swap_bytes(vals[n], w) if self.swap else vals[n]
            hdr |= v << (byte*8 + offset)
        hdr &= (1 << (8*self.length)) - 1
        return tuple((hdr >> (8*i)) & 0xFF for i in range(self.length))
    def decode(self, hbytes):
        hdr = sum(b << (8*i) for i, b in enumerate(hbytes))
        vals = {}
        for n, (byte, offset, w) in self.fields.items():
            v = (hdr >> (byte*8 + offset)) & ((1 << w) - 1)
            vals[n] = swap_bytes(v, w) if self.swap else v
        return self.join(vals)


class HdrRefSplit(HdrRef):
    """header with `<name>_lsb` / `<name>_msb` fields: the two halves of ONE parameter `<name>` of twice the field width
    (Header.get_field); the endpoint's param layout is given explicitly."""
    def __init__(self, fields, length, swap, params):
        HdrRef.__init__(self, fields, length, swap)
        self.hfields = [(k, self.fields[k][2]) for k in sorted(self.fields)]
        self.layout = list(params)
    def param_layout(self):
        return list(self.layout)
    def split(self, praw):
        P = HdrRef.split(self, praw)
        vals = {}
        for n, w in self.hfields:
            if n.endswith("_lsb"):
                vals[n] = P[n[:-4]] & ((1 << w) - 1)
            elif n.endswith("_msb"):
                vals[n] = (P[n[:-4]] >> w) & ((1 << w) - 1)
            else:
                vals[n] = P[n]
        return vals
    def join(self, vals):
        P = {}
        for n, w in self.hfields:
            if n.endswith("_lsb"):
                P[n[:-4]] = P.get(n[:-4], 0) | vals[n]
            elif n.endswith("_msb"):
                P[n[:-4]] = P.get(n[:-4], 0) | (vals[n] << w)
            else:
                P[n] = vals[n]
        return HdrRef.join(self, P)


HEADERS = {
    "split": lambda L, swap: HdrRefSplit({"a_lsb": (0, 0, 8), "a_msb": (2, 0, 8), "b": (1, 0, 8)}, L, swap, [("a", 16), ("b", 8)]),   # L >= 3
    "ab":   lambda L, swap: HdrRef({"a": (0, 0, 16), "b": (2, 0, 8)}, L, swap),                 # L >= 3
    "x":    lambda L, swap: HdrRef({"x": (0, 0, 8)}, L, swap),                                   # L >= 1
    "bits": lambda L, swap: HdrRef({"f": (0, 4, 4), "g": (0, 0, 4), "h": (1, 0, 24)}, L, swap),  # L >= 4
}


def beat_bytes(raw, bpc):
    return tuple((raw >> (8*i)) & 0xFF for i in range(bpc))


def mk_beat(bs, bpc):
    raw = mask = 0
    for i, b in enumerate(bs):
        raw |= b << (8*i)
        mask |= 0xFF << (8*i)
    return raw, mask


class PacketizerModel(QueueModel):
    def __init__(self, hdr, bpc):
        self.hdr, self.bpc = hdr, bpc
        self.capacity = hdr.length // bpc + 6
    def absorb(self, acc, tok):
        raw, first, last, praw = tok[:4]
        pend = acc
        if first:
            pend = self.hdr.encode(praw)
        pend = pend + beat_bytes(raw, self.bpc)
        outs = []
        while len(pend) >= self.bpc:
            r, m = mk_beat(pend[:self.bpc], self.bpc)
            outs.append([r, m, None, 0, None])
            pend = pend[self.bpc:]
        if last:
            if pend:
                r, m = mk_beat(pend, self.bpc)
                outs.append([r, m, None, 0, None])
                pend = ()
            outs[-1][3] = 1
        return pend, [tuple(o) for o in outs]


class DepacketizerModel(QueueModel):
    """acc = (header bytes so far, payload bytes pending); a trailing incomplete beat is the packetizer's padding and is dropped"""
    def __init__(self, hdr, bpc):
        self.hdr, self.bpc = hdr, bpc
        self.capacity = 6
    def init(self):
        return (((), ()), ())
    def absorb(self, acc, tok):
        raw, first, last, praw = tok[:4]
        hb, pend = acc
        if first:
            hb, pend = (), ()
        bs = beat_bytes(raw, self.bpc)
        need = self.hdr.length - len(hb)
        if need > 0:
            hb = hb + bs[:need]
            bs = bs[need:]
        pend = pend + bs
        outs = []
        if len(hb) == self.hdr.length:
            p = self.hdr.decode(hb)
            while len(pend) >= self.bpc:
                r, m = mk_beat(pend[:self.bpc], self.bpc)
                outs.append([r, m, None, 0, p])
                pend = pend[self.bpc:]
        if last:
            if not outs:
                if not pend or len(hb) < self.hdr.length:
                    if getattr(self, "allow_empty", False):
                        return ((), ()), []          # packet without a payload byte: nothing to deliver (C04-only configurations)
                    raise MachineryError("environment produced a packet without payload")
                # the packet ends inside the realignment residue: its only payload beat holds the bytes behind the header tail
                r, m = mk_beat(pend, self.bpc)
                outs.append([r, m, None, 0, self.hdr.decode(hb)])
            outs[-1][3] = 1
            hb, pend = (), ()
        return (hb, pend), [tuple(o) for o in outs]


class LoopModel(QueueModel):
    capacity = 12
    def __init__(self, dw):
        self.mask = (1 << dw) - 1
    def absorb(self, acc, tok):
        raw, first, last, praw = tok[:4]
        return acc, [(raw, self.mask, None, last, praw)]


class PacketFIFOModel(QueueModel):
    """identity on (data, last, param of the packet); source.valid only while a complete packet is stored.
       mon = (acc, queue, complete packets inside)"""
    def __init__(self, dw, capacity):
        self.mask = (1 << dw) - 1
        self.capacity = capacity
    def init(self):
        return ((), (), 0)
    def offer(self, mon, tok):
        (acc, q), err = QueueModel.offer(self, mon[:2], tok)
        return (acc, q, mon[2]), err
    def out(self, mon, got):
        (acc, q), err = QueueModel.out(self, mon[:2], got)
        return (acc, q, mon[2]), err
    def absorb(self, acc, tok):
        raw, first, last, praw = tok[:4]
        return acc, [(raw, self.mask, None, last, praw)]
    def cycle(self, mon, v, tok, in_hs, out_hs, cc, H):
        acc, q, n = mon
        if v[H.source.valid] and n == 0:
            return mon, ("fifo.incomplete", "source.valid although no complete packet is stored")
        if in_hs and tok[2]:
            n += 1
        if out_hs and v[H.source.last]:
            n -= 1
        return (acc, q, n), None


class _Loop(Module):
    def __init__(self, dw, hdr, playout=None):
        pd = stream.EndpointDescription([("data", dw)], playout if playout is not None else hdr.get_layout())
        rd = stream.EndpointDescription([("data", dw)])
        self.submodules.p = p = packet.Packetizer(pd, rd, hdr)
        self.submodules.d = d = packet.Depacketizer(rd, pd, hdr)
        self.comb += p.source.connect(d.sink)
        self.sink, self.source = p.sink, d.source


def header_beats(L, bpc):
    return -(-L // bpc)


def add_framing(hname, L, dw, swap, tier):
    ref = HEADERS[hname](L, swap)
    bpc = dw // 8
    aligned = (L % bpc) == 0
    words = (L*8) // dw
    base = f"[hdr={hname},L={L},dw={dw},swap={swap}{',short_header' if words == 0 else ''}]"
    pd = lambda: stream.EndpointDescription([("data", dw)], ref.param_layout())
    rd = lambda: stream.EndpointDescription([("data", dw)])
    idb = 3
    common = dict(M=4, idbits=idb, nparam=2)
    variants = [("", dict(mid_pause=aligned, minpkt=1 if aligned else 2, maxpkt=3))]
    if not aligned:
        variants.append(("+mid_packet_pause", dict(mid_pause=True, minpkt=2, maxpkt=3)))
        variants.append(("+single_beat_packet", dict(mid_pause=False, minpkt=1, maxpkt=2)))
    for suffix, kw in variants:
        nm = "Packetizer" + base + suffix
        reg(nm, tier, lambda nm=nm, kw=kw: StreamHarness(nm, lambda: packet.Packetizer(pd(), rd(), ref.litex()),
                                                        lambda H: PacketizerModel(ref, bpc), **common, **kw))
        nm = "Loop" + base + suffix
        reg(nm, tier, lambda nm=nm, kw=kw: StreamHarness(nm, lambda: _Loop(dw, ref.litex(), ref.param_layout()), lambda H: LoopModel(dw), **common, **kw))
    hb = header_beats(L, bpc)
    # a packet must carry at least one payload beat after the beat that completes the header
    nm = "Depacketizer" + base
    reg(nm, tier, lambda nm=nm: StreamHarness(nm, lambda: packet.Depacketizer(rd(), pd(), ref.litex()),
                                              lambda H: DepacketizerModel(ref, bpc), M=4, idbits=idb, nparam=1,
                                              minpkt=hb + 1 + (0 if aligned else 0), maxpkt=hb + 3))
    if aligned and words >= 1:
        # C04 only: packets that END with the last header word (no payload byte at all).  Such a packet is malformed input for the framing
        # property (C16 does not judge it; the element drops it), but it is a perfectly legal stream packet, so the handshake contract and
        # progress still have to hold around it
        nm = "Depacketizer" + base + "+header_only_packet"
        def mk_ho(nm=nm):
            def model(H):
                m = DepacketizerModel(ref, bpc)
                m.allow_empty = True
                return m
            return StreamHarness(nm, lambda: packet.Depacketizer(rd(), pd(), ref.litex()), model, M=4, idbits=idb, nparam=1, minpkt=hb, maxpkt=hb + 2)
        REGISTRY[nm] = ("c04only" if tier == "quick" else "c04only-thorough", mk_ho)
    if not aligned and words >= 1:
        # payload shorter than what is left of the header-completing beat: `last` comes with the header tail
        nm = "Depacketizer" + base + "+residue_packet"
        reg(nm, tier, lambda nm=nm: StreamHarness(nm, lambda: packet.Depacketizer(rd(), pd(), ref.litex()),
                                                  lambda H: DepacketizerModel(ref, bpc), M=4, idbits=idb, nparam=1,
                                                  minpkt=hb, maxpkt=hb + 2))


for hname, L, dw, swap, tier in [
    ("ab", 3, 8, True, "quick"), ("ab", 4, 8, False, "quick"), ("ab", 4, 16, True, "quick"), ("ab", 4, 32, True, "quick"),
    ("ab", 3, 16, True, "quick"), ("ab", 5, 16, False, "quick"), ("ab", 5, 32, True, "quick"), ("ab", 6, 32, True, "quick"),
    ("ab", 6, 16, True, "thorough"), ("ab", 7, 32, False, "thorough"), ("ab", 8, 32, True, "thorough"), ("ab", 3, 32, True, "thorough"),
    ("x", 1, 8, True, "quick"), ("x", 2, 8, True, "quick"), ("x", 2, 16, True, "quick"), ("x", 1, 16, True, "quick"), ("x", 3, 16, True, "thorough"),
    ("bits", 4, 8, True, "quick"), ("bits", 4, 16, True, "quick"), ("bits", 5, 16, False, "thorough"), ("bits", 4, 32, True, "thorough"),
    ("bits", 5, 32, True, "thorough"),
    ("ab", 10, 64, True, "quick"), ("ab", 8, 64, True, "thorough"), ("ab", 16, 64, False, "thorough"), ("ab", 19, 64, True, "thorough"),
    ("ab", 18, 128, True, "thorough"), ("ab", 16, 128, True, "thorough"),
    ("split", 3, 8, True, "quick"), ("split", 4, 16, False, "quick"), ("split", 5, 32, True, "thorough"),
]:
    add_framing(hname, L, dw, swap, tier)

for depth, pdepth, buffered, tier in ((2, 1, False, "quick"), (2, 2, False, "quick"), (3, 1, False, "quick"), (2, 1, True, "quick"),
                                      (3, 2, True, "thorough"), (4, 2, False, "thorough"), (4, 1, True, "thorough")):
    nm = f"PacketFIFO(payload_depth={depth},param_depth={pdepth},buffered={buffered})"
    def mk(nm=nm, depth=depth, pdepth=pdepth, buffered=buffered):
        bits = max(2, (2*(depth + 2) + 1).bit_length())
        return StreamHarness(nm, lambda: packet.PacketFIFO(stream.EndpointDescription([("data", bits)], [("p", 2)]), depth, pdepth, buffered),
                             lambda H: PacketFIFOModel(bits, depth + 3), M=2*(depth + 2) + 2, maxpkt=depth, nparam=2)
    reg(nm, tier, mk)


# defaults of the constructor: no parameter layout at all (a dummy one is created), parameter depth = payload depth
for depth, params, buffered, tier in ((2, False, False, "quick"), (2, True, True, "quick"), (3, False, True, "thorough")):
    nm = f"PacketFIFO(payload_depth={depth},param_depth=default,{'params' if params else 'no param layout'},buffered={buffered})"
    def mk(nm=nm, depth=depth, params=params, buffered=buffered):
        bits = max(2, (2*(depth + 2) + 1).bit_length())
        return StreamHarness(nm, lambda: packet.PacketFIFO(stream.EndpointDescription([("data", bits)], [("p", 2)] if params else []), depth, buffered=buffered),
                             lambda H: PacketFIFOModel(bits, depth + 3), M=2*(depth + 2) + 2, maxpkt=depth, nparam=2 if params else 1)
    reg(nm, tier, mk)


class ArbiterOracle:
    """slave side: every accepted beat is the beat of exactly one master, accepted there in the same cycle; once a
    packet has started no beat of another master is mixed in until its `last`.  mon = owner of the open packet."""
    def init(self):
        return None
    def cycle(self, owner, offers, in_hs, outs, out_hs, cc, H):
        hs = [i for i, h in enumerate(in_hs) if h]
        if len(hs) > 1:
            return owner, ("atomic.two_masters", f"masters {hs} accepted in the same cycle")
        ov, got = outs[0]
        if out_hs[0]:
            if not hs:
                return owner, ("dup.invented", f"slave accepted beat {got} that no master handed over")
            tok = offers[hs[0]]
            if (got[0], got[1], got[2]) != (tok[0], tok[1], tok[2]):
                return owner, ("data.payload", f"slave got {got} for master {hs[0]} token {tok}")
        elif hs:
            return owner, ("order.lost", f"master {hs[0]} beat accepted but not handed to the slave")
        if hs:
            i = hs[0]
            if owner is not None and owner != i:
                return owner, ("atomic.interleave", f"beat of master {i} inside the packet of master {owner}")
            owner = None if offers[i][2] else i
        return owner, None


class DispatcherOracle:
    """master side -> slaves: the destination of a packet is the slave selected in the cycle its first beat is accepted and
    does not change until `last`; an unmapped selector drops the packet (documented default case).  mon = destination of
    the open packet (None between packets, -1 = dropped)."""
    def __init__(self, n, one_hot, has_sel=True):
        self.n, self.one_hot, self.has_sel = n, one_hot, has_sel
    def init(self):
        return None
    def dest(self, sel):
        if not self.has_sel:
            return 0
        if self.one_hot:
            for j in range(self.n):
                if sel == (1 << j):
                    return j
            return -1
        return sel if sel < self.n else -1
    def cycle(self, open_dest, offers, in_hs, outs, out_hs, cc, H):
        d = open_dest if open_dest is not None else self.dest(cc[0] if cc else 0)
        tok = offers[0]
        for j, (ov, got) in enumerate(outs):
            if j == d and tok is not None:
                if not ov:
                    return open_dest, ("route.missing", f"beat not presented to destination slave {d}")
                if (got[0], got[1], got[2]) != (tok[0], tok[1], tok[2]):
                    return open_dest, ("data.payload", f"slave {j} shows {got} for token {tok}")
            elif ov:
                return open_dest, ("route.wrong_slave" if open_dest is None else "atomic.destination_changed",
                                   f"slave {j} shows valid, destination is {d}")
        if tok is not None:
            exp = True if d == -1 else out_hs[d]
            if in_hs[0] != exp:
                return open_dest, ("order.lost", f"master handshake {in_hs[0]} but destination handshake {exp}")
            if in_hs[0]:
                open_dest = None if tok[2] else d
        return open_dest, None


LD = [("data", 4)]
for n in (1, 2, 3, 4):
    nm = f"Arbiter(n={n})"
    def mk_arb(nm=nm, n=n):
        def f():
            m = Module()
            m.masters = [stream.Endpoint(LD) for _ in range(n)]
            for i, e in enumerate(m.masters):
                setattr(m, f"m{i}", e)
            m.slave = stream.Endpoint(LD)
            m.submodules.arb = packet.Arbiter(list(m.masters), m.slave)
            return m
        return MultiStreamHarness(nm, f, [f"m{i}" for i in range(n)], ["slave"], ArbiterOracle(), maxpkt=2 if n >= 3 else 3,
                                  idbits=1 if n >= 3 else 2)
    reg(nm, "quick", mk_arb)
for n, one_hot in ((1, False), (2, False), (2, True), (3, False), (3, True), (4, False), (5, False)):
    nm = f"Dispatcher(n={n},one_hot={one_hot})"
    def mk_disp(nm=nm, n=n, one_hot=one_hot):
        def f():
            m = Module()
            m.master = stream.Endpoint(LD)
            m.slaves = [stream.Endpoint(LD) for _ in range(n)]
            for i, e in enumerate(m.slaves):
                setattr(m, f"s{i}", e)
            m.submodules.disp = d = packet.Dispatcher(m.master, list(m.slaves), one_hot)
            m.sel = d.sel
            return m
        has_sel = not (n == 1 and not one_hot)
        nsel = (1 << n) if one_hot else (2 if n <= 2 else (4 if n <= 4 else 8))
        return MultiStreamHarness(nm, f, ["master"], [f"s{i}" for i in range(n)], DispatcherOracle(n, one_hot, has_sel), maxpkt=3,
                                  ctrl=[("sel", range(nsel))] if has_sel else None, liveness=True)      # every selector value makes progress: a packet to no slave is swallowed
    reg(nm, "quick" if n < 3 or not one_hot else "thorough", mk_disp)


def configs(tier, c04=False):
    ok = lambda t: t == "quick" or (tier == "thorough" and not t.startswith("c04only")) or (c04 and (t == "c04only" or tier == "thorough"))
    return [(n,) for n, (t, f) in REGISTRY.items() if ok(t)]


C16_RULES = ("data.", "dup.", "order.", "fifo.", "atomic.", "route.")


def tuple_deep(x):
    if isinstance(x, (list, tuple)):
        return tuple(tuple_deep(y) for y in x)
    return x


def factory(name, prop):
    mk0 = REGISTRY[name][1]
    def mk():
        H = mk0()
        if prop == "C16":
            H.check_stability = False
        return H
    return mk


def run_config(cfg, seed, tier, prop=PROPERTY):
    name = cfg[0]
    mk = factory(name, prop)
    H = mk()
    res = Explorer(H, seed=seed).run()
    out = res.as_dict()
    if prop == "C04" and out["violations"] and not any(v["rule"].startswith(("stab.", "live.")) for v in out["violations"]):
        # the data path already violates C16: its violating transitions are not extended and the liveness queries were
        # skipped, so stalls behind them would go unseen.  Second pass with a tolerant scoreboard.
        mk1 = mk
        def mk():
            H2 = mk1()
            H2.set_tolerant()
            return H2
        H = mk()
        res2 = Explorer(H, seed=seed).run().as_dict()
        out["violations"] += [v for v in res2["violations"] if v["rule"].startswith(("stab.", "live."))]
        out["states"] += res2["states"]
        out["transitions"] += res2["transitions"]
        out["conformed"] += res2["conformed"]
        out["exhaustive"] = out["exhaustive"] and res2["exhaustive"]
        out["tolerant_second_pass"] = True
    keep = []
    for v in out["violations"]:
        v["property"] = "C16" if v["rule"].startswith(C16_RULES) else "C04"
        if v["property"] != prop:
            continue
        tr = [tuple_deep(c) for c in v["trace"]]
        cyc = [tuple_deep(c) for c in v["cycle"]] if v.get("cycle") else None
        q = [q for q in H.live_queries if q[0] == v["rule"]][0] if cyc else None
        rp = replay_stock(mk, tr, cyc, q)
        v["replayed"] = dict(reproduced=rp["reproduced"], path=rp["path"], cycles=rp["cycles"])
        if not rp["reproduced"]:
            raise MachineryError(f"{name}: violation {v['rule']} does not reproduce on the stock simulator: {rp}")
        keep.append(v)
    out["violations"] = keep
    return out


def replay(rec, prop=PROPERTY):
    mk = factory(rec["cfg"], prop)
    H = mk()
    tr = [tuple_deep(c) for c in rec["trace"]]
    cyc = [tuple_deep(c) for c in rec["cycle"]] if rec.get("cycle") else None
    q = [q for q in H.live_queries if q[0] == rec["rule"]][0] if cyc else None
    rp = replay_stock(mk, tr, cyc, q)
    if not rp["reproduced"] and prop == "C04":
        # a violation found in the tolerant second pass of a C04 run (see run_config)
        def mk2():
            H2 = mk()
            H2.set_tolerant()
            return H2
        rp = replay_stock(mk2, tr, cyc, q)
    return dict(cfg=rec["cfg"], rule=rec["rule"], reproduced=rp["reproduced"], err=rp["err"], path=rp["path"], cycles=rp["cycles"])
