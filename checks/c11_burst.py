"""C11, AXI4 write bursts against AXITimeout (the interconnect runs of checks/axilib.py use single-beat writes).

master --(AXI4)--> slave with AXITimeout(master, T) on the link, exactly as AXIInterconnectShared wires it.  The master sends one
write burst of N beats (AW together with the first W beat, the following beats back to back: no gap once the data phase has
started; capability `w_gaps` lets it pause between beats), keeps BREADY as it likes, then starts the next burst.  The slave is
dead (never ready) from a cycle chosen by the explorer: before the address, after k accepted beats, or never (then it accepts
with free timing <= T-1 stalls and answers).  Monitors: exactly one B per burst and never before its last W beat was accepted;
a synthesised B is SLVERR and comes only after the stalled channel waited T+1 cycles; one error pulse per timed-out burst;
termination within T + N + slack cycles."""
import itertools
import fsmc  # noqa
from migen import *
from fsmc.explore import Explorer, replay_stock, Harness, COOP, PROGRESS
from fsmc.design import MachineryError
from litex.soc.interconnect.axi import axi_full
from litex.soc.interconnect.axi.axi_common import RESP_OKAY, RESP_SLVERR

AWIDTH = 8


class BurstDUT(Module):
    def __init__(self, T):
        self.m = axi_full.AXIInterface(data_width=32, address_width=AWIDTH, id_width=2)
        self.s = axi_full.AXIInterface(data_width=32, address_width=AWIDTH, id_width=2)
        self.comb += self.m.connect(self.s)
        self.submodules.to = axi_full.AXITimeout(self.m, T)
        self.error = self.to.error


class AxiBurstTimeoutHarness(Harness):
    """env = (ph, nb, k, wstall, dead, sacc, sb, epend, age, wait)
         ph     0 idle | 1 burst running (AW and/or W beats outstanding) | 2 all beats handed over, waiting for B
         nb     beats of the current burst (1..N); k W beats handed over so far; awd AW handed over (folded into ph/k: AW goes with beat 0)
         wstall consecutive cycles the presented AW / W has been stalled
         dead   slave stopped answering (fail-stop), sacc beats the slave itself accepted, sb slave owes / offers its B (0 none, 1 due, 2 offered)
         epend  error pulses not yet matched by a synthesised B; age cooperative cycles with a dead slave; rmode = the time-out responder has taken over this burst"""
    conf_first = 40
    conf_every = 23
    cap = 600_000

    def __init__(self, name, T=2, N=3, w_gaps=False):
        self.name, self.T, self.N, self.w_gaps = name, T, N, w_gaps
        self.cov = dict(bursts=0, timed_out=0, answered_by_slave=0, died_mid_burst=0, max_latency=0)
        self.deadline = (T + 2) + N + 3

    def build(self):
        self.dut = BurstDUT(self.T)
        return self.dut

    def bind(self, D):
        def ch(itf):
            return {c: {n: D.i(getattr(getattr(itf, c), n)) for n in names}
                    for c, names in (("aw", ("valid", "ready", "addr", "len", "size", "burst", "id")), ("w", ("valid", "ready", "data", "strb", "last")),
                                     ("b", ("valid", "ready", "resp", "id")), ("ar", ("valid", "ready")), ("r", ("valid", "ready")))}
        self.M, self.S = ch(self.dut.m), ch(self.dut.s)
        self.err = D.i(self.dut.error)

    def env_init(self):
        return (0, 0, 0, 0, 0, 0, 0, 0, 0, 0)

    def choices(self, env):
        ph, nb, k, wstall, dead, sacc, sb, epend, age, rmode = env
        if ph == 0:
            m = [("idle", 0)] + [("start", n) for n in range(1, self.N + 1)]
        elif ph == 1:
            m = [("beat", 0), ("beat", 1)]
            if self.w_gaps and k >= 1 and not wstall:
                m += [("gap", 0), ("gap", 1)]
        else:
            m = [("wait", 0), ("wait", 1)]
        # slave: ready for AW+W (one choice for both channels), B valid; it may die at any time (fail-stop) unless it owes a raised B
        s = []
        # a live slave never stalls a presented beat for more than T cycles (it answers in time); only a dead one times out
        for rdy in ((0,) if dead else ((1,) if wstall >= self.T else (0, 1))):
            for bv in (((1,) if sb == 2 else (0, 1)) if (sb and not dead) else (0,)):
                s.append((rdy, bv, 0))
        if not dead and sb == 0:
            s.append((0, 0, 1))          # dies now (not once it has taken the whole burst: accepted-then-silent is KF-C11-3)
        return [(a, b) for a in m for b in s]

    def drive(self, v, env, ch):
        ph, nb, k, wstall, dead, sacc, sb, epend, age, rmode = env
        (act, arg), (rdy, bv, die) = ch
        M, S = self.M, self.S
        n = arg if act == "start" else nb
        aw_v = 1 if (act == "start" or (ph == 1 and k == 0 and act == "beat")) else 0
        w_v = 1 if (act == "start" or (ph == 1 and act == "beat")) else 0
        v[M["aw"]["valid"]] = aw_v
        v[M["aw"]["addr"]], v[M["aw"]["len"]], v[M["aw"]["size"]], v[M["aw"]["burst"]], v[M["aw"]["id"]] = (0x10, n - 1, 2, 1, 1) if aw_v else (0xFF, 0xFF, 7, 3, 3)
        v[M["w"]["valid"]] = w_v
        v[M["w"]["data"]], v[M["w"]["strb"]], v[M["w"]["last"]] = (0xD0 + k, 0xF, int(k == n - 1)) if w_v else (0xFFFFFFFF, 0xF, 1)
        v[M["b"]["ready"]] = arg if act in ("beat", "wait", "gap") else 1
        v[M["ar"]["valid"]] = 0
        v[M["r"]["ready"]] = 1
        v[S["aw"]["ready"]] = v[S["w"]["ready"]] = rdy
        v[S["ar"]["ready"]] = 0
        v[S["r"]["valid"]] = 0
        v[S["b"]["valid"]] = bv
        v[S["b"]["resp"]], v[S["b"]["id"]] = (RESP_OKAY, 1) if bv else (3, 0)

    def observe(self, v, env, ch):
        ph, nb, k, wstall, dead, sacc, sb, epend, age, rmode = env
        (act, arg), (rdy, bv, die) = ch
        M, S = self.M, self.S
        hs = lambda P, c: bool(v[P[c]["valid"]] and v[P[c]["ready"]])
        if act == "start":
            ph, nb, k, wstall, sacc, age = 1, arg, 0, 0, 0, 0
            self.cov["bursts"] += 1
        if v[self.err]:
            epend += 1
            if epend > 1:
                return env, ("timeout.error_pulse", "a second error pulse before the time-out response of the first was taken"), 0
        aw_hs, w_hs, b_hs = hs(M, "aw"), hs(M, "w"), hs(M, "b")
        if (aw_hs or w_hs) and ph != 1:
            return env, ("resp.ready_stray", "aw/w handshake without a request"), 0
        presented = ph == 1 and act in ("start", "beat")
        slave_took = hs(S, "w") if presented else False
        if presented:
            if k == 0 and aw_hs != w_hs:
                # AW and the first beat are presented together: the responder takes both, the slave model too
                pass
            if w_hs:
                if not slave_took:
                    # absorbed by the time-out responder
                    if not rmode and wstall < self.T + 1:
                        return env, ("timeout.premature", f"beat {k} absorbed by the time-out responder after {wstall} stalled cycle(s), timeout_cycles={self.T}"), 0
                    rmode = 1
                else:
                    sacc += 1
                    if sacc == nb:
                        sb = 1
                k += 1
                wstall = 0
                if k == nb:
                    ph = 2
            else:
                wstall += 1
        if v[M["b"]["valid"]]:
            if ph == 0:
                return env, ("resp.b_stray", "b.valid although no write is outstanding"), 0
            if b_hs:
                if ph != 2:
                    return env, ("resp.b_early", f"B handed to the master after {k} of the {nb} W beat(s) of its burst"), 0
                from_slave = hs(S, "b")
                if from_slave:
                    if v[M["b"]["resp"]] != RESP_OKAY:
                        return env, ("resp.b_data", "the slave's OKAY response reaches the master changed"), 0
                    sb = 0
                    self.cov["answered_by_slave"] += 1
                else:
                    if v[M["b"]["resp"]] != RESP_SLVERR:
                        return env, ("timeout.resp", f"time-out response is {v[M['b']['resp']]}, not SLVERR"), 0
                    if not epend:
                        return env, ("timeout.error_pulse", "the burst was answered by the time-out responder but error never pulsed for it"), 0
                    epend -= 1
                    self.cov["timed_out"] += 1
                    if sacc:
                        self.cov["died_mid_burst"] += 1
                self.cov["max_latency"] = max(self.cov["max_latency"], age)
                ph, nb, k, wstall, sacc, age, rmode = 0, 0, 0, 0, 0, 0, 0
                if sb == 2 and not from_slave:
                    sb = 0
        if bv and sb == 1:
            sb = 2
        if die:
            dead = 1
        if ph:
            # deadline: cycles with a dead slave in which the master does its part (presents its beat / keeps BREADY up)
            if dead and act != "gap" and (act == "start" or arg == 1):
                age += 1
            if age > self.deadline:
                return env, ("timeout.late", f"write burst of {nb} beat(s) to a dead slave not terminated after {age} cooperative cycles (timeout_cycles={self.T})"), 0
        elif epend:
            return env, ("timeout.error_pulse", "error pulsed although the burst was not answered by the time-out responder"), 0
        flags = PROGRESS if (aw_hs or w_hs or b_hs) else 0
        return (ph, nb, k, wstall, dead, sacc, sb, epend, age, rmode), None, flags

    def cover_report(self):
        return dict(self.cov)

    def vacuity(self):
        if not self.cov["timed_out"] or not self.cov["answered_by_slave"] or not self.cov["died_mid_burst"]:
            return f"event classes missing: {self.cov}"
        return None


V = {
    "axi.timeout(write bursts<=3,timeout=2)": ("quick", dict(T=2, N=3)),
    "axi.timeout(write bursts<=4,timeout=3)": ("thorough", dict(T=3, N=4)),
    "axi.timeout(write bursts<=3,timeout=2)+w_gaps": ("quick", dict(T=2, N=3, w_gaps=True)),
}


def configs(tier):
    return [(n,) for n, (t, kw) in V.items() if t == "quick" or tier == "thorough"]


def mk(name):
    kw = V[name][1]
    return lambda: AxiBurstTimeoutHarness(name, **kw)


def tuple_deep(x):
    return tuple(tuple_deep(y) for y in x) if isinstance(x, (list, tuple)) else x


def run_config(cfg, seed, tier):
    name = cfg[0]
    f = mk(name)
    out = Explorer(f(), seed=seed).run().as_dict()
    for v in out["violations"]:
        rp = replay_stock(f, [tuple_deep(c) for c in v["trace"]])
        v["replayed"] = dict(reproduced=rp["reproduced"], path=rp.get("path"))
        if not rp["reproduced"]:
            raise MachineryError(f"{name}: violation {v['rule']} does not reproduce on the stock simulator: {rp}")
    return out


def replay(rec):
    rp = replay_stock(mk(rec["cfg"]), [tuple_deep(c) for c in rec["trace"]])
    return dict(cfg=rec["cfg"], rule=rec["rule"], reproduced=rp["reproduced"], err=rp.get("err"))
