"""C04 — stream elements keep the handshake contract and never stall forever.
Same designs, environments and explorations as C03 (checks/streamcfg.py) and C16 (checks/c16_packet.py: Packetizer,
Depacketizer, PacketFIFO, Arbiter, Dispatcher) with the stability monitor and the graph liveness queries reported."""
import fsmc  # noqa
from checks import c03_streams as _c3
from checks import c16_packet as _c16
from checks import streamcfg

PROPERTY = "C04"
LEVEL = "model_checking"
RULE = _c3.RULE + "; liveness = Tarjan SCC search for cooperative cycles without (output) progress on the closed graph"
ASSUMPTIONS = _c3.ASSUMPTIONS + [
    "stability is required while the element's own control inputs are unchanged",
    "liveness is judged under cooperation: producer offers/holds, consumer ready (DESIGN 4b)",
] + _c16.ASSUMPTIONS[1:]


def configs(tier):
    return _c3.configs(tier) + _c16.configs(tier, c04=True)


def run_config(cfg, seed, tier):
    if cfg[0] in streamcfg.REGISTRY:
        return _c3.run_config(cfg, seed, tier, prop="C04")
    return _c16.run_config(cfg, seed, tier, prop="C04")


def replay(rec):
    if rec["cfg"] in streamcfg.REGISTRY:
        return _c3.replay(rec, prop="C04")
    return _c16.replay(rec, prop="C04")
