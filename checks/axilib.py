"""AXI-Lite / AXI interconnect harness for C08 (routing, pairing, responses, stability, liveness) and the AXI part of C11.
Masters: per direction a Moore request process (AW/W in either order or together, one outstanding request per direction in the
base runs, bready/rready free).  Slaves: reactive ready (ready = choice, enumerated only where a request can arrive), one
slot per direction, B after AW+W / R after AR after an arbitrary delay, valid held; fail-stop fault switch for time-out runs."""
import itertools
import fsmc  # noqa
from migen import *
from litex.soc.interconnect.axi import axi_lite, axi_full
from litex.soc.interconnect.axi.axi_common import RESP_OKAY, RESP_SLVERR
from litex.soc.integration.soc import SoCRegion
from fsmc.explore import Harness, COOP, PROGRESS
from fsmc.design import MachineryError

WAITBIT, SERVEDBIT = 256, 4096
AWIDTH = 8          # byte address: [7:6] window, [5:4] master id, [2] tag
UNMAPPED = 3


def mkaddr(t, m, tag):
    return (t << 6) | (m << 4) | (tag << 2)


def wdata(t, m, tag):
    return 0xD000 | (t << 8) | (m << 4) | tag


class AxiIcDUT(Module):
    def __init__(self, proto, kind, nm, ns, timeout):
        full = proto == "full"
        mkif = (lambda: axi_full.AXIInterface(data_width=32, address_width=AWIDTH, id_width=2)) if full else \
               (lambda: axi_lite.AXILiteInterface(data_width=32, address_width=AWIDTH))
        self.masters = [mkif() for _ in range(nm)]
        self.slaves = [mkif() for _ in range(ns)]
        regions = [SoCRegion(origin=64*j, size=64) for j in range(ns)]
        dec = [(r.decoder(self.masters[0]), s) for r, s in zip(regions, self.slaves)]
        ns_ = axi_full if full else axi_lite
        pre = "AXI" if full else "AXILite"
        self.error = None
        self.grant_w = self.grant_r = None
        if kind == "shared":
            self.submodules.ic = ic = getattr(ns_, pre + "InterconnectShared")(self.masters, dec, timeout_cycles=timeout)
            self.grant_w, self.grant_r = ic.arbiter.rr_write.grant, ic.arbiter.rr_read.grant
            if timeout is not None:
                self.error = ic.timeout.error
        elif kind == "crossbar":
            self.submodules.ic = getattr(ns_, pre + "Crossbar")(self.masters, dec, timeout_cycles=timeout)
        elif kind == "arbiter":
            self.submodules.ic = ic = getattr(ns_, pre + "Arbiter")(self.masters, self.slaves[0])
            self.grant_w, self.grant_r = ic.rr_write.grant, ic.rr_read.grant
        elif kind == "decoder":
            self.submodules.ic = getattr(ns_, pre + "Decoder")(self.masters[0], dec)
        elif kind == "p2p":
            self.submodules.ic = getattr(ns_, pre + "InterconnectPointToPoint")(self.masters[0], self.slaves[0])
        elif kind == "timeout":
            self.comb += self.masters[0].connect(self.slaves[0])
            self.submodules.to = to = getattr(ns_, pre + "Timeout")(self.masters[0], timeout)
            self.error = to.error
        else:
            raise ValueError(kind)


class AxiIcHarness(Harness):
    """env = (wm, rm, ws, rs, stalls, ages)
       wm[m]: ('I',) | ('A', tgt, tag, aw_up, w_up, aw_done, w_done) | ('B', tgt, tag) | ('T',)
       rm[m]: ('I',) | ('A', tgt, tag) | ('R', tgt, tag) | ('T',)
       ws[j]: (aw, w, b_up, dead)   aw / w = (m, tag) or None      rs[j]: (ar, r_up, dead)"""

    def __init__(self, name, proto, kind, nm, ns, mode="mixed", timeout=None, w_before_aw=False, w_late=True, greedy=False,
                 err=False, faults=None, unmapped=False, cap=None, die_after_accept=False, idle0=False):
        self.name, self.proto, self.kind, self.nm, self.ns, self.mode = name, proto, kind, nm, ns, mode
        self.timeout, self.w_before_aw, self.w_late, self.greedy, self.err = timeout, w_before_aw, w_late, greedy, err
        self.fault_sw, self.die_after_accept = faults, die_after_accept
        self.idle_addr = 0 if idle0 else (1 << AWIDTH) - 1
        self.full = proto == "full"
        self.decoded = kind in ("shared", "crossbar", "decoder")
        self.has_timeout = timeout is not None and kind in ("shared", "timeout")
        self.unmapped = unmapped and self.decoded
        if cap:
            self.cap = cap
        q = [("live.deadlock", COOP, PROGRESS, (), "masters request, slaves cooperate, nothing completes")]
        for m in range(nm):
            q.append((f"live.starve.m{m}", COOP | (WAITBIT << m), SERVEDBIT << m, (),
                      f"master {m} keeps a request pending forever and is never served although everybody cooperates"))
        self.live_queries = tuple(q)
        self.cov = dict(collisions=0, w_first=0, b_backpressure=0, timeouts=0, rw_overlap=0)

    def build(self):
        self.dut = AxiIcDUT(self.proto, self.kind, self.nm, self.ns, self.timeout)
        return self.dut

    def bind(self, D):
        def port(itf):
            p = {}
            for ch in ("aw", "w", "b", "ar", "r"):
                ep = getattr(itf, ch)
                p[ch] = dict(valid=D.i(ep.valid), ready=D.i(ep.ready))
                for (fn, w) in ep.description.payload_layout:
                    p[ch][fn] = D.i(getattr(ep, fn))
                p[ch]["first"], p[ch]["last"] = D.i(ep.first), D.i(ep.last)
                for (fn, w) in ep.description.param_layout:
                    p[ch][fn] = D.i(getattr(ep, fn))
            return p
        self.M = [port(m) for m in self.dut.masters]
        self.S = [port(s) for s in self.dut.slaves]
        self.error = D.i(self.dut.error) if self.dut.error is not None else None
        self.grant_w = D.i(self.dut.grant_w) if self.dut.grant_w is not None else None
        self.grant_r = D.i(self.dut.grant_r) if self.dut.grant_r is not None else None
        self.targets = list(range(self.ns)) + ([UNMAPPED] if self.unmapped else [])
        self.writes = self.mode in ("write", "mixed")
        self.reads = self.mode in ("read", "mixed")

    def env_init(self):
        return (tuple(("I", 0) for _ in range(self.nm)), tuple(("I", 0) for _ in range(self.nm)),
                tuple((None, None, 0, 0) for _ in range(self.ns)), tuple((None, 0, 0) for _ in range(self.ns)),
                (), tuple((0, 0) for _ in range(self.nm)), tuple((0, 0) for _ in range(self.ns)))

    # ---- choices ------------------------------------------------------------------------------------
    def choices(self, env):
        wm, rm, ws, rs, stalls, ages, sst = env
        per = []
        for m in range(self.nm):
            # write process
            st = wm[m]
            if not self.writes:
                wc = [("-",)]
            elif st[0] in ("I", "T"):
                wc = [("idle",)]
                if st[0] == "I" or self.greedy:
                    for t in self.targets:
                        wc.append(("start", t, 1, 1))
                        if self.w_late:
                            wc.append(("start", t, 1, 0))
                        if self.w_before_aw:
                            wc.append(("start", t, 0, 1))
            elif st[0] == "A":
                _, t, tag, aw_up, w_up, aw_done, w_done = st
                opts_aw = [1] if (aw_up or aw_done) else [0, 1]
                opts_w = [1] if (w_up or w_done) else [0, 1]
                wc = [("cont", a, w) for a in opts_aw for w in opts_w]
            else:
                wc = [("b", 0), ("b", 1)]
            st = rm[m]
            if not self.reads:
                rc = [("-",)]
            elif st[0] in ("I", "T"):
                rc = [("idle",)]
                if st[0] == "I" or self.greedy:
                    rc += [("start", t) for t in self.targets]
            elif st[0] == "A":
                rc = [("hold",)]
            else:
                rc = [("r", 0), ("r", 1)]
            per.append([(a, b) for a in wc for b in rc])
        out = []
        for mc in itertools.product(*per):
            # which slaves can see which channel in this cycle (from the masters' intentions)
            aw_t, w_t, ar_t = set(), set(), set()
            for m, (wcx, rcx) in enumerate(mc):
                st = wm[m]
                if wcx[0] == "start":
                    if wcx[2]:
                        aw_t.add(wcx[1])
                    if wcx[3]:
                        w_t.add(wcx[1])
                elif wcx[0] == "cont":
                    if wcx[1] and not st[5]:
                        aw_t.add(st[1])
                    if wcx[2] and not st[6]:
                        w_t.add(st[1])
                if rcx[0] == "start":
                    ar_t.add(rcx[1])
                elif rcx[0] == "hold":
                    ar_t.add(rm[m][1])
            sper = []
            for j in range(self.ns):
                aw, w, b_up, dead = ws[j]
                ar, r_up, rdead = rs[j]
                # time-out runs: a live slave accepts no later than cycle T (fail-stop faults only; a slave that
                # accepts after expiry is outside C11), i.e. it may stall a request for at most T cycles
                may_w = self.timeout is None or sst[j][0] < self.timeout
                may_r = self.timeout is None or sst[j][1] < self.timeout
                c_aw = [0, 1] if (j in aw_t and aw is None and not dead and may_w) else [1]
                c_w = [0, 1] if (j in w_t and w is None and not dead and may_w) else [1]
                c_b = [0, 1] if (aw is not None and w is not None and not b_up and not dead) else [0]
                c_ar = [0, 1] if (j in ar_t and ar is None and not dead and may_r) else [1]
                c_r = [0, 1] if (ar is not None and not r_up and not dead) else [0]
                c_e = [0, 1] if (self.err and ((c_b == [0, 1]) or (c_r == [0, 1]))) else [0]
                sper.append([x for x in itertools.product(c_aw, c_w, c_b, c_ar, c_r, c_e)])
            kills = [None]
            if self.fault_sw and not any(s[3] for s in ws):
                for j in range(self.ns):
                    busy = ws[j][0] is not None or ws[j][1] is not None or rs[j][0] is not None
                    if ws[j][2] or rs[j][1]:
                        continue           # a response it has already raised stays (fail-stop happens between transfers)
                    if self.die_after_accept or not busy:
                        kills.append(j)
            for sc in itertools.product(*sper):
                for k in kills:
                    out.append((mc, sc, k))
        return out

    # ---- what the masters present ---------------------------------------------------------------------
    def wpresent(self, env, ch, m):
        """-> (tgt, tag, aw_valid, w_valid, bready)"""
        st = env[0][m]
        c = ch[0][m][0]
        if c[0] == "start":
            return (c[1], st[1], c[2], c[3], 0)
        if c[0] == "cont":
            _, t, tag, aw_up, w_up, aw_done, w_done = st
            return (t, tag, int(c[1] and not aw_done), int(c[2] and not w_done), 0)
        if c[0] == "b":
            return (st[1], st[2], 0, 0, c[1])
        return None

    def rpresent(self, env, ch, m):
        """-> (tgt, tag, ar_valid, rready)"""
        st = env[1][m]
        c = ch[0][m][1]
        if c[0] == "start":
            return (c[1], st[1], 1, 0)
        if c[0] == "hold":
            return (st[1], st[2], 1, 0)
        if c[0] == "r":
            return (st[1], st[2], 0, c[1])
        return None

    def drive(self, v, env, ch):
        for m, P in enumerate(self.M):
            w = self.wpresent(env, ch, m)
            aw, wch, b = P["aw"], P["w"], P["b"]
            # idle garbage on address / data lines
            v[aw["valid"]], v[aw["addr"]] = 0, self.idle_addr
            v[wch["valid"]], v[wch["data"]], v[wch["strb"]] = 0, 0xFFFFFFFF, 0xF
            v[b["ready"]] = 0
            if w is not None:
                t, tag, av, wv, br = w
                if av:
                    v[aw["valid"]], v[aw["addr"]] = 1, mkaddr(t, m, tag)
                if wv:
                    v[wch["valid"]], v[wch["data"]], v[wch["strb"]] = 1, wdata(t, m, tag), 0xF
                v[b["ready"]] = br
            if self.full:
                v[aw["len"]] = v[aw["lock"]] = v[aw["cache"]] = v[aw["prot"]] = v[aw["qos"]] = v[aw["region"]] = 0
                v[aw["size"]], v[aw["burst"]], v[aw["id"]] = 2, 1, m
                v[wch["last"]] = 1
            r = self.rpresent(env, ch, m)
            ar, rch = P["ar"], P["r"]
            v[ar["valid"]], v[ar["addr"]] = 0, self.idle_addr
            v[rch["ready"]] = 0
            if r is not None:
                t, tag, arv, rr = r
                if arv:
                    v[ar["valid"]], v[ar["addr"]] = 1, mkaddr(t, m, tag)
                v[rch["ready"]] = rr
            if self.full:
                v[ar["len"]] = v[ar["lock"]] = v[ar["cache"]] = v[ar["prot"]] = v[ar["qos"]] = v[ar["region"]] = 0
                v[ar["size"]], v[ar["burst"]], v[ar["id"]] = 2, 1, m
        wsx, rsx = env[2], env[3]
        for j, P in enumerate(self.S):
            aw, w, b_up, dead = wsx[j]
            ar, r_up, rdead = rsx[j]
            sc = ch[1][j]
            dead = dead or ch[2] == j
            v[P["aw"]["ready"]] = int(sc[0] and aw is None and not dead)
            v[P["w"]["ready"]] = int(sc[1] and w is None and not dead)
            bv = int((b_up or sc[2]) and aw is not None and w is not None and not dead)
            v[P["b"]["valid"]] = bv
            v[P["b"]["resp"]] = (RESP_SLVERR if sc[5] else RESP_OKAY) if bv else 3
            v[P["ar"]["ready"]] = int(sc[3] and ar is None and not dead)
            rv = int((r_up or sc[4]) and ar is not None and not dead)
            v[P["r"]["valid"]] = rv
            v[P["r"]["resp"]] = (RESP_SLVERR if sc[5] else RESP_OKAY) if rv else 3
            v[P["r"]["data"]] = (0xA000 | (j << 8) | (ar[0] << 4) | ar[1]) if rv else 0xFFFFFFFF
            if self.full:
                v[P["b"]["id"]] = aw[0] if (bv and aw) else 3
                v[P["r"]["id"]] = ar[0] if (rv and ar) else 3
                v[P["r"]["last"]] = 1

    # ---- monitors -----------------------------------------------------------------------------------
    def observe(self, v, env, ch):
        wm, rm, ws, rs, stalls, ages, sst = env
        mc, sc, kill = ch
        nm, ns = self.nm, self.ns
        wp = [self.wpresent(env, ch, m) for m in range(nm)]
        rp = [self.rpresent(env, ch, m) for m in range(nm)]
        if sum(1 for w in wp if w is not None and (w[2] or w[3])) + sum(1 for r in rp if r is not None and r[2]) > 1:
            self.cov["collisions"] += 1
        hs = lambda P, c: bool(v[P[c]["valid"]] and v[P[c]["ready"]])
        # stability of every DUT-driven valid (towards slaves: aw, w, ar; towards masters: b, r)
        snap = []
        for j, P in enumerate(self.S):
            for c, fields in (("aw", ("addr",)), ("w", ("data", "strb")), ("ar", ("addr",))):
                snap.append((v[P[c]["valid"]], v[P[c]["ready"]]) + tuple(v[P[c][f]] for f in fields))
        for m, P in enumerate(self.M):
            for c, fields in (("b", ("resp",)), ("r", ("resp", "data"))):
                snap.append((v[P[c]["valid"]], v[P[c]["ready"]]) + tuple(v[P[c][f]] for f in fields))
        nslave_ch = 3*self.ns
        if stalls:
            for k, (old, new) in enumerate(zip(stalls, snap)):
                if self.has_timeout and k < nslave_ch:
                    continue        # a time-out aborts the request: its valid disappears from the (dead) slave's port by design
                if old is not None:
                    if not new[0]:
                        return env, ("stab.valid", f"DUT output channel #{k}: valid withdrawn before ready"), 0
                    if new[2:] != old:
                        return env, ("stab.payload", f"DUT output channel #{k}: payload changed while valid & ~ready: {old} -> {new[2:]}"), 0
        stalls2 = tuple((s[2:] if (s[0] and not s[1]) else None) for s in snap)
        # slave stall counters (consecutive cycles a live slave leaves a visible request un-accepted)
        sst2 = []
        for j, P in enumerate(self.S):
            wst = (v[P["aw"]["valid"]] and not v[P["aw"]["ready"]]) or (v[P["w"]["valid"]] and not v[P["w"]["ready"]])
            rst = v[P["ar"]["valid"]] and not v[P["ar"]["ready"]]
            lim = (self.timeout or 0) + 1
            sst2.append((min(sst[j][0] + 1, lim) if wst else 0, min(sst[j][1] + 1, lim) if rst else 0))
        gw = v[self.grant_w] if self.grant_w is not None else None
        gr = v[self.grant_r] if self.grant_r is not None else None
        # slave side events
        ws2, rs2 = [], []
        flags = 0
        served = [False]*nm
        for j, P in enumerate(self.S):
            aw, w, b_up, dead = ws[j]
            ar, r_up, rdead = rs[j]
            dead2 = 1 if (dead or kill == j) else 0
            if hs(P, "aw"):
                a = v[P["aw"]["addr"]]
                t, m, tag = a >> 6, (a >> 4) & 3, (a >> 2) & 1
                ok = m < nm and wp[m] is not None and wp[m][2] and (wp[m][0], wp[m][1]) == (t, tag) and a == mkaddr(t, m, tag)
                if not ok:
                    return env, ("route.aw_unknown", f"slave {j} accepted AW addr={a:#x} that no master is presenting"), 0
                if self.decoded and t != j:
                    return env, ("route.aw", f"AW of master {m} for window {t} accepted by slave {j}"), 0
                if not hs(self.M[m], "aw"):
                    return env, ("route.aw_dup", f"slave {j} accepted the AW of master {m} but the master does not see the handshake"), 0
                aw = (m, tag)
            if hs(P, "w"):
                d = v[P["w"]["data"]]
                t, m, tag = (d >> 8) & 3, (d >> 4) & 3, d & 1
                ok = (d >> 12) == 0xD and m < nm and wp[m] is not None and wp[m][3] and (wp[m][0], wp[m][1]) == (t, tag)
                if not ok:
                    return env, ("route.w_unknown", f"slave {j} accepted W data={d:#x} that no master is presenting"), 0
                if self.decoded and t != j:
                    return env, ("route.w", f"W of master {m} for window {t} accepted by slave {j}"), 0
                if not hs(self.M[m], "w"):
                    return env, ("route.w_dup", f"slave {j} accepted the W of master {m} but the master does not see the handshake"), 0
                w = (m, tag)
            if aw is not None and w is not None and aw != w:
                return env, ("route.w_pair", f"slave {j}: W {w} does not belong to the accepted AW {aw}"), 0
            bv = v[P["b"]["valid"]]
            if hs(P, "b"):
                m = aw[0]
                if not hs(self.M[m], "b") or wm[m][0] != "B" or (wm[m][1], wm[m][2]) != (j if self.decoded else wm[m][1], aw[1]):
                    return env, ("resp.b_route", f"B of slave {j} for master {m} tag {aw[1]} was taken but master {m} (state {wm[m]}) did not receive it"), 0
                served[m] = True
                aw, w, bv = None, None, 0
            ws2.append((aw, w, 1 if bv else 0, dead2))
            if hs(P, "ar"):
                a = v[P["ar"]["addr"]]
                t, m, tag = a >> 6, (a >> 4) & 3, (a >> 2) & 1
                ok = m < nm and rp[m] is not None and rp[m][2] and (rp[m][0], rp[m][1]) == (t, tag) and a == mkaddr(t, m, tag)
                if not ok:
                    return env, ("route.ar_unknown", f"slave {j} accepted AR addr={a:#x} that no master is presenting"), 0
                if self.decoded and t != j:
                    return env, ("route.ar", f"AR of master {m} for window {t} accepted by slave {j}"), 0
                if not hs(self.M[m], "ar"):
                    return env, ("route.ar_dup", f"slave {j} accepted the AR of master {m} but the master does not see the handshake"), 0
                ar = (m, tag)
            rv = v[P["r"]["valid"]]
            if hs(P, "r"):
                m = ar[0]
                if not hs(self.M[m], "r") or rm[m][0] != "R":
                    return env, ("resp.r_route", f"R of slave {j} for master {m} was taken but master {m} (state {rm[m]}) did not receive it"), 0
                if v[self.M[m]["r"]["data"]] != v[P["r"]["data"]] or v[self.M[m]["r"]["resp"]] != v[P["r"]["resp"]]:
                    return env, ("resp.r_data", f"master {m} reads {v[self.M[m]['r']['data']]:#x}, slave {j} answered {v[P['r']['data']]:#x}"), 0
                served[m] = True
                ar, rv = None, 0
            rs2.append((ar, 1 if rv else 0, dead2))
        # master side events
        wm2, rm2, ages2 = [], [], []
        coop = True
        active = False
        to_b = to_r = 0
        for m, P in enumerate(self.M):
            st = wm[m]
            c = mc[m][0]
            w = wp[m]
            aw_hs, w_hs, b_hs = hs(P, "aw"), hs(P, "w"), hs(P, "b")
            wage, rage = ages[m]
            if w is None or st[0] == "B":
                if aw_hs or w_hs:
                    return env, ("resp.ready_stray", f"master {m}: aw/w handshake without a request"), 0
            if v[P["b"]["valid"]] and st[0] != "B":
                return env, ("resp.b_stray", f"master {m} (write state {st}) sees b.valid"), 0
            nxt = st
            if c[0] in ("start", "cont"):
                active = True
                t, tag, av, wv, _ = w
                if av and not wv and c[0] == "start":
                    pass
                if wv and not av and st[0] != "A":
                    self.cov["w_first"] += 1
                aw_up = av and not aw_hs
                w_up = wv and not w_hs
                aw_done = (st[5] if st[0] == "A" else 0) or aw_hs
                w_done = (st[6] if st[0] == "A" else 0) or w_hs
                # accepted by somebody? (the slave-side monitors above tie slave handshakes to master handshakes;
                # a master handshake with no slave handshake is only legal for time-out responders)
                if (aw_hs or w_hs) and not self.has_timeout:
                    seen = any((hs(S, "aw") and aw_hs and v[S["aw"]["addr"]] == mkaddr(t, m, tag)) or
                               (hs(S, "w") and w_hs and v[S["w"]["data"]] == wdata(t, m, tag)) for S in self.S)
                    if not seen:
                        return env, ("route.lost", f"master {m}: aw/w handshake but no slave accepted the beat"), 0
                if aw_done and w_done:
                    nxt = ("B", t, tag)
                else:
                    nxt = ("A", t, tag, int(aw_up), int(w_up), int(aw_done), int(w_done))
                    if not (av or aw_done) or not (wv or w_done):
                        coop = False          # the master itself delays a channel
                flags |= WAITBIT << m
                wage = wage + 1 if (((av and not aw_hs) or (wv and not w_hs)) and (gw is None or gw == m)) else 0
            elif c[0] == "b":
                active = True
                flags |= WAITBIT << m
                if not c[1]:
                    coop = False
                    if v[P["b"]["valid"]]:
                        self.cov["b_backpressure"] += 1
                if b_hs:
                    resp = v[P["b"]["resp"]]
                    src = [j for j, S in enumerate(self.S) if hs(S, "b")]
                    if not src:
                        if not self.has_timeout:
                            return env, ("resp.b_invented", f"master {m} received a B that no slave sent"), 0
                        if resp != RESP_SLVERR:
                            return env, ("timeout.resp", f"master {m}: time-out response is {resp}, not SLVERR"), 0
                        to_b += 1
                    nxt = ("T", st[2] ^ 1)
                    served[m] = True
                wage = 0
            else:
                nxt = ("I", st[1]) if st[0] in ("I", "T") else st
                if st[0] == "T" and False:
                    pass
                wage = 0
            if st[0] == "T" and c[0] == "start" and not self.greedy:
                coop = False                   # greedy re-request
            wm2.append(nxt)
            # read process
            st = rm[m]
            c = mc[m][1]
            r = rp[m]
            ar_hs, r_hs = hs(P, "ar"), hs(P, "r")
            if v[P["r"]["valid"]] and st[0] != "R":
                return env, ("resp.r_stray", f"master {m} (read state {st}) sees r.valid"), 0
            if ar_hs and (r is None or not r[2]):
                return env, ("resp.ready_stray", f"master {m}: ar handshake without a request"), 0
            nxt = st
            if c[0] in ("start", "hold"):
                active = True
                flags |= WAITBIT << m
                t, tag = r[0], r[1]
                if ar_hs and not self.has_timeout:
                    if not any(hs(S, "ar") and v[S["ar"]["addr"]] == mkaddr(t, m, tag) for S in self.S):
                        return env, ("route.lost", f"master {m}: ar handshake but no slave accepted it"), 0
                nxt = ("R", t, tag) if ar_hs else ("A", t, tag)
                rage = 0 if (ar_hs or (gr is not None and gr != m)) else rage + 1
            elif c[0] == "r":
                active = True
                flags |= WAITBIT << m
                if not c[1]:
                    coop = False
                if r_hs:
                    src = [j for j, S in enumerate(self.S) if hs(S, "r")]
                    if not src:
                        if not self.has_timeout:
                            return env, ("resp.r_invented", f"master {m} received an R that no slave sent"), 0
                        if v[P["r"]["resp"]] != RESP_SLVERR or v[P["r"]["data"]] != 0xFFFFFFFF:
                            return env, ("timeout.resp", f"master {m}: time-out read response resp={v[P['r']['resp']]} data={v[P['r']['data']]:#x}"), 0
                        to_r += 1
                    nxt = ("T", st[2] ^ 1)
                    served[m] = True
                rage = 0
            else:
                nxt = ("I", st[1]) if st[0] in ("I", "T") else st
                rage = 0
            if st[0] == "T" and c[0] == "start" and not self.greedy:
                coop = False
            rm2.append(nxt)
            if wm[m][0] in ("A", "B") and rm[m][0] in ("A", "R"):
                self.cov["rw_overlap"] += 1
            # time-out deadline (shared bus / bare time-out): a request stalled for T cycles is answered by the responder
            if self.timeout is not None and (self.nm == 1 or self.grant_w is not None or self.kind == "timeout"):
                lim = self.timeout + (0 if self.has_timeout else 2)
                if wage > lim + 2 or rage > lim + 2:
                    rule = "timeout.late" if self.has_timeout else "timeout.ignored"
                    return env, (rule, f"master {m}: request stalled for {max(wage, rage)} cycles with timeout_cycles={self.timeout}"), 0
                wage, rage = min(wage, lim + 3), min(rage, lim + 3)
            else:
                wage = rage = 0
            ages2.append((wage, rage))
        if self.error is not None:
            pass
        # cooperation of the slaves: every enumerated ready / response choice taken
        for j in range(ns):
            s = sc[j]
            aw, w, b_up, dead = ws[j]
            ar, r_up, rdead = rs[j]
            if dead or kill == j:
                if not self.has_timeout:
                    coop = False
                continue
            if not (s[0] and s[1] and s[3]):
                coop = False
            if aw is not None and w is not None and not b_up and not s[2]:
                coop = False
            if ar is not None and not r_up and not s[4]:
                coop = False
        # requests that nobody can answer
        if not self.has_timeout:
            for m in range(nm):
                if (wp[m] is not None and wp[m][0] >= ns) or (rp[m] is not None and rp[m][0] >= ns):
                    coop = False
        if coop and active:
            flags |= COOP
        for m in range(nm):
            if served[m]:
                flags |= (SERVEDBIT << m) | PROGRESS
        if any(hs(P, c) for P in self.M for c in ("aw", "w", "ar")):
            flags |= PROGRESS
        self.cov["timeouts"] += to_b + to_r
        return (tuple(wm2), tuple(rm2), tuple(ws2), tuple(rs2), stalls2, tuple(ages2), tuple(sst2)), None, flags

    def cover_report(self):
        return dict(self.cov)

    def vacuity(self):
        if self.nm > 1 and not self.cov["collisions"]:
            return "no simultaneous requests"
        return None
