"""AXI-Lite / AXI interconnect harness for C08 (routing, pairing, responses, stability, liveness) and the AXI part of C11.

Masters: per direction a Moore request process; AW/W in either order or together; up to K outstanding requests per direction
(K = 1 in the base runs, 2 in the '+pipelined' runs where the next AW/AR may be issued while earlier responses are pending);
bready/rready free while a response is owed ('+eager_ready': in every cycle).  Slaves: reactive ready (ready = choice, enumerated only where a request can arrive), queues of depth Q per
direction, B for the head AW+W pair / R for the head AR after an arbitrary delay, valid held.  Fail-stop faults for the
time-out runs: the whole slave, or only its AW or only its W channel, stops accepting."""
import itertools
import fsmc  # noqa
from migen import *
from litex.soc.interconnect.axi import axi_lite, axi_full
from litex.soc.interconnect.axi.axi_common import RESP_OKAY, RESP_SLVERR
from litex.soc.integration.soc import SoCRegion
from fsmc.explore import Harness, COOP, PROGRESS
from fsmc.design import MachineryError

WAITBIT, SERVEDBIT = 256, 4096
AWIDTH = 8          # byte address: [7:6] window, [5:4] master id, [3:2] tag
UNMAPPED = 3


def mkaddr(t, m, tag):
    return (t << 6) | (m << 4) | (tag << 2)


def wdata(t, m, tag):
    return 0xD000 | (t << 8) | (m << 4) | tag


class AxiIcDUT(Module):
    def __init__(self, proto, kind, nm, ns, timeout, dw=32, adr_widths=None):
        full = proto == "full"
        mkif = (lambda aw=AWIDTH: axi_full.AXIInterface(data_width=dw, address_width=aw, id_width=2)) if full else \
               (lambda aw=AWIDTH: axi_lite.AXILiteInterface(data_width=dw, address_width=aw))
        self.masters = [mkif(aw) for aw in (adr_widths or [AWIDTH]*nm)]     # masters of different address widths: the shared bus takes the widest
        self.slaves = [mkif() for _ in range(ns)]
        regions = [SoCRegion(origin=64*j, size=64) for j in range(ns)]
        widest = max(self.masters, key=lambda m: m.address_width)
        dec = [(r.decoder(widest), s) for r, s in zip(regions, self.slaves)]
        ns_ = axi_full if full else axi_lite
        pre = "AXI" if full else "AXILite"
        self.error = None
        self.grant_w = self.grant_r = None
        if kind == "shared":
            self.submodules.ic = ic = getattr(ns_, pre + "InterconnectShared")(self.masters, dec, timeout_cycles=timeout)
            # by attribute, else by class among the (possibly anonymous) submodules: the harness must not depend on how they are attached
            def sub(attr, cls):
                o = getattr(ic, attr, None)
                if o is None:
                    o = next((m for _, m in ic._submodules if type(m).__name__ == cls), None)
                if o is None:
                    raise MachineryError(f"{pre}InterconnectShared: no {cls} found")
                return o
            arb = sub("arbiter", pre + "Arbiter")
            self.grant_w, self.grant_r = arb.rr_write.grant, arb.rr_read.grant
            if timeout is not None:
                self.error = sub("timeout", pre + "Timeout").error
        elif kind == "crossbar":
            self.submodules.ic = getattr(ns_, pre + "Crossbar")(self.masters, dec, timeout_cycles=timeout)
        elif kind == "arbiter":
            self.submodules.ic = ic = getattr(ns_, pre + "Arbiter")(self.masters, self.slaves[0])
            self.grant_w, self.grant_r = ic.rr_write.grant, ic.rr_read.grant
        elif kind == "decoder":
            self.submodules.ic = getattr(ns_, pre + "Decoder")(self.masters[0], dec)
        elif kind == "p2p":
            self.submodules.ic = getattr(ns_, pre + "InterconnectPointToPoint")(self.masters[0], self.slaves[0])
        elif kind == "timeout":
            self.comb += self.masters[0].connect(self.slaves[0])
            self.submodules.to = to = getattr(ns_, pre + "Timeout")(self.masters[0], timeout)
            self.error = to.error
        else:
            raise ValueError(kind)


class AxiIcHarness(Harness):
    """env = (wm, rm, ws, rs, stalls, ages, sst)
       wm[m] = (tag, issue, pend, cool)   issue: None | (tgt, tag, aw_up, w_up, aw_done, w_done)   pend: ((tgt, tag), ...) awaiting B
       rm[m] = (tag, issue, pend, cool)   issue: None | (tgt, tag)                                  pend: ((tgt, tag), ...) awaiting R
       ws[j] = (awq, wq, b_up, fault)     awq / wq: ((m, tag), ...)    fault: 0 | 'all' | 'aw' | 'w'
       rs[j] = (arq, r_up)"""

    def __init__(self, name, proto, kind, nm, ns, mode="mixed", timeout=None, w_before_aw=False, w_late=True, greedy=False,
                 err=False, faults=None, unmapped=False, cap=None, die_after_accept=False, idle0=False, pipelined=False,
                 cross_slave=False, qdepth=None, rlen=0, eager_ready=False, dw=32, adr_widths=None):
        self.name, self.proto, self.kind, self.nm, self.ns, self.mode = name, proto, kind, nm, ns, mode
        self.dw, self.ones, self.strball = dw, (1 << dw) - 1, (1 << (dw//8)) - 1
        self.timeout, self.w_before_aw, self.w_late, self.greedy, self.err = timeout, w_before_aw, w_late, greedy, err
        self.fault_sw, self.die_after_accept = faults, die_after_accept
        self.idle_addr = 0 if idle0 else (1 << AWIDTH) - 1
        self.adr_widths = list(adr_widths) if adr_widths else None
        self.K = 2 if pipelined else 1
        self.Q = qdepth or (2 if pipelined else 1)
        self.cross_slave = cross_slave
        self.eager_ready = eager_ready   # bready / rready free in EVERY cycle (also while idle and while the request is still offered)
        self.rlen = rlen          # AXI (full) read bursts of rlen+1 beats (r.last only on the final beat)
        self.full = proto == "full"
        self.decoded = kind in ("shared", "crossbar", "decoder")
        self.has_timeout = timeout is not None and kind in ("shared", "timeout")
        self.unmapped = unmapped and self.decoded
        if cap:
            self.cap = cap
        q = [("live.deadlock", COOP, PROGRESS, (), "masters request, slaves cooperate, nothing completes")]
        for m in range(nm):
            q.append((f"live.starve.m{m}", COOP | (WAITBIT << m), SERVEDBIT << m, (),
                      f"master {m} keeps a request pending forever and is never served although everybody cooperates"))
        self.live_queries = tuple(q)
        self.cov = dict(collisions=0, w_first=0, b_backpressure=0, timeouts=0, rw_overlap=0, req_resp_same_cycle=0, max_outstanding=0)

    def build(self):
        self.dut = AxiIcDUT(self.proto, self.kind, self.nm, self.ns, self.timeout, self.dw, self.adr_widths)
        return self.dut

    def bind(self, D):
        def port(itf):
            p = {}
            for ch in ("aw", "w", "b", "ar", "r"):
                ep = getattr(itf, ch)
                p[ch] = dict(valid=D.i(ep.valid), ready=D.i(ep.ready))
                for (fn, w) in ep.description.payload_layout:
                    p[ch][fn] = D.i(getattr(ep, fn))
                p[ch]["first"], p[ch]["last"] = D.i(ep.first), D.i(ep.last)
                for (fn, w) in ep.description.param_layout:
                    p[ch][fn] = D.i(getattr(ep, fn))
            return p
        self.M = [port(m) for m in self.dut.masters]
        self.S = [port(s) for s in self.dut.slaves]
        self.error = D.i(self.dut.error) if self.dut.error is not None else None
        self.grant_w = D.i(self.dut.grant_w) if self.dut.grant_w is not None else None
        self.grant_r = D.i(self.dut.grant_r) if self.dut.grant_r is not None else None
        self.targets = list(range(self.ns)) + ([UNMAPPED] if self.unmapped else [])
        self.writes = self.mode in ("write", "mixed")
        self.reads = self.mode in ("read", "mixed")

    def env_init(self):
        return (tuple((0, None, (), 0) for _ in range(self.nm)), tuple((0, None, (), 0) for _ in range(self.nm)),
                tuple(((), (), 0, 0) for _ in range(self.ns)), tuple(((), 0, 0) for _ in range(self.ns)),
                (), tuple((0, 0) for _ in range(self.nm)), tuple((0, 0) for _ in range(self.ns)), 1)

    # ---- choices ------------------------------------------------------------------------------------
    def start_targets(self, pend, m=0):
        if pend and not self.cross_slave:
            return [pend[0][0]]          # base: all outstanding requests of one master address one slave
        if self.adr_widths:              # a narrow master reaches only the windows inside its own address space
            return [t for t in self.targets if ((3 if t == UNMAPPED else t) << 6) < (1 << self.adr_widths[m])]
        return self.targets

    def choices(self, env):
        wm, rm, ws, rs, stalls, ages, sst, eset = env
        per = []
        for m in range(self.nm):
            tag, issue, pend, cool = wm[m]
            if not self.writes:
                wc = [("-",)]
            else:
                if issue is not None:
                    t, tg, aw_up, w_up, aw_done, w_done = issue
                    ic = [("cont", a, w) for a in ([1] if (aw_up or aw_done) else [0, 1]) for w in ([1] if (w_up or w_done) else [0, 1])]
                else:
                    ic = [("idle",)]
                    if len(pend) < self.K and (not cool or self.greedy or self.K > 1):
                        for t in self.start_targets(pend, m):
                            ic.append(("start", t, 1, 1))
                            if self.w_late:
                                ic.append(("start", t, 1, 0))
                            if self.w_before_aw:
                                ic.append(("start", t, 0, 1))
                wc = [c + (b,) for c in ic for b in ((0, 1) if (pend or self.eager_ready) else (0,))]
            tag, issue, pend, cool = rm[m]
            if not self.reads:
                rc = [("-",)]
            else:
                if issue is not None:
                    ic = [("hold",)]
                else:
                    ic = [("idle",)]
                    if len(pend) < self.K and (not cool or self.greedy or self.K > 1):
                        ic += [("start", t) for t in self.start_targets(pend, m)]
                rc = [c + (b,) for c in ic for b in ((0, 1) if (pend or self.eager_ready) else (0,))]
            per.append([(a, b) for a in wc for b in rc])
        out = []
        for mc in itertools.product(*per):
            aw_t, w_t, ar_t = set(), set(), set()
            for m, (wcx, rcx) in enumerate(mc):
                issue = wm[m][1]
                if wcx[0] == "start":
                    if wcx[2]:
                        aw_t.add(wcx[1])
                    if wcx[3]:
                        w_t.add(wcx[1])
                elif wcx[0] == "cont":
                    if wcx[1] and not issue[4]:
                        aw_t.add(issue[0])
                    if wcx[2] and not issue[5]:
                        w_t.add(issue[0])
                if rcx[0] == "start":
                    ar_t.add(rcx[1])
                elif rcx[0] == "hold":
                    ar_t.add(rm[m][1][0])
            sper = []
            for j in range(self.ns):
                awq, wq, b_up, fault = ws[j]
                arq, r_up, rbeat = rs[j]
                # time-out runs: a live slave accepts no later than cycle T (fail-stop faults only; a slave that accepts after
                # expiry is outside C11), i.e. it may stall a request for at most T cycles
                may_w = self.timeout is None or sst[j][0] < self.timeout
                may_r = self.timeout is None or sst[j][1] < self.timeout
                alive = fault != "all"
                c_aw = [0, 1] if (j in aw_t and len(awq) < self.Q and alive and fault != "aw" and may_w) else [1]
                c_w = [0, 1] if (j in w_t and len(wq) < self.Q and alive and fault != "w" and may_w) else [1]
                c_b = [0, 1] if (awq and wq and not b_up and alive) else [0]
                c_ar = [0, 1] if (j in ar_t and len(arq) < self.Q and alive and may_r) else [1]
                c_r = [0, 1] if (arq and not r_up and alive) else [0]
                c_e = [0, 1] if (self.err and ((c_b == [0, 1]) or (c_r == [0, 1]))) else [0]
                sper.append([x for x in itertools.product(c_aw, c_w, c_b, c_ar, c_r, c_e)])
            kills = [None]
            if self.fault_sw and not any(s[3] for s in ws):
                for j in range(self.ns):
                    awq, wq, b_up, fault = ws[j]
                    arq, r_up, rbeat = rs[j]
                    if b_up or r_up:
                        continue           # a response it has already raised stays (fail-stop happens between transfers)
                    busy = bool(awq or wq or arq)
                    if self.die_after_accept or not busy:
                        kills.append((j, "all"))
                    if self.writes and self.Q > 1 and not wq and not awq:
                        kills.append((j, "w"))    # only the W channel stops accepting (AW keeps being accepted)
                        kills.append((j, "aw"))
            for sc in itertools.product(*sper):
                for k in kills:
                    out.append((mc, sc, k))
        return out

    # ---- what the masters present ---------------------------------------------------------------------
    def wpresent(self, env, ch, m):
        """-> (tgt, tag, aw_valid, w_valid) of the request in its issue phase, or None"""
        tag, issue, pend, cool = env[0][m]
        c = ch[0][m][0]
        if c[0] == "start":
            return (c[1], tag, c[2], c[3])
        if c[0] == "cont":
            t, tg, aw_up, w_up, aw_done, w_done = issue
            return (t, tg, int(c[1] and not aw_done), int(c[2] and not w_done))
        return None

    def rpresent(self, env, ch, m):
        tag, issue, pend, cool = env[1][m]
        c = ch[0][m][1]
        if c[0] == "start":
            return (c[1], tag, 1)
        if c[0] == "hold":
            return (issue[0], issue[1], 1)
        return None

    def fault_of(self, env, ch, j):
        f = env[2][j][3]
        if not f and ch[2] is not None and ch[2][0] == j:
            f = ch[2][1]
        return f

    def drive(self, v, env, ch):
        for m, P in enumerate(self.M):
            w = self.wpresent(env, ch, m)
            aw, wch, b = P["aw"], P["w"], P["b"]
            idle_addr = self.idle_addr & ((1 << self.adr_widths[m]) - 1) if self.adr_widths else self.idle_addr
            v[aw["valid"]], v[aw["addr"]] = 0, idle_addr
            v[wch["valid"]], v[wch["data"]], v[wch["strb"]] = 0, self.ones, self.strball
            wc = ch[0][m][0]
            v[b["ready"]] = wc[-1] if wc[0] != "-" else 0
            if w is not None:
                t, tag, av, wv = w
                if av:
                    v[aw["valid"]], v[aw["addr"]] = 1, mkaddr(t, m, tag)
                if wv:
                    v[wch["valid"]], v[wch["data"]], v[wch["strb"]] = 1, wdata(t, m, tag), self.strball
            if self.full:
                v[aw["len"]] = v[aw["lock"]] = v[aw["cache"]] = v[aw["prot"]] = v[aw["qos"]] = v[aw["region"]] = 0
                v[aw["size"]], v[aw["burst"]], v[aw["id"]] = 2, 1, m
                v[wch["last"]] = 1
            r = self.rpresent(env, ch, m)
            ar, rch = P["ar"], P["r"]
            v[ar["valid"]], v[ar["addr"]] = 0, idle_addr
            rc = ch[0][m][1]
            v[rch["ready"]] = rc[-1] if rc[0] != "-" else 0
            if r is not None:
                t, tag, arv = r
                v[ar["valid"]], v[ar["addr"]] = 1, mkaddr(t, m, tag)
            if self.full:
                v[ar["lock"]] = v[ar["cache"]] = v[ar["prot"]] = v[ar["qos"]] = v[ar["region"]] = 0
                v[ar["len"]] = self.rlen
                v[ar["size"]], v[ar["burst"]], v[ar["id"]] = 2, 1, m
        wsx, rsx = env[2], env[3]
        for j, P in enumerate(self.S):
            awq, wq, b_up, _ = wsx[j]
            arq, r_up, rbeat = rsx[j]
            sc = ch[1][j]
            fault = self.fault_of(env, ch, j)
            alive = fault != "all"
            v[P["aw"]["ready"]] = int(sc[0] and len(awq) < self.Q and alive and fault != "aw")
            v[P["w"]["ready"]] = int(sc[1] and len(wq) < self.Q and alive and fault != "w")
            bv = int((b_up or sc[2]) and bool(awq) and bool(wq) and alive)
            v[P["b"]["valid"]] = bv
            v[P["b"]["resp"]] = (RESP_SLVERR if sc[5] else RESP_OKAY) if bv else 3
            v[P["ar"]["ready"]] = int(sc[3] and len(arq) < self.Q and alive)
            rv = int((r_up or sc[4]) and bool(arq) and alive)
            v[P["r"]["valid"]] = rv
            v[P["r"]["resp"]] = (RESP_SLVERR if sc[5] else RESP_OKAY) if rv else 3
            v[P["r"]["data"]] = (0xA000 | (rbeat << 12) | (j << 8) | (arq[0][0] << 4) | arq[0][1]) if rv else self.ones
            if self.full:
                v[P["b"]["id"]] = awq[0][0] if bv else 3
                v[P["r"]["id"]] = arq[0][0] if rv else 3
                v[P["r"]["last"]] = int(rbeat == self.rlen) if rv else 1

    # ---- monitors -----------------------------------------------------------------------------------
    def observe(self, v, env, ch):
        wm, rm, ws, rs, stalls, ages, sst, eset = env
        mc, sc, kill = ch
        nm, ns = self.nm, self.ns
        wp = [self.wpresent(env, ch, m) for m in range(nm)]
        rp = [self.rpresent(env, ch, m) for m in range(nm)]
        if sum(1 for w in wp if w is not None and (w[2] or w[3])) + sum(1 for r in rp if r is not None) > 1:
            self.cov["collisions"] += 1
        hs = lambda P, c: bool(v[P[c]["valid"]] and v[P[c]["ready"]])
        # stability of every DUT-driven valid (towards slaves: aw, w, ar; towards masters: b, r)
        snap = []
        for j, P in enumerate(self.S):
            for c, fields in (("aw", ("addr",)), ("w", ("data", "strb")), ("ar", ("addr",))):
                snap.append((v[P[c]["valid"]], v[P[c]["ready"]]) + tuple(v[P[c][f]] for f in fields))
        for m, P in enumerate(self.M):
            for c, fields in (("b", ("resp",)), ("r", ("resp", "data"))):
                snap.append((v[P[c]["valid"]], v[P[c]["ready"]]) + tuple(v[P[c][f]] for f in fields))
        nslave_ch = 3*self.ns
        if stalls:
            for k, (old, new) in enumerate(zip(stalls, snap)):
                if self.has_timeout and k < nslave_ch:
                    continue        # a time-out aborts the request: its valid disappears from the (dead) slave's port by design
                if old is not None:
                    if not new[0]:
                        return env, ("stab.valid", f"DUT output channel #{k}: valid withdrawn before ready"), 0
                    if new[2:] != old:
                        return env, ("stab.payload", f"DUT output channel #{k}: payload changed while valid & ~ready: {old} -> {new[2:]}"), 0
        stalls2 = tuple((s[2:] if (s[0] and not s[1]) else None) for s in snap)
        # slave stall counters (consecutive cycles a live slave leaves a visible request un-accepted)
        sst2 = []
        for j, P in enumerate(self.S):
            wst = (v[P["aw"]["valid"]] and not v[P["aw"]["ready"]]) or (v[P["w"]["valid"]] and not v[P["w"]["ready"]])
            rst = v[P["ar"]["valid"]] and not v[P["ar"]["ready"]]
            lim = (self.timeout or 0) + 1
            sst2.append((min(sst[j][0] + 1, lim) if wst else 0, min(sst[j][1] + 1, lim) if rst else 0))
        gw = v[self.grant_w] if self.grant_w is not None else None
        gr = v[self.grant_r] if self.grant_r is not None else None
        # ---------------- slave side events ----------------
        ws2, rs2 = [], []
        flags = 0
        served = [False]*nm
        b_from = {}     # master -> (slave, tag) of a B handshake seen at a slave port in this cycle
        r_from = {}
        for j, P in enumerate(self.S):
            awq, wq, b_up, fault0 = ws[j]
            arq, r_up, rbeat = rs[j]
            fault2 = self.fault_of(env, ch, j)
            if hs(P, "aw"):
                a = v[P["aw"]["addr"]]
                t, m, tag = a >> 6, (a >> 4) & 3, (a >> 2) & 3
                ok = m < nm and wp[m] is not None and wp[m][2] and (wp[m][0], wp[m][1]) == (t, tag) and a == mkaddr(t, m, tag)
                if not ok:
                    return env, ("route.aw_unknown", f"slave {j} accepted AW addr={a:#x} that no master is presenting"), 0
                if self.decoded and t != j:
                    return env, ("route.aw", f"AW of master {m} for window {t} accepted by slave {j}"), 0
                if not hs(self.M[m], "aw"):
                    return env, ("route.aw_dup", f"slave {j} accepted the AW of master {m} but the master does not see the handshake"), 0
                awq = awq + ((m, tag),)
            if hs(P, "w"):
                d = v[P["w"]["data"]]
                t, m, tag = (d >> 8) & 3, (d >> 4) & 3, d & 3
                ok = (d >> 12) == 0xD and m < nm and wp[m] is not None and wp[m][3] and (wp[m][0], wp[m][1]) == (t, tag)
                if not ok:
                    return env, ("route.w_unknown", f"slave {j} accepted W data={d:#x} that no master is presenting"), 0
                if self.decoded and t != j:
                    return env, ("route.w", f"W of master {m} for window {t} accepted by slave {j}"), 0
                if not hs(self.M[m], "w"):
                    return env, ("route.w_dup", f"slave {j} accepted the W of master {m} but the master does not see the handshake"), 0
                wq = wq + ((m, tag),)
            for k in range(min(len(awq), len(wq))):
                if awq[k] != wq[k]:
                    return env, ("route.w_pair", f"slave {j}: W #{k} {wq[k]} does not belong to AW #{k} {awq[k]}"), 0
            bv = v[P["b"]["valid"]]
            if hs(P, "b"):
                m, tag = awq[0]
                b_from[m] = (j, tag)
                awq, wq, bv = awq[1:], wq[1:], 0
            ws2.append((awq, wq, 1 if bv else 0, fault2))
            if hs(P, "ar"):
                a = v[P["ar"]["addr"]]
                t, m, tag = a >> 6, (a >> 4) & 3, (a >> 2) & 3
                ok = m < nm and rp[m] is not None and (rp[m][0], rp[m][1]) == (t, tag) and a == mkaddr(t, m, tag)
                if not ok:
                    return env, ("route.ar_unknown", f"slave {j} accepted AR addr={a:#x} that no master is presenting"), 0
                if self.decoded and t != j:
                    return env, ("route.ar", f"AR of master {m} for window {t} accepted by slave {j}"), 0
                if not hs(self.M[m], "ar"):
                    return env, ("route.ar_dup", f"slave {j} accepted the AR of master {m} but the master does not see the handshake"), 0
                arq = arq + ((m, tag),)
            rv = v[P["r"]["valid"]]
            if hs(P, "r"):
                m, tag = arq[0]
                lastbeat = (not self.full) or rbeat == self.rlen
                r_from[m] = (j, tag, v[P["r"]["data"]], v[P["r"]["resp"]], lastbeat)
                if lastbeat:
                    arq, rbeat = arq[1:], 0
                else:
                    rbeat += 1
                rv = 0
            rs2.append((arq, 1 if rv else 0, rbeat))
        # ---------------- master side events ----------------
        wm2, rm2, ages2 = [], [], []
        coop = True
        active = False
        to_b = to_r = 0
        for m, P in enumerate(self.M):
            tag, issue, pend, cool = wm[m]
            c = mc[m][0]
            w = wp[m]
            aw_hs, w_hs, b_hs = hs(P, "aw"), hs(P, "w"), hs(P, "b")
            wage, rage = ages[m]
            if w is None and (aw_hs or w_hs):
                return env, ("resp.ready_stray", f"master {m}: aw/w handshake without a request"), 0
            if v[P["b"]["valid"]] and not pend:
                return env, ("resp.b_stray", f"master {m} has no write awaiting its response but sees b.valid"), 0
            issue2, pend2, tag2, cool2 = issue, pend, tag, 0
            if c[0] in ("start", "cont"):
                active = True
                t, tg, av, wv = w
                if wv and not av and c[0] == "start":
                    self.cov["w_first"] += 1
                aw_done = (issue[4] if issue is not None else 0) or aw_hs
                w_done = (issue[5] if issue is not None else 0) or w_hs
                if aw_hs or w_hs:
                    seen = any((hs(S, "aw") and aw_hs and v[S["aw"]["addr"]] == mkaddr(t, m, tg)) or
                               (hs(S, "w") and w_hs and v[S["w"]["data"]] == wdata(t, m, tg)) for S in self.S)
                    if not seen:
                        if not self.has_timeout:
                            return env, ("route.lost", f"master {m}: aw/w handshake but no slave accepted the beat"), 0
                        # taken by the time-out responder: only after the request itself was left waiting for the whole time-out
                        self.cov["min_wait_before_timeout"] = min(self.cov.get("min_wait_before_timeout", 99), wage)
                        if wage < self.timeout + 1:
                            return env, ("timeout.premature", f"master {m}: write absorbed by the time-out responder after waiting {wage} cycle(s), timeout_cycles={self.timeout}"), 0
                if c[0] == "start":
                    tag2 = (tag + 1) % 4
                if aw_done and w_done:
                    issue2 = None
                    pend2 = pend + ((t, tg),)
                    if (aw_hs or w_hs) and b_hs:
                        self.cov["req_resp_same_cycle"] += 1
                else:
                    issue2 = (t, tg, int(av and not aw_hs), int(wv and not w_hs), int(aw_done), int(w_done))
                    if not (av or aw_done) or not (wv or w_done):
                        coop = False          # the master itself delays a channel
                flags |= WAITBIT << m
                wage = wage + 1 if (((av and not aw_hs) or (wv and not w_hs)) and (gw is None or gw == m)) else 0
            else:
                wage = 0
            if pend:
                active = True
                flags |= WAITBIT << m
                if c[0] != "-" and not c[-1]:
                    coop = False
                    if v[P["b"]["valid"]]:
                        self.cov["b_backpressure"] += 1
            if b_hs:
                resp = v[P["b"]["resp"]]
                if m in b_from:
                    j, btag = b_from.pop(m)
                    exp = pend[0]
                    if (j if self.decoded else exp[0], btag) != exp:
                        return env, ("resp.b_route", f"master {m} awaits the response of request {exp} but receives the B of slave {j} for tag {btag}"), 0
                else:
                    if not self.has_timeout:
                        return env, ("resp.b_invented", f"master {m} received a B that no slave sent"), 0
                    if resp != RESP_SLVERR:
                        return env, ("timeout.resp", f"master {m}: time-out response is {resp}, not SLVERR"), 0
                    to_b += 1
                pend2 = pend2[1:]
                served[m] = True
                cool2 = 1
            if len(pend2) + (issue2 is not None) > self.cov["max_outstanding"]:
                self.cov["max_outstanding"] = len(pend2) + (issue2 is not None)
            if cool and c[0] == "start" and self.K == 1 and not self.greedy:
                coop = False
            wm2.append((tag2, issue2, pend2, cool2))
            # ---- read process ----
            tag, issue, pend, cool = rm[m]
            c = mc[m][1]
            r = rp[m]
            ar_hs, r_hs = hs(P, "ar"), hs(P, "r")
            if v[P["r"]["valid"]] and not pend:
                return env, ("resp.r_stray", f"master {m} has no read awaiting its response but sees r.valid"), 0
            if ar_hs and r is None:
                return env, ("resp.ready_stray", f"master {m}: ar handshake without a request"), 0
            issue2, pend2, tag2, cool2 = issue, pend, tag, 0
            if c[0] in ("start", "hold"):
                active = True
                flags |= WAITBIT << m
                t, tg = r[0], r[1]
                if ar_hs:
                    if not any(hs(S, "ar") and v[S["ar"]["addr"]] == mkaddr(t, m, tg) for S in self.S):
                        if not self.has_timeout:
                            return env, ("route.lost", f"master {m}: ar handshake but no slave accepted it"), 0
                        self.cov["min_wait_before_timeout"] = min(self.cov.get("min_wait_before_timeout", 99), rage)
                        if rage < self.timeout + 1:
                            return env, ("timeout.premature", f"master {m}: read absorbed by the time-out responder after waiting {rage} cycle(s), timeout_cycles={self.timeout}"), 0
                if c[0] == "start":
                    tag2 = (tag + 1) % 4
                if ar_hs:
                    issue2, pend2 = None, pend + ((t, tg),)
                    if r_hs:
                        self.cov["req_resp_same_cycle"] += 1
                else:
                    issue2 = (t, tg)
                rage = 0 if (ar_hs or (gr is not None and gr != m)) else rage + 1
            else:
                rage = 0
            if pend:
                active = True
                flags |= WAITBIT << m
                if c[0] != "-" and not c[-1]:
                    coop = False
            if r_hs:
                lastbeat = True
                if m in r_from:
                    j, rtag, rdata, rresp, lastbeat = r_from.pop(m)
                    if self.full and bool(v[P["r"]["last"]]) != lastbeat:
                        return env, ("resp.r_last", f"master {m}: r.last={v[P['r']['last']]} on a beat whose slave-side last is {int(lastbeat)}"), 0
                    exp = pend[0]
                    if (j if self.decoded else exp[0], rtag) != exp:
                        return env, ("resp.r_route", f"master {m} awaits the response of read {exp} but receives the R of slave {j} for tag {rtag}"), 0
                    if v[P["r"]["data"]] != rdata or v[P["r"]["resp"]] != rresp:
                        return env, ("resp.r_data", f"master {m} reads {v[P['r']['data']]:#x}, slave {j} answered {rdata:#x}"), 0
                else:
                    if not self.has_timeout:
                        return env, ("resp.r_invented", f"master {m} received an R that no slave sent"), 0
                    if v[P["r"]["resp"]] != RESP_SLVERR or v[P["r"]["data"]] != self.ones:
                        return env, ("timeout.resp", f"master {m}: time-out read response resp={v[P['r']['resp']]} data={v[P['r']['data']]:#x}"), 0
                    to_r += 1
                if lastbeat:
                    pend2 = pend2[1:]
                    cool2 = 1
                served[m] = True
            if cool and c[0] == "start" and self.K == 1 and not self.greedy:
                coop = False
            rm2.append((tag2, issue2, pend2, cool2))
            if (wm[m][1] is not None or wm[m][2]) and (rm[m][1] is not None or rm[m][2]):
                self.cov["rw_overlap"] += 1
            # time-out deadline (shared bus / bare time-out): a request stalled for T cycles is answered by the responder
            if self.timeout is not None and (self.nm == 1 or self.grant_w is not None or self.kind == "timeout"):
                lim = self.timeout + (0 if self.has_timeout else 2)
                if wage > lim + 2 or rage > lim + 2:
                    rule = "timeout.late" if self.has_timeout else "timeout.ignored"
                    return env, (rule, f"master {m}: request stalled for {max(wage, rage)} cycles with timeout_cycles={self.timeout}"), 0
                wage, rage = min(wage, lim + 3), min(rage, lim + 3)
            else:
                wage = rage = 0
            ages2.append((wage, rage))
        if b_from or r_from:
            k = list(b_from or r_from)[0]
            return env, ("resp.lost", f"a slave's response for master {k} was taken but the master did not receive it"), 0
        # cooperation of the slaves: every enumerated ready / response choice taken
        for j in range(ns):
            s = sc[j]
            awq, wq, b_up, fault0 = ws[j]
            arq, r_up, rbeat = rs[j]
            if self.fault_of(env, ch, j):
                if not self.has_timeout:
                    coop = False
                continue
            if not (s[0] and s[1] and s[3]):
                coop = False
            if awq and wq and not b_up and not s[2]:
                coop = False
            if arq and not r_up and not s[4]:
                coop = False
        if not self.has_timeout:
            for m in range(nm):
                if (wp[m] is not None and wp[m][0] >= ns) or (rp[m] is not None and rp[m][0] >= ns):
                    coop = False
        if coop and active:
            flags |= COOP
        for m in range(nm):
            if served[m]:
                flags |= (SERVEDBIT << m) | PROGRESS
        if any(hs(P, c) for P in self.M for c in ("aw", "w", "ar")):
            flags |= PROGRESS
        self.cov["timeouts"] += to_b + to_r
        # error output of the time-out module (feeds the SoC's bus error counter): one pulse per timed-out request.  It is
        # the OR of the write and the read direction, so the monitor keeps the set of possible (write owes a synthesised
        # response, read owes one) pairs: bit pw + 2*pr of eset.
        ext = eset >> 4
        eset &= 15
        if self.error is not None and self.has_timeout and self.kind == "timeout":
            # bare time-out module (1 master, 1 slave, combinational pass-through): the cycle in which the responder takes over a
            # direction is visible from outside - the master's address / data valid is accepted although the slave holds the
            # matching ready low - and the error pulse of that expiry belongs in the cycle before, exactly.  This pins every pulse
            # to its direction and cycle (the set construction below cannot tell two expiries in adjacent cycles from two in one).
            resp_w, resp_r, err_prev = ext & 1, (ext >> 1) & 1, (ext >> 2) & 1
            P0, S0 = self.M[0], self.S[0]
            abs_w = (hs(P0, "aw") and not v[S0["aw"]["ready"]]) or (hs(P0, "w") and not v[S0["w"]["ready"]])
            abs_r = hs(P0, "ar") and not v[S0["ar"]["ready"]]
            start_w, start_r = bool(abs_w and not resp_w), bool(abs_r and not resp_r)
            if (start_w or start_r) and not err_prev:
                return env, ("timeout.error_pulse", f"the time-out responder took over a {'write' if start_w else 'read'} request in this cycle "
                             "but error was not pulsed in the cycle before (one pulse per expiry, in the expiry cycle)"), 0
            if err_prev and not (start_w or start_r):
                return env, ("timeout.error_pulse", "error was pulsed in the previous cycle but the responder takes over no request now"), 0
            resp_w = int((resp_w or start_w) and not to_b)
            resp_r = int((resp_r or start_r) and not to_r)
            ext = resp_w | (resp_r << 1) | (int(bool(v[self.error])) << 2)
        if self.error is not None and self.has_timeout:
            if v[self.error]:
                nxt = 0
                for st in range(4):
                    if (eset >> st) & 1:
                        pw, pr = st & 1, st >> 1
                        if not pw and self.writes:
                            nxt |= 1 << (1 + 2 * pr)
                        if not pr and self.reads:
                            nxt |= 1 << (pw + 2)
                        if not pw and not pr and self.writes and self.reads:
                            nxt |= 1 << 3
                if not nxt:
                    return env, ("timeout.error_pulse", "error pulsed again while every direction in use already owes its time-out response"), 0
                eset = nxt
                self.cov["error_pulses"] = self.cov.get("error_pulses", 0) + 1
            for n_to, bit in ((to_b, 1), (to_r, 2)):
                for _ in range(n_to):
                    nxt = 0
                    for st in range(4):
                        if (eset >> st) & 1 and st & bit:
                            nxt |= 1 << (st & ~bit)
                    if not nxt:
                        return env, ("timeout.error_pulse", f"a {'write' if bit == 1 else 'read'} request was answered by the time-out responder but error never pulsed for it"), 0
                    eset = nxt
            if not any(x[1] is not None or x[2] for x in wm2) and not any(x[1] is not None or x[2] for x in rm2):
                if not eset & 1:
                    return env, ("timeout.error_pulse", "error pulsed although no request timed out (nothing outstanding any more, no time-out response seen)"), 0
                eset = 1
        return (tuple(wm2), tuple(rm2), tuple(ws2), tuple(rs2), stalls2, tuple(ages2), tuple(sst2), eset | (ext << 4)), None, flags

    def cover_report(self):
        return dict(self.cov)

    def vacuity(self):
        if self.nm > 1 and not self.cov["collisions"]:
            return "no simultaneous requests"
        if self.K > 1 and not self.cov["req_resp_same_cycle"]:
            return "a new request was never accepted in the cycle of an earlier response"
        return None
