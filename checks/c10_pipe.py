"""C10 part 3 — two read bursts in flight through AXIUpConverter / AXIDownConverter (side-band alignment with the converter
latency under overlap).  The master may present the second AR as soon as the first is accepted, the slave may accept both
before answering and presents the beats of the second burst right behind those of the first (timing free), the master
stalls R at will.  The two bursts differ in id and resp, so a side-band value that leaks from one burst into a beat of the
other is visible; data, last and the beat count are checked like in part 2.  After both bursts the pair starts again from
whatever state the converter was left in."""
import itertools
import fsmc  # noqa
from migen import *
from fsmc.explore import Harness, COOP, PROGRESS
from fsmc.design import MachineryError
from checks import c10_ref as ref
from checks.c10_conv import ConvDUT, mem_byte, AX, AW, IDW

OKAY, SLVERR = 0, 2


class PipeReadHarness(Harness):
    """env = (pair, m_ar, arq, s_rn, s_rh, m_rn, m_bn, s_arn)
         pair  None | the two bursts ((addr, len, size, burst, id, resp), (...)) chosen in the first step
         m_ar  (ARs of the master accepted so far 0..2, the next one is being offered 0/1)
         arq   slave-side ARs accepted and not yet fully answered (addr, len, size, burst, id, master burst index), oldest first
         s_rn  beats of the oldest slave-side burst the converter has taken; s_rh the next beat is being offered
         m_rn  index of the master burst whose beats are arriving (0, 1, 2 = all done); m_bn beats of it received
         s_arn slave-side ARs accepted so far (one per master burst for these converters)"""
    conf_first = 12
    conf_every = 41
    cap = 1_500_000
    live_queries = (("live.stuck", COOP, PROGRESS, (),
                     "master and slave offer and accept everything, the reads are not finished, no handshake ever happens"),)

    def __init__(self, name, cls, dwf, dwt):
        self.name, self.cls, self.dwf, self.dwt = name, cls, dwf, dwt
        self.mb, self.sb = dwf // 8, dwt // 8
        self.group = []
        self._lanes, self._rbeat = {}, {}
        self.cov = dict(pairs=0, both_ars_before_first_beat=0, second_burst_offered_while_first_stalled=0, m_r_beats=0, finished=0)

    def set_group(self, g):
        self.group = list(g)
        self.cov["pairs"] += len(self.group)

    def build(self):
        self.dut = ConvDUT(self.cls, self.dwf, self.dwt)
        return self.dut

    def bind(self, D):
        def ch(itf):
            return {c: {n: D.i(getattr(getattr(itf, c), n)) for n in names}
                    for c, names in (("ar", AX), ("r", ("valid", "ready", "data", "resp", "id", "last")))}
        self.M, self.S = ch(self.dut.m), ch(self.dut.s)
        # the write channels stay idle
        self.idle = []
        for itf, names in ((self.dut.m, (("aw", "valid"), ("w", "valid"), ("b", "ready"))), (self.dut.s, (("aw", "ready"), ("w", "ready"), ("b", "valid")))):
            for c, n in names:
                self.idle.append(D.i(getattr(getattr(itf, c), n)))

    def lanes(self, b):
        l = self._lanes.get(b)
        if l is None:
            why = ref.illegal(b[0], b[1], b[2], b[3], self.mb)
            if why:
                raise MachineryError(f"harness generated an illegal burst {b}: {why}")
            l = self._lanes[b] = ref.beat_bytes(b[0], b[1], b[2], b[3], self.mb)
        return l

    def env_init(self):
        return (None, (0, 0), (), 0, 0, 0, 0, 0)

    def choices(self, env):
        pair, m_ar, arq, s_rn, s_rh, m_rn, m_bn, s_arn = env
        if pair is None:
            return [("pair",) + tuple(g) for g in self.group]
        if m_rn == 2 and not arq:
            return [("end",)]
        n_ar, off = m_ar
        ar_v = ((1,) if off else (0, 1)) if n_ar < 2 else (0,)
        ar_r = (0, 1) if s_arn < 2 else (0,)
        r_v = ((1,) if s_rh else (0, 1)) if arq else (0,)
        return list(itertools.product(ar_v, (0, 1), ar_r, r_v))

    def slave_rbeat(self, s_ar, j):
        k = (s_ar[:5], j)
        r = self._rbeat.get(k)
        if r is None:
            a, ln, sz, bt, i = s_ar[:5]
            adr, lo, up = ref.byte_lanes(a, ln, sz, bt, j + 1, self.sb)
            word = (adr // self.sb) * self.sb
            data = 0
            for lane in range(self.sb):
                byte = mem_byte(word + lane) if lo <= lane <= up else (0xE0 | (lane & 0xF))
                data |= byte << (8 * lane)
            r = self._rbeat[k] = (data, 1 if j == ln else 0, i)
        return r

    def drive(self, v, env, ch):
        pair, m_ar, arq, s_rn, s_rh, m_rn, m_bn, s_arn = env
        M, S = self.M, self.S
        for i in self.idle:
            v[i] = 0
        if pair is None or ch[0] in ("pair", "end"):
            ar_v, r_r, ar_r, r_v = 0, 1, 0, 0
        else:
            ar_v, r_r, ar_r, r_v = ch
        X = M["ar"]
        v[X["valid"]] = ar_v
        if ar_v:
            b = pair[m_ar[0]]
            v[X["addr"]], v[X["len"]], v[X["size"]], v[X["burst"]], v[X["id"]] = b[:5]
        else:
            v[X["addr"]], v[X["len"]], v[X["size"]], v[X["burst"]], v[X["id"]] = (1 << AW) - 1, 0xFF, 7, 3, (1 << IDW) - 1
        v[M["r"]["ready"]] = r_r
        v[S["ar"]["ready"]] = ar_r
        X = S["r"]
        v[X["valid"]] = r_v
        if r_v:
            s_ar = arq[0]
            data, last, i = self.slave_rbeat(s_ar, s_rn)
            v[X["data"]], v[X["last"]], v[X["id"]], v[X["resp"]] = data, last, i, pair[s_ar[5]][5]
        else:
            v[X["data"]], v[X["last"]], v[X["id"]], v[X["resp"]] = (1 << self.dwt) - 1, 1, 0, 3

    def bname(self, b):
        return f"{ref.BURST_NAMES[b[3]]} addr={b[0]:#x} len={b[1]} size={b[2]} id={b[4]} resp={b[5]} on {self.dwf}->{self.dwt} bit"

    def observe(self, v, env, ch):
        pair, m_ar, arq, s_rn, s_rh, m_rn, m_bn, s_arn = env
        M, S = self.M, self.S
        if pair is None or ch[0] == "end":
            for nm, X in (("ar", S["ar"]), ("r", M["r"])):
                if v[X["valid"]]:
                    return env, (nm + ".spurious", f"{nm}.valid=1 while no read is outstanding"), 0
            if pair is None:
                return ((tuple(ch[1]), tuple(ch[2])), (0, 0), (), 0, 0, 0, 0, 0), None, 0
            self.cov["finished"] += 1
            return self.env_init(), None, 0
        bursts = pair
        ar_v, r_r, ar_r, r_v = ch
        n_ar, off = m_ar
        prog, coop = False, True
        # master AR
        if ar_v:
            if v[M["ar"]["ready"]]:
                n_ar, off, prog = n_ar + 1, 0, True
            else:
                off = 1
        elif n_ar < 2:
            coop = False
        # slave AR
        X = S["ar"]
        arq2 = arq
        if v[X["valid"]]:
            taken = s_arn
            if ar_r:
                cap = (v[X["addr"]], v[X["len"]], v[X["size"]], v[X["burst"]], v[X["id"]])
                if taken >= 2:
                    return env, ("ar.extra", f"a third AR is offered to the slave: {cap}"), 0
                b = bursts[taken]
                why = ref.illegal(cap[0], cap[1], cap[2], cap[3], self.sb, AW)
                if why:
                    return env, ("ar.illegal", f"{self.bname(b)}: slave-side AR {cap} is not a legal AXI burst: {why}"), 0
                if cap[4] != b[4]:
                    return env, ("ar.id", f"{self.bname(b)}: slave-side AR id={cap[4]}"), 0
                arq2 = arq + (cap + (taken,),)
                s_arn += 1
                prog = True
                if len(arq2) == 2 and m_rn == 0 and m_bn == 0 and s_rn == 0:
                    self.cov["both_ars_before_first_beat"] += 1
        if s_arn < 2 and not ar_r:
            coop = False
        # slave R
        if r_v:
            if v[S["r"]["ready"]]:
                s_rn, s_rh, prog = s_rn + 1, 0, True
                if s_rn == arq2[0][1] + 1:
                    arq2, s_rn = arq2[1:], 0
            else:
                s_rh = 1
                if arq[0][5] == 1 and m_rn == 0 and v[M["r"]["valid"]]:
                    self.cov["second_burst_offered_while_first_stalled"] += 1
        elif arq:
            coop = False
        # master R
        X = M["r"]
        if v[X["valid"]]:
            if m_rn >= 2:
                return env, ("r.extra", "an R beat is offered to the master after both bursts were answered"), 0
            b = bursts[m_rn]
            if r_r:
                data = v[X["data"]]
                for (a, lane) in self.lanes(b)[m_bn]:
                    got = (data >> (8 * lane)) & 0xFF
                    if got != mem_byte(a):
                        return env, ("r.data", f"{self.bname(b)} (burst {m_rn+1} of 2 in flight): R beat {m_bn+1} lane {lane} (byte address {a:#x}) carries {got:#x}, memory holds {mem_byte(a):#x}"), 0
                if v[X["last"]] != (1 if m_bn == b[1] else 0):
                    return env, ("r.last", f"{self.bname(b)} (burst {m_rn+1} of 2 in flight): R beat {m_bn+1} of {b[1]+1} has last={v[X['last']]}"), 0
                if (v[X["id"]], v[X["resp"]]) != (b[4], b[5]):
                    return env, ("r.sideband", f"{self.bname(b)} (burst {m_rn+1} of 2 in flight): R beat {m_bn+1} reaches the master with id={v[X['id']]} resp={v[X['resp']]}"), 0
                m_bn, prog = m_bn + 1, True
                self.cov["m_r_beats"] += 1
                if m_bn == b[1] + 1:
                    m_rn, m_bn = m_rn + 1, 0
        if not r_r:
            coop = False
        flags = (COOP if coop else 0) | (PROGRESS if prog else 0)
        return (pair, (n_ar, off), arq2, s_rn, s_rh, m_rn, m_bn, s_arn), None, flags

    def cover_report(self):
        return dict(self.cov)

    def vacuity(self):
        if not self.cov["both_ars_before_first_beat"]:
            return "the slave never held both ARs before answering"
        if self.dwt < self.dwf and not self.cov["second_burst_offered_while_first_stalled"]:
            # (up-conversion hands a wide beat out chunk by chunk and only then takes the next one: no such overlap there)
            return "the second burst was never offered while a beat of the first was stalled at the master"
        return None


def pairs(dwf, dwt):
    """pairs of full-width INCR reads with different id and resp, both orders of resp.  Down-conversion: single beats and a
    two-beat burst; up-conversion: bursts that fill whole words of the wide side (the only ones AXIUpConverter supports, see
    the known finding on its partial / unaligned bursts): one and two wide words."""
    mbytes = dwf // 8
    size = mbytes.bit_length() - 1
    if dwt > dwf:
        ratio = dwt // dwf
        lens = ((ratio - 1, ratio - 1), (2*ratio - 1, ratio - 1), (ratio - 1, 2*ratio - 1))
    else:
        lens = ((0, 0), (1, 0), (0, 1))
    out = []
    for (l0, l1) in lens:
        for (r0, r1) in ((OKAY, SLVERR), (SLVERR, OKAY)):
            out.append(((0x1000, l0, size, ref.INCR, 1, r0), (0x1000 + 4*max(dwf, dwt)//8, l1, size, ref.INCR, 2, r1)))
    return out


PIPE = {}
for cls, dwf, dwt, tier in (("AXIDownConverter", 32, 16, "quick"), ("AXIDownConverter", 16, 8, "quick"), ("AXIUpConverter", 16, 32, "quick"),
                            ("AXIDownConverter", 32, 8, "quick"), ("AXIUpConverter", 8, 32, "quick"), ("AXIDownConverter", 64, 32, "quick")):
    PIPE[f"{cls}({dwf}->{dwt})[rd,rd in flight]"] = (tier, dict(cls=cls, dwf=dwf, dwt=dwt))


# ---------------------------------------------------------------------------------------------------------------------
# two WRITE bursts streamed through the converters: the master offers AW1 as soon as AW0 is taken and the W beats of the second burst
# right behind those of the first (no idle W cycle, no waiting for B), the slave takes AW / W and returns the two B at will
# ---------------------------------------------------------------------------------------------------------------------
from checks.c10_conv import ConvHarness


class PipeWriteHarness(ConvHarness):
    """env = (pair, m_aw, m_w, s_aws, s_buf, s_dec, s_b, m_b)
         m_aw  (AWs of the master accepted 0..2, next one being offered 0/1);  m_w (master W beats accepted over both bursts, next being held 0/1)
         s_aws slave-side AWs accepted (addr, len, size, burst, id), in order;  s_buf slave-side W beats accepted and not yet decoded
         s_dec (slave-side burst being decoded 0..2, beats of it decoded, (address, byte) pairs matched)
         s_b   (B responses the slave has handed to the DUT, the next one being offered 0/1);  m_b B responses the master has received"""
    conf_first = 12
    conf_every = 41
    cap = 1_500_000
    live_queries = (("live.stuck", COOP, PROGRESS, (),
                     "master and slave offer and accept everything, the writes are not finished, no handshake ever happens"),)

    def __init__(self, name, cls, dwf, dwt):
        ConvHarness.__init__(self, name, cls, dwf, dwt, "w", sideband=True)
        self.cov = dict(pairs=0, s_w_beats=0, w_next_burst_offered_in_the_cycle_the_previous_burst_ends_at_the_slave=0, second_aw_before_first_b=0, finished=0)

    def set_group(self, g):
        self.group = list(g)
        self.cov["pairs"] += len(self.group)

    def env_init(self):
        return (None, (0, 0), (0, 0), (), (), (0, 0, 0), (0, 0), 0)

    def nbeats(self, pair):
        return pair[0][1] + 1, pair[0][1] + 1 + pair[1][1] + 1

    def choices(self, env):
        pair, m_aw, m_w, s_aws, s_buf, s_dec, s_b, m_b = env
        if pair is None:
            return [("pair",) + tuple(g) for g in self.group]
        if m_b == 2:
            return [("end",)]
        n_aw, off = m_aw
        k, hold = m_w
        n0, ntot = self.nbeats(pair)
        aw_v = ((1,) if off else (0, 1)) if n_aw < 2 else (0,)
        burst_of_k = 0 if k < n0 else 1
        w_v = ((1,) if hold else (0, 1)) if (k < ntot and n_aw > burst_of_k) else (0,)      # a burst's data only after its address was taken
        aw_r = (0, 1) if len(s_aws) < 2 else (0,)
        owed = s_dec[0] - s_b[0]
        b_v = ((1,) if s_b[1] else (0, 1)) if owed > 0 else (0,)
        return list(itertools.product(aw_v, w_v, (0, 1), aw_r, (0, 1), b_v))

    def drive(self, v, env, ch):
        pair, m_aw, m_w, s_aws, s_buf, s_dec, s_b, m_b = env
        M, S = self.M, self.S
        for itf in (M, S):
            itf_ar, itf_r = itf["ar"], itf["r"]
        v[M["ar"]["valid"]] = 0
        v[M["r"]["ready"]] = 0
        v[S["ar"]["ready"]] = 0
        v[S["r"]["valid"]] = 0
        if pair is None or ch[0] in ("pair", "end"):
            aw_v, w_v, b_r, aw_r, w_r, b_v = 0, 0, 1, 0, 0, 0
        else:
            aw_v, w_v, b_r, aw_r, w_r, b_v = ch
        self._ax(v, M["aw"], aw_v, pair[m_aw[0]] if aw_v else None, True)
        X = M["w"]
        v[X["valid"]] = w_v
        if w_v:
            n0, ntot = self.nbeats(pair)
            k = m_w[0]
            bi, j = (0, k) if k < n0 else (1, k - n0)
            data, strb, last = self.info(pair[bi]).wbeats[j]
            v[X["data"]], v[X["strb"]], v[X["last"]] = data, strb, last
        else:
            v[X["data"]], v[X["strb"]], v[X["last"]] = (1 << self.dwf) - 1, (1 << self.mb) - 1, 1
        v[M["b"]["ready"]] = b_r
        v[S["aw"]["ready"]] = aw_r
        v[S["w"]["ready"]] = w_r
        X = S["b"]
        v[X["valid"]] = b_v
        if b_v:
            v[X["id"]], v[X["resp"]] = s_aws[s_b[0]][4], OKAY
        else:
            v[X["id"]], v[X["resp"]] = (1 << IDW) - 1, 3

    def observe(self, v, env, ch):
        pair, m_aw, m_w, s_aws, s_buf, s_dec, s_b, m_b = env
        M, S = self.M, self.S
        if pair is None or ch[0] == "end":
            for nm, X in (("aw", S["aw"]), ("w", S["w"]), ("b", M["b"])):
                if v[X["valid"]]:
                    return env, (nm + ".spurious", f"{nm}.valid=1 while no write is outstanding"), 0
            if pair is None:
                return ((tuple(ch[1]), tuple(ch[2])),) + self.env_init()[1:], None, 0
            self.cov["finished"] += 1
            return self.env_init(), None, 0
        aw_v, w_v, b_r, aw_r, w_r, b_v = ch
        n_aw, off = m_aw
        k, hold = m_w
        n0, ntot = self.nbeats(pair)
        prog, coop = False, True
        # master AW
        if aw_v:
            if v[M["aw"]["ready"]]:
                n_aw, off, prog = n_aw + 1, 0, True
                if n_aw == 2 and m_b == 0:
                    self.cov["second_aw_before_first_b"] += 1
            else:
                off = 1
        elif n_aw < 2:
            coop = False
        # slave AW
        X = S["aw"]
        if v[X["valid"]] and aw_r:
            if len(s_aws) >= 2:
                return env, ("aw.extra", "a third AW is offered to the slave"), 0
            cap, err = self._capture(v, X, pair[len(s_aws)], "aw")
            if err:
                return env, err, 0
            s_aws = s_aws + (cap,)
            prog = True
        if len(s_aws) < 2 and not aw_r:
            coop = False
        # slave W (accepted beats are queued, then decoded against the slave-side AW they belong to)
        X = S["w"]
        s_w_last_now = False
        if v[X["valid"]] and w_r:
            s_buf = s_buf + ((v[X["data"]], v[X["strb"]], v[X["last"]]),)
            s_w_last_now = bool(v[X["last"]])
            prog = True
        if not w_r:
            coop = False
        j, nb, pos = s_dec
        while s_buf and j < len(s_aws):
            if j >= 2:
                return env, ("w.extra", "the slave receives W beats after both bursts were completed"), 0
            pos, err = self._decode_w(pair[j], self.info(pair[j]), s_aws[j], nb, s_buf[0], pos)
            if err:
                return env, (err[0], f"(burst {j+1} of 2 streamed) " + err[1]), 0
            last = s_buf[0][2]
            s_buf = s_buf[1:]
            nb += 1
            if last:
                j, nb, pos = j + 1, 0, 0
        if len(s_buf) > 4:
            return env, ("w.extra", "the slave has received more W beats than any announced burst accounts for"), 0
        # master W
        if w_v:
            if v[M["w"]["ready"]]:
                if k == n0 and s_w_last_now:
                    self.cov["w_next_burst_offered_in_the_cycle_the_previous_burst_ends_at_the_slave"] += 1
                k, hold, prog = k + 1, 0, True
            else:
                hold = 1
        elif k < ntot and n_aw > (0 if k < n0 else 1):
            coop = False
        # slave B
        nb_given, b_off = s_b
        if b_v:
            if v[S["b"]["ready"]]:
                nb_given, b_off, prog = nb_given + 1, 0, True
            else:
                b_off = 1
        elif j - nb_given > 0:
            coop = False
        # master B
        X = M["b"]
        if v[X["valid"]]:
            if m_b >= 2:
                return env, ("b.extra", "a third B response reaches the master"), 0
            done_beats = n0 if m_b == 0 else ntot
            if k < done_beats:
                return env, ("b.early", f"B of burst {m_b+1} reaches the master after {k} of its {done_beats} W beats were accepted"), 0
            if b_r:
                if v[X["id"]] != pair[m_b][4]:
                    return env, ("b.id", f"B {m_b+1} carries id {v[X['id']]}, burst {m_b+1} was sent with id {pair[m_b][4]}"), 0
                m_b, prog = m_b + 1, True
        if not b_r:
            coop = False
        flags = (COOP if coop else 0) | (PROGRESS if prog else 0)
        return (pair, (n_aw, off), (k, hold), s_aws, s_buf, (j, nb, pos), (nb_given, b_off), m_b), None, flags

    def cover_report(self):
        return dict(self.cov)

    def vacuity(self):
        if not self.cov["finished"]:
            return "no pair of writes ever completed"
        if not self.cov["second_aw_before_first_b"]:
            return "the second AW was never accepted before the first B"
        return None


def wpairs(dwf, dwt):
    out = []
    for p in pairs(dwf, dwt)[::2]:
        (a0, l0, s0, t0, i0, r0), (a1, l1, s1, t1, i1, r1) = p
        out.append(((a0, l0, s0, t0, i0, OKAY), (a1, l1, s1, t1, i1, OKAY)))
    return out


PIPEW = {}
for cls, dwf, dwt, tier in (("AXIUpConverter", 16, 32, "quick"), ("AXIUpConverter", 8, 32, "quick"), ("AXIDownConverter", 32, 16, "quick"),
                            ("AXIDownConverter", 16, 8, "quick"), ("AXIUpConverter", 32, 64, "thorough"), ("AXIDownConverter", 64, 32, "thorough")):
    PIPEW[f"{cls}({dwf}->{dwt})[wr,wr streamed]"] = (tier, dict(cls=cls, dwf=dwf, dwt=dwt))
