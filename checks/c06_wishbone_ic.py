"""C06 — Wishbone interconnect routes each cycle to one slave and answers only its master (DESIGN.md §4 C06)."""
import fsmc  # noqa
from fsmc.explore import Explorer, replay_stock
from fsmc.design import MachineryError
from checks.wblib import WbIcHarness

PROPERTY = "C06"
LEVEL = "model_checking"
RULE = ("BFS to closure of (real Wishbone InterconnectShared / Crossbar / Arbiter / Decoder / PointToPoint FHDL with real SoCRegion "
        "decoders x 1..3 Moore masters x 1..3 reactive slaves) under every request pattern (idle, request to any slave or an unmapped "
        "window, read/write, back-to-back) and every slave latency 0..2 with ack or err")
ASSUMPTIONS = [
    "2-state zero-delay FHDL semantics of litex.gen.sim; slaves answer combinationally (ack = cyc & stb & choice), latency >= 1 with register=True",
    "8-bit data / 6-bit word address buses; requests carry (window, master id, tag) in the address, slaves echo (slave id, address)",
    "bounded waiting is counted in other masters' bus cycles (cyc periods) and checked in the runs without back-to-back transfers; a master that keeps cyc owns the bus (Wishbone)",
    "liveness under cooperation: slaves answer, no master keeps cyc across transfers, no request to an unmapped window without a time-out",
    "dat_r is a broadcast bus: 'reaches no other master' is checked on ack/err (DESIGN 4b)",
]
VARIANTS = {}


def add(kind, nm, ns, register, tier, b2b):
    nm_ = f"{kind}({nm}x{ns},register={register}){'+back_to_back' if b2b else ''}"
    VARIANTS[nm_] = (tier, dict(kind=kind, nm=nm, ns=ns, register=register, back_to_back=b2b, timeout=None))


for b2b in (False, True):
    add("shared", 2, 2, False, "quick", b2b)
    add("shared", 2, 2, True, "quick" if not b2b else "thorough", b2b)
    add("shared", 3, 1, False, "quick" if not b2b else "thorough", b2b)
    add("shared", 1, 3, False, "quick", b2b)
    add("crossbar", 2, 2, False, "quick", b2b)
    add("crossbar", 2, 2, True, "thorough", b2b)
    add("arbiter", 2, 1, False, "quick", b2b)
    add("arbiter", 3, 1, False, "quick" if not b2b else "thorough", b2b)
    add("decoder", 1, 2, False, "quick", b2b)
    add("decoder", 1, 3, True, "quick", b2b)
    add("p2p", 1, 1, False, "quick", b2b)
    add("shared", 3, 2, False, "thorough", b2b)
    add("shared", 2, 3, False, "thorough", b2b)
    add("crossbar", 3, 2, False, "thorough", b2b)
    add("crossbar", 2, 3, False, "thorough", b2b)
    add("shared", 3, 3, False, "thorough", b2b)
    add("crossbar", 3, 3, False, "thorough", b2b)


for kind, nm, ns, register, tier in (("crossbar", 2, 2, False, "quick"), ("crossbar", 2, 1, True, "quick"), ("shared", 2, 2, False, "quick"),
                                     ("arbiter", 2, 1, False, "quick"), ("decoder", 1, 2, False, "quick"), ("crossbar", 2, 2, True, "thorough")):
    VARIANTS[f"{kind}({nm}x{ns},register={register})+stb_pauses"] = (tier, dict(kind=kind, nm=nm, ns=ns, register=register, back_to_back=True, timeout=None, pauses=True))
# masters of different address widths, the narrower one first: the shared bus must carry the widest address
for _k, _nm, _ns in (("decoder", 1, 2), ("shared", 2, 2), ("crossbar", 2, 2)):
    VARIANTS[f"{_k}({_nm}x{_ns},register=True,writes only,zero-wait slaves)"] = ("quick", dict(kind=_k, nm=_nm, ns=_ns, register=True, back_to_back=True, timeout=None,
                                                                                              writes_only_zero_wait=True))
VARIANTS["shared(2x3,register=False,adr widths 5/6)"] = ("quick", dict(kind="shared", nm=2, ns=3, register=False, back_to_back=False, timeout=None, adr_widths=(5, 6)))
VARIANTS["shared(2x3,register=False,adr widths 6/5)"] = ("thorough", dict(kind="shared", nm=2, ns=3, register=False, back_to_back=False, timeout=None, adr_widths=(6, 5)))
VARIANTS["crossbar(2x3,register=False,adr widths 5/6)"] = ("quick", dict(kind="crossbar", nm=2, ns=3, register=False, back_to_back=False, timeout=None, adr_widths=(5, 6)))
VARIANTS["shared(2x2,register=False,timeout=2)"] = ("quick", dict(kind="shared", nm=2, ns=2, register=False, back_to_back=False, timeout=2, maxlat=3))
VARIANTS["shared(2x1,register=False,timeout=3)+back_to_back"] = ("thorough", dict(kind="shared", nm=2, ns=1, register=False, back_to_back=True, timeout=3, maxlat=4))


def mk(name, table=VARIANTS):
    kw = table[name][1]
    return lambda: WbIcHarness(name, **kw)


SOC_PREFIX = "soc:"       # cross-listed from C13: the interconnect soc.py really builds from a history of add_slave / add_master calls


def configs(tier):
    out = [(n,) for n, (t, kw) in VARIANTS.items() if t == "quick" or tier == "thorough"]
    if PROPERTY == "C06":
        from checks import c13_soc_alloc as _c13
        out += [(SOC_PREFIX + c[0],) + tuple(c[1:]) for c in _c13.configs(tier) if str(c[0]).startswith("busreal.")]
    return out


def run_soc_config(cfg, seed, tier):
    """C13's busreal.* histories (real wishbone interfaces, add_master / add_slave with fixed, automatic and non power-of-two
    regions, the REAL InterconnectShared / Crossbar built by SoCBusHandler.do_finalize, slave-select predicates read back from
    the built Decoder(s) and evaluated over the address space).  Here only the routing side counts: no address selects two slaves,
    every decoder accepts exactly its window, and
    where soc.py builds a point-to-point connection instead (1 master, 1 slave) no cycle outside the window reaches the slave."""
    from checks import c13_soc_alloc as _c13
    r = _c13._run_config((cfg[0][len(SOC_PREFIX):],) + tuple(cfg[1:]), seed, tier)
    r["cfg"] = cfg[0]
    r.pop("digests", None)
    r["violations"] = [v for v in r.get("violations", []) if v["rule"].startswith(("decode.", "overlap.", "p2p.", "route.probe"))]
    return r


def tuple_deep(x):
    return tuple(tuple_deep(y) for y in x) if isinstance(x, (list, tuple)) else x


def run_config(cfg, seed, tier, table=VARIANTS):
    if str(cfg[0]).startswith(SOC_PREFIX):
        return run_soc_config(cfg, seed, tier)
    f = mk(cfg[0], table)
    H = f()
    res = Explorer(H, seed=seed).run()
    out = res.as_dict()
    for v in out["violations"]:
        cyc = [tuple_deep(c) for c in v["cycle"]] if v.get("cycle") else None
        q = [q for q in H.live_queries if q[0] == v["rule"]][0] if cyc else None
        rp = replay_stock(f, [tuple_deep(c) for c in v["trace"]], cyc, q)
        v["replayed"] = dict(reproduced=rp["reproduced"], path=rp["path"], cycles=rp["cycles"])
        if not rp["reproduced"]:
            raise MachineryError(f"{cfg[0]}: violation {v['rule']} does not reproduce on the stock simulator: {rp}")
    return out


def replay(rec, table=VARIANTS):
    if str(rec["cfg"]).startswith(SOC_PREFIX):
        from checks import c13_soc_alloc as _c13
        return _c13.replay(rec)
    f = mk(rec["cfg"], table)
    cyc = [tuple_deep(c) for c in rec["cycle"]] if rec.get("cycle") else None
    q = [q for q in f().live_queries if q[0] == rec["rule"]][0] if cyc else None
    rp = replay_stock(f, [tuple_deep(c) for c in rec["trace"]], cyc, q)
    return dict(cfg=rec["cfg"], rule=rec["rule"], reproduced=rp["reproduced"], err=rp["err"], path=rp["path"], cycles=rp["cycles"])
