"""C19 — counters: Timer, Watchdog, PWM (each behind a real CSRBank), WaitTimer and timeline (litex.gen.genlib.misc).

The references are counter models written from the register descriptions in the cores' documentation:
  Timer    : disabled -> count = load; enabled -> one step down per cycle; at 0 -> reload (reload = 0 keeps 0: one-shot); `zero` event = rising edge
             of (count == 0); update_value latches the count.
  Watchdog : feed loads `cycles`, enabled (and not paused) -> one step down per cycle, saturating at 0; time-out while enabled and 0; event on the
             rising edge of the time-out; reset output while (enabled, timed out, reset mode) holds and has held for reset_delay cycles.
  PWM      : enabled, period P >= 1, width W: in steady state the output is periodic with period P and high for min(W, P) cycles of each period; disabled -> low.
CSR convention (C12): a bus write in cycle n is visible to the core in cycle n+1 (storage, re and pulse fields)."""
import fsmc  # noqa
from migen import *
from litex.soc.interconnect import csr_bus
from fsmc.explore import Harness
from fsmc.design import MachineryError


class _CsrDUT(Module):
    def __init__(self, core):
        self.submodules.core = core
        self.bus = csr_bus.Interface(data_width=32, address_width=14)
        self.submodules.bank = csr_bus.CSRBank(core.get_csrs(), address=0, bus=self.bus)


class CsrCoreHarness(Harness):
    conf_every = 101
    REGS = ()

    def make_core(self):
        raise NotImplementedError

    def build(self):
        self.core = self.make_core()
        self.dut = _CsrDUT(self.core)
        return self.dut

    def bind_bus(self, D):
        b = self.dut.bus
        self.b = dict(adr=D.i(b.adr), we=D.i(b.we), dat_w=D.i(b.dat_w), re=D.i(b.re))
        names = {c.name: k for k, c in enumerate(self.dut.bank.simple_csrs)}
        self.adr = {}
        for need in self.REGS:
            hits = [a for n, a in names.items() if n.rstrip("0123456789") == need]
            if len(hits) != 1:
                raise MachineryError(f"{self.name}: CSR {need} not found in {sorted(names)}")
            self.adr[need] = hits[0]

    def drive_bus(self, v, ch):
        b = self.b
        v[b["we"]] = v[b["re"]] = v[b["adr"]] = v[b["dat_w"]] = 0
        if ch[0] == "w":
            v[b["we"]], v[b["adr"]], v[b["dat_w"]] = 1, self.adr[ch[1]], ch[2]


def ev_step(pend, trig_d, clear, trigger):
    """EventSourceProcess(edge='rising') as documented: pending is set by a rising edge of the trigger, cleared by the write-1 (which acts one
    cycle after the bus write, C15); a simultaneous new edge wins.  Returns (pending', trig_d')."""
    p2 = 0 if clear else pend
    if trigger and not trig_d:
        p2 = 1
    return p2, trigger


# ---------------------------------------------------------------------------------------------------
class TimerHarness(CsrCoreHarness):
    """env = (load, reload, en, upd, count, latched, pend, trig_d, clear, even): register values visible in this cycle + reference counter"""
    REGS = ("load", "reload", "en", "update_value", "value", "ev_status", "ev_pending", "ev_enable")

    def __init__(self, name, values=(0, 1, 2, 3), width=32):
        self.name, self.values, self.width = name, tuple(values), width
        self.oneshot = set()
        self.periods = set()
        self.events = 0

    def make_core(self):
        from litex.soc.cores.timer import Timer
        return Timer(width=self.width)

    def bind(self, D):
        self.bind_bus(D)
        t = self.core
        self.i = dict(latched=D.i(t._value.status), pend=D.i(t.ev.zero.pending), stat=D.i(t.ev.zero.status), irq=D.i(t.ev.irq),
                      evpend=D.i(t.ev.pending.status), evstat=D.i(t.ev.status.status))

    def env_init(self):
        return (0, 0, 0, 0, 0, 0, 0, 0, 0, 0)

    def choices(self, env):
        out = [("i",)]
        out += [("w", "load", x) for x in self.values]
        out += [("w", "reload", x) for x in self.values]
        out += [("w", "en", 0), ("w", "en", 1), ("w", "update_value", 1), ("w", "ev_pending", 1), ("w", "ev_enable", 0), ("w", "ev_enable", 1)]
        return out

    def drive(self, v, env, ch):
        self.drive_bus(v, ch)

    def observe(self, v, env, ch):
        load, reload, en, upd, count, latched, pend, trig_d, clear, even = env
        i = self.i
        trigger = int(count == 0)
        if v[i["latched"]] != latched:
            return env, ("timer.value", f"value CSR = {v[i['latched']]}, reference {latched} (count latched by the last update_value write; load={load} reload={reload} en={en})"), 0
        if v[i["stat"]] != trigger or v[i["evstat"]] != trigger:
            return env, ("timer.zero_level", f"ev.status = {v[i['evstat']]}, reference count = {count}"), 0
        if v[i["pend"]] != pend or v[i["evpend"]] != pend:
            return env, ("timer.event", f"zero event pending = {v[i['pend']]}, reference {pend} (count = {count}, previous level {trig_d}; load={load} reload={reload} en={en})"), 0
        if v[i["irq"]] != (pend & even):
            return env, ("timer.irq", f"irq = {v[i['irq']]}, pending = {pend}, enable = {even}"), 0
        if en and trigger and not trig_d:
            self.events += 1
            (self.oneshot if reload == 0 else self.periods).add((load, reload))
        # reference step
        pend2, trig_d2 = ev_step(pend, trig_d, clear, trigger)
        if en:
            count2 = reload if count == 0 else count - 1
        else:
            count2 = load
        latched2 = count if upd else latched
        upd2 = clear2 = 0
        if ch[0] == "w":
            r, x = ch[1], ch[2]
            if r == "load":
                load = x
            elif r == "reload":
                reload = x
            elif r == "en":
                en = x & 1
            elif r == "update_value":
                upd2 = 1
            elif r == "ev_pending":
                clear2 = x & 1
            elif r == "ev_enable":
                even = x & 1
        return (load, reload, en, upd2, count2, latched2, pend2, trig_d2, clear2, even), None, 0

    def cover_report(self):
        return dict(zero_events_while_enabled=self.events, one_shot_load_reload=len(self.oneshot), periodic_load_reload=len(self.periods))

    def vacuity(self):
        if not self.oneshot:
            return "no one-shot run observed"
        if not self.periods:
            return "no periodic run observed"
        return None


# ---------------------------------------------------------------------------------------------------
class WatchdogHarness(CsrCoreHarness):
    """env = (en, rstm, pause, feed, cycles, remaining, tmo, pend, trig_d, clear, even, wt): visible register values + reference
       tmo: time-out flag (updated in enabled, non-feed cycles to remaining == 0); wt: consecutive cycles of (enabled & time-out & reset mode)"""
    REGS = ("control", "cycles", "remaining", "ev_status", "ev_pending", "ev_enable")

    def __init__(self, name, values=(0, 1, 2, 3), reset_delay=2, with_halted=False):
        self.name, self.values, self.reset_delay, self.with_halted = name, tuple(values), reset_delay, with_halted
        self.timeouts = 0
        self.resets = 0
        self.fed_in_time = 0

    def make_core(self):
        from litex.soc.cores.watchdog import Watchdog
        self.crg_rst = Signal()
        self.halted = Signal()
        return Watchdog(width=32, crg_rst=self.crg_rst, reset_delay=self.reset_delay, halted=self.halted if self.with_halted else None)

    def bind(self, D):
        self.bind_bus(D)
        w = self.core
        self.i = dict(rem=D.i(w._remaining.status), pend=D.i(w.ev.wdt.pending), irq=D.i(w.ev.irq), rst=D.i(self.crg_rst), halted=D.i(self.halted))

    def env_init(self):
        return (0, 0, 0, 0, 0, 0, 0, 0, 0, 0, 0, 0)

    def choices(self, env):
        ctl = [0x000000, 0x000001, 0x000100, 0x000101, 0x010100, 0x010101]
        if self.with_halted:
            ctl += [0x01000100, 0x01000101, 0x01010100]
        out = [("i",)] + [("w", "control", x) for x in ctl] + [("w", "cycles", x) for x in self.values]
        out += [("w", "ev_pending", 1), ("w", "ev_enable", 1), ("w", "ev_enable", 0)]
        if self.with_halted:
            out = [c + ("h", h) for c in out for h in (0, 1)]
        return out

    def _halt(self, ch):
        return ch[-1] if (self.with_halted and ch[-2] == "h") else 0

    def drive(self, v, env, ch):
        self.drive_bus(v, ch)
        v[self.i["halted"]] = self._halt(ch)

    def observe(self, v, env, ch):
        en, rstm, pause, feed, cycles, rem, tmo, pend, trig_d, clear, even, wt = env
        i = self.i
        halted = self._halt(ch) & pause
        enabled = en & (1 - halted)
        if v[i["rem"]] != rem:
            return env, ("watchdog.remaining", f"remaining = {v[i['rem']]}, reference {rem} (cycles={cycles} enable={en} halted={halted} feed={feed})"), 0
        trigger = enabled & tmo
        if v[i["pend"]] != pend:
            return env, ("watchdog.event", f"wdt event pending = {v[i['pend']]}, reference {pend} (remaining={rem} time-out={tmo} enabled={enabled})"), 0
        if v[i["irq"]] != (pend & even):
            return env, ("watchdog.irq", f"irq = {v[i['irq']]}, pending = {pend}, enable = {even}"), 0
        # the reset output is asserted while the condition (enabled & timed out & reset mode) holds and has held for the previous reset_delay
        # cycles; reset_delay = 0 therefore means "together with the time-out", never "for ever"
        wait_now = enabled & tmo & rstm
        exp_rst = int(bool(wait_now and wt >= self.reset_delay))
        if v[i["rst"]] != exp_rst:
            return env, ("watchdog.reset", f"crg_rst = {v[i['rst']]}: condition (enabled & timed out & reset mode) = {wait_now} now, held for the previous {wt} cycles "
                                           f"(reset_delay = {self.reset_delay}, enable={en} time-out={tmo} reset mode={rstm})"), 0
        self.resets += exp_rst
        if trigger and not trig_d:
            self.timeouts += 1
        # reference step
        pend2, trig_d2 = ev_step(pend, trig_d, clear, trigger)
        wait = enabled & tmo & rstm
        wt2 = min(wt + 1, self.reset_delay) if wait else 0
        rem2, tmo2 = rem, tmo
        if feed:
            rem2 = cycles
            if enabled and rem == 1:
                self.fed_in_time += 1
        elif enabled:
            rem2 = rem - 1 if rem else 0
            tmo2 = int(rem == 0)
        feed2 = clear2 = 0
        if ch[0] == "w":
            r, x = ch[1], ch[2]
            if r == "control":
                feed2, en, rstm, pause = x & 1, (x >> 8) & 1, (x >> 16) & 1, (x >> 24) & 1
            elif r == "cycles":
                cycles = x
            elif r == "ev_pending":
                clear2 = x & 1
            elif r == "ev_enable":
                even = x & 1
        return (en, rstm, pause, feed2, cycles, rem2, tmo2, pend2, trig_d2, clear2, even, wt2), None, 0

    def cover_report(self):
        return dict(timeouts=self.timeouts, reset_cycles=self.resets, fed_at_last_moment=self.fed_in_time)

    def vacuity(self):
        if not self.timeouts or not self.resets or not self.fed_in_time:
            return "time-out / reset / last-moment feed not all observed"
        return None


# ---------------------------------------------------------------------------------------------------
class PwmHarness(CsrCoreHarness):
    """env = (en, W, P, stable, hist): register values visible in this cycle, cycles since they last changed (cap), last outputs (newest first)"""
    REGS = ("enable", "width", "period")

    def __init__(self, name, periods=(1, 2, 3), widths=(0, 1, 2, 3)):
        self.name, self.periods, self.widths = name, tuple(periods), tuple(widths)
        self.pmax = max(periods)
        self.seen = set()

    def make_core(self):
        from litex.soc.cores.pwm import PWM
        return PWM()

    def bind(self, D):
        self.bind_bus(D)
        self.i_pwm = D.i(self.core.pwm)

    def env_init(self):
        return (0, 0, 0, 0, ())

    def choices(self, env):
        en, W, P, stable, hist = env
        out = [("i",)]
        out += [("w", "width", x) for x in self.widths if x != W]
        out += [("w", "period", x) for x in self.periods if x != P]
        if en:
            out.append(("w", "enable", 0))
        elif P >= 1:
            out.append(("w", "enable", 1))
        return out

    def drive(self, v, env, ch):
        self.drive_bus(v, ch)

    def observe(self, v, env, ch):
        en, W, P, stable, hist = env
        out = v[self.i_pwm]
        hist = ((out,) + hist)[:2*self.pmax]
        if not en:
            if stable >= 2 and out:
                return env, ("pwm.disabled", f"output high {stable} cycles after the PWM was disabled"), 0
        elif stable >= P + 2:
            win = hist[:P]
            if sum(win) != min(W, P):
                return env, ("pwm.duty", f"enabled, width={W} period={P}: {sum(win)} high cycles in the last {P} cycles ({win}), expected {min(W, P)}"), 0
            if stable >= 2*P + 2:
                if hist[:P] != hist[P:2*P]:
                    return env, ("pwm.period", f"enabled, width={W} period={P}: output not periodic, last 2 periods {hist[:2*P]}"), 0
                self.seen.add((W, P))
        stable2 = min(stable + 1, 2*self.pmax + 2)
        if ch[0] == "w":
            r, x = ch[1], ch[2]
            if r == "enable":
                en = x & 1
            elif r == "width":
                W = x
            elif r == "period":
                P = x
            stable2 = 0
        return (en, W, P, stable2, hist), None, 0

    def cover_report(self):
        return dict(steady_states_checked=sorted(self.seen))

    def vacuity(self):
        return None if len(self.seen) >= len(self.periods)*2 else "too few steady states reached"


# ---------------------------------------------------------------------------------------------------
class _TimelineDUT(Module):
    def __init__(self, times):
        from litex.gen.genlib.misc import timeline
        self.trigger = Signal()
        self.out = Signal(max=len(times) + 2)
        self.sync += self.out.eq(0)
        self.sync += timeline(self.trigger, [(t, [self.out.eq(k + 1)]) for k, t in enumerate(times)])


class TimelineHarness(Harness):
    """env = (run, exp): run = None | offset of the current cycle from the accepted trigger; exp = marker expected on `out` in this cycle.
    Reference: an accepted trigger starts a sequence; the event with offset e fires e cycles later (its marker is visible one register later);
    triggers are ignored until the last offset has passed; then the next trigger is accepted."""
    BUSY_ = 8
    live_queries = (("timeline.stuck", 8, 0, (), "a started sequence never finishes"),)

    def __init__(self, name, times):
        self.name, self.times = name, tuple(times)
        self.last = max(times)
        self.runs = 0
        self.ignored = 0

    def build(self):
        self.dut = _TimelineDUT(self.times)
        return self.dut

    def bind(self, D):
        self.i_trig, self.i_out = D.i(self.dut.trigger), D.i(self.dut.out)

    def env_init(self):
        return (None, 0)

    def choices(self, env):
        return [0, 1]

    def drive(self, v, env, ch):
        v[self.i_trig] = ch

    def observe(self, v, env, ch):
        run, exp = env
        if v[self.i_out] != exp:
            return env, ("timeline.event", f"marker {v[self.i_out]} on the output, expected {exp} (event offsets {self.times}, current offset {run})"), 0
        if run is None:
            if ch:
                run = 0
                self.runs += 1
        elif ch:
            self.ignored += 1
        exp2 = 0
        flags = 0
        run2 = None
        if run is not None:
            flags = 8
            if run in self.times:
                exp2 = self.times.index(run) + 1
            run2 = run + 1 if run < self.last else None
            if run2 is None:
                flags = 0
        return (run2, exp2), None, flags

    def cover_report(self):
        return dict(sequences=self.runs, ignored_triggers=self.ignored)

    def vacuity(self):
        return None if self.runs and self.ignored else "no sequence / no ignored trigger"


class WaitTimerHarness(Harness):
    """WaitTimer(t): `wait` free every cycle; done exactly after t consecutive wait cycles and until wait drops."""
    def __init__(self, name, t):
        self.name, self.t = name, t
        self.done_seen = 0

    def build(self):
        from litex.gen.genlib.misc import WaitTimer
        self.dut = WaitTimer(self.t)
        return self.dut

    def bind(self, D):
        self.wait, self.done = D.i(self.dut.wait), D.i(self.dut.done)

    def env_init(self):
        return 0

    def choices(self, env):
        return [0, 1]

    def drive(self, v, env, ch):
        v[self.wait] = ch

    def observe(self, v, env, ch):
        exp = 1 if env >= self.t else 0
        if v[self.done] != exp:
            return env, ("waittimer.done", f"done = {v[self.done]} after {env} consecutive wait cycles (t = {self.t})"), 0
        self.done_seen += exp
        return (min(env + 1, self.t) if ch else 0), None, 0

    def vacuity(self):
        return None if self.done_seen else "done never seen"
