"""C01 — generated Verilog behaves exactly like the simulated FHDL design (DESIGN.md §4 C01).

Side A: LiteX's simulator semantics (fragment from litex.gen.sim.core.Simulator.__init__, compiled stepper that is
conformance-checked against litex.gen.sim.core.Evaluator; every disagreement is re-evaluated on the real Evaluator).
Side B: vlog (engine E2, /verif/vlog) on convert(...).main_source + data files of a second instance of the same
deterministic constructor.  Signals are matched through ConvOutput.ns.get_name.

Configuration names:
    g.<class>.<icfg>.<io|int>      comb fragment grammar, one packed module, ALL input values
    q.<kind>.<variant>              sequential grammar programs (sync, resets, two clocks), BFS over the product
    m.<variant>                     Memory port grammar, BFS over the product
    core.<name>                     corpus of real LiteX cores, BFS over the product (cap) + long corner-value walk
"""
import fsmc  # noqa: F401
import itertools, re
from fsmc.design import MachineryError
import vlog
from checks import c01_lib as L
from checks import c01_grammar as G
from checks import c01_corpus as K

PROPERTY = "C01"
LEVEL = "translation_validation"
MAXTASKS = 4
RULE = ("programs = FHDL modules converted and executed on both sides (packed grammar modules, sequential/memory grammar "
        "programs, real cores); grammar fragments are evaluated on ALL values of their inputs (evaluations = fragment x "
        "input valuation pairs compared, resp. product transitions for sequential programs); a fragment is distinct by "
        "its label within its configuration and non-trivial when its observed targets took >= 2 different values over "
        "the run (measured); sequential / memory programs and real cores are explored as the lock-step product (S_A, S_B): "
        "BFS from reset under every letter of the input alphabet (grammar programs: all input values; cores: all combinations "
        "of up to 7 one-bit inputs x 3 data patterns, all values when the inputs total <= 12 bits) and every clock choice, to "
        "closure or the transition cap (caps_hit), then for cores one deterministic corner-value walk (walk_cycles); a state "
        "is distinct by its full (registers, memory words) valuation on both sides; "
        "disagreements_checked = (observation, input/trace) disagreements classified S/S_w/V/V_unb")
ASSUMPTIONS = [
    "Verilog semantics = vlog, an interpreter of IEEE 1364-2005 written for this task (sizing/typing from §5.4-5.5, "
    "event semantics of always @(*) from §9.7.5); no third-party simulator exists in the sandbox; the hand-computed "
    "sizing/scheduling cases are re-checked at the start of every configuration",
    "2-state, zero-delay; uninitialised regs and memory words read 0; no X/Z, no Instance/tristate primitives",
    "side A is LiteX's own simulator semantics (litex.gen.sim.core): compiled stepper, conformance-checked against the "
    "real Evaluator on sampled transitions, and every disagreement is recomputed on the real Evaluator before it is reported",
    "signed shift amounts, signed Array keys and out-of-range memory addresses are excluded (the simulator itself raises "
    "or indexes Python-style there)",
    "classification: S_w != S -> gap.h1 (simulator leaves Migen's declared node widths), V_unb == S != V -> gap.h2 (Migen "
    "node wider than the Verilog context); both are the semantic gap the property names; anything else is a printer defect "
    "named by the smallest set of golden printer rules that repairs it",
    "tracer shim (names only)",
]

_SELFTEST = {}


def selftest():
    if "n" not in _SELFTEST:
        try:
            _SELFTEST["n"] = vlog.run_selftest()
        except AssertionError as e:
            raise MachineryError(str(e))
    return _SELFTEST["n"]


# ---------------------------------------------------------------------------------------------------------------------
def configs(tier):
    cfgs = []
    for cls in G.COMB_CLASSES:
        for ic in G.icfgs(tier):
            if cls == "constblk" and ic != G.icfgs(tier)[0]:
                continue
            nch = G.comb_chunks(cls, ic, tier)
            for io in (("int", "io") if tier == "thorough" else ("int",) if cls not in ("arith", "lhs", "constblk") else ("int", "io")):
                for ch in range(nch):
                    cfgs.append((f"g.{cls}.{G.icfg_label(ic)}.{io}" + (f".p{ch}" if nch > 1 else ""), "comb", cls, ic, io == "io", ch))
    # sequential grammar programs
    for kind in G.SEQ_KINDS:
        for ic in G.seq_icfgs(kind, tier):
            cfgs.append((f"q.{kind}.{G.icfg_label(ic)}", "seq", kind, ic, True))
    # memory port grammar: reset low (the memory template has no reset) + a few variants with reset pulses
    for v in G.mem_variants(tier):
        cfgs.append((f"m.{v}", "mem", v, False))
        if v in ("rw.wf.g0.re0", "rw.rf.g0.re0", "rw.nc.g4.re1", "dual.rf"):
            cfgs.append((f"m.{v}.rst", "mem", v, True))
    # corpus of real cores; cores with memories additionally without reset pulses (see sim.memory_reset)
    for n, (b, clocks, t) in K.CORPUS.items():
        if t == "quick" or tier == "thorough":
            cfgs.append((f"core.{n}", "core", n, True))
            if n in K.WITH_MEMORY:
                cfgs.append((f"core.{n}.norst", "core", n, False))
    for n, (base, _) in K.VARIANTS.items():
        if K.CORPUS[base][2] == "quick" or tier == "thorough":
            cfgs.append((f"core.{n}", "core", n, True))
    # the second comb emitter (regular_comb=False: one always block per TARGET with a target filter - what the Verilator flow of
    # litex.build.sim converts with): the control / left-hand-side classes where the filter matters, and the whole corpus in thorough
    sim = []
    for c in cfgs:
        if c[1] == "comb" and c[2] in ("ctl_if", "ctl_case", "ctl_arr", "lhs", "constblk") and (tier == "thorough" or c[3] in G.icfgs(tier)[:3]):
            sim.append((c[0] + SIMCOMB,) + tuple(c[1:]))
        elif c[1] == "seq" and tier == "thorough":
            sim.append((c[0] + SIMCOMB,) + tuple(c[1:]))
        elif c[1] == "core" and c[3] and (tier == "thorough" or c[2] in ("CSRBank", "Packetizer.unaligned", "WishboneShared2x2", "AXIBurst2Beat", "SPIMaster")):
            sim.append((c[0] + SIMCOMB,) + tuple(c[1:]))
    return cfgs + sim


SIMCOMB = ".simcomb"      # configuration name suffix: convert(..., regular_comb=False)


def run_config(cfg, seed, tier):
    selftest()
    kind = cfg[1]
    L.REGULAR_COMB = not cfg[0].endswith(SIMCOMB)
    if kind == "comb":
        return run_comb(cfg, tier)
    if kind in ("seq", "mem", "core"):
        return run_product(cfg, seed, tier)
    raise MachineryError(f"unknown configuration kind {kind}")


CAPS = {"quick": dict(seq=200_000, mem=200_000, core=150_000, walk=5_000),
        "thorough": dict(seq=2_000_000, mem=1_000_000, core=600_000, walk=50_000)}


def product_program(cfg):
    """-> (mk, alphabet builder, use reset)"""
    kind = cfg[1]
    if kind == "seq":
        return G.seq_program(cfg[2], cfg[3])
    if kind == "mem":
        return G.mem_program(cfg[2], cfg[3])
    return K.core_program(cfg[2])


def _alphabet(cfg, info):
    kind, with_rst = cfg[1], cfg[-1]
    menus = [list(m) for m in info["menus"]]
    nr = info.get("n_rst", sum(1 for cd in info["clock_domains"] if cd.rst is not None)) if kind != "mem" else 0
    if not with_rst and nr:
        for k in range(len(menus) - nr, len(menus)):
            menus[k] = [0]
    if kind == "core":
        info2 = dict(info, menus=menus)
        alpha = K.bfs_alphabet(info2)
        if not with_rst:
            alpha = sorted({tuple(0 if k >= len(menus) - nr else x for k, x in enumerate(v)) for v in alpha})
        return alpha, menus
    return list(itertools.product(*menus)), menus


def run_product(cfg, seed, tier, only_trace=None):
    name, kind = cfg[0], cfg[1]
    mk = product_program(cfg)
    res = dict(cfg=name, exhaustive=True, violations=[], evaluations=0, distinct=0, programs=1, disagreements=0, states=0,
               transitions=0, conformed=0)
    _, info = mk()
    alphabet, menus = _alphabet(cfg, info)
    clocks = info["clocks"]
    cc = [(clocks[0],)] if len(clocks) == 1 else [(clocks[0],), (clocks[1],), tuple(clocks)]
    caps = CAPS[tier]
    try:
        st, mism, A, B = L.explore(mk, alphabet, cc, caps[kind], seed=seed, walk=caps["walk"] if kind == "core" else 0, walk_menus=menus)
    except (vlog.VlogSyntaxError,) as e:
        res["violations"].append(dict(rule="printer.illegal_verilog", msg=f"emitted text rejected: {e}", detail=dict(error=str(e))))
        return res
    except vlog.VlogUnsupported as e:
        res.update(exhaustive=False, unsupported=str(e))
        return res
    except L.ConvertError as e:
        res["violations"].append(dict(rule="printer.convert_error", msg=f"convert() raised: {e}", detail=dict(error=str(e))))
        return res
    res.update(states=st["states"], transitions=st["transitions"], conformed=st["conformed"], exhaustive=st["exhaustive"],
               evaluations=st["transitions"] + st["walk_cycles"], distinct=st["states"], walk_cycles=st["walk_cycles"], bfs_depth=st["depth"],
               alphabet=len(alphabet), signals_compared=len(info["observe"]), memories_compared=len(info["memories"]),
               mismatching_transitions=st["mismatching_transitions"])
    if not st["exhaustive"]:
        res["cap_hit"] = True
    if B.sim.const_only_blocks:
        res["const_only_always_blocks"] = len(B.sim.const_only_blocks)
    in_names = B.in_names
    res["sample"] = dict(inputs=dict(zip(in_names, alphabet[len(alphabet) // 2])), clocks=list(cc[-1]), signals=B.obs_names[:6])
    if not mism:
        return res
    clf = L.Classifier(mk, has_mem_multiclock=bool(info["memories"]))
    byrule = {}
    for x in mism:
        rules = clf.classify(x.trace, x.which, x.S, x.V)
        res["disagreements"] += len(x.which)
        for w, rule in rules.items():
            lab = f"mem{w[1]}[{w[2]}]" if isinstance(w, tuple) else B.obs_names[w]
            byrule.setdefault(rule, {}).setdefault(lab, (x, w))
    res["classes"] = {r: len(v) for r, v in byrule.items()}
    if len(mism) < st["mismatching_transitions"]:
        res["exhaustive"] = False
        res["unclassified_mismatching_transitions"] = st["mismatching_transitions"] - len(mism)
    for rule, d in sorted(byrule.items()):
        lab, (x, w) = sorted(d.items(), key=lambda kv: (len(kv[1][0].trace), kv[0]))[0]
        tr = [dict(inputs=dict(zip(in_names, vals)), clocks=list(cds) if cds else None) for vals, cds in x.trace]
        vl = _verilog_body(B.text, [lab])[:14] if not isinstance(w, tuple) else _verilog_body(B.text, [B.mem_names[w[1]]])[:14]
        det = dict(signal=lab, S=x.S[w], V=x.V[w], phase=x.phase, raw_trace=[[list(v), list(c) if c else None] for v, c in x.trace],
                   verilog=vl, signals_in_class=sorted(d)[:12], n_signals_in_class=len(d))
        res["violations"].append(dict(
            rule=rule, msg=f"{lab}: simulator {x.S[w]} != Verilog {x.V[w]} after {len(x.trace)} step(s) ({x.phase}); {len(d)} signal(s) in this class",
            trace=tr, detail=det))
    return res


def _verilog_body(text, names=None):
    lines = [l for l in text.splitlines() if l.strip() and not l.lstrip().startswith("//") and not l.startswith("`")]
    if names:
        pat = re.compile(r"\b(" + "|".join(map(re.escape, names)) + r")\b")
        lines = [l for l in lines if pat.search(l)]
    return lines


def run_comb(cfg, tier, only=None, only_inputs=None):
    name, _, cls, ic, outs_io, chunk = cfg[:6]
    mk, frags = G.comb_program(cls, ic, tier, outs_io, only=only, chunk=chunk)
    res = dict(cfg=name, exhaustive=True, violations=[], evaluations=0, distinct=0, programs=1, disagreements=0,
               fragments=0, conformed=0)
    A = L.SideA(mk)
    obs = A.info["observe"]
    res["fragments"] = len(A.mod.frag_obs)
    res["skipped_shapes"] = len(A.mod.skipped)
    try:
        B = L.SideB(mk)
    except (vlog.VlogSyntaxError, vlog.VlogUnsupported) as e:
        res["violations"].append(dict(rule="printer.illegal_verilog", msg=f"emitted text rejected: {e}", detail=dict(error=str(e))))
        return res
    except L.ConvertError as e:
        res["violations"].append(dict(rule="printer.convert_error", msg=f"convert() raised: {e}", detail=dict(error=str(e))))
        return res
    widths = [len(s) for s in A.info["inputs"]]
    spaces = [range(1 << w) for w in widths]
    nobs = len(obs)
    seen = [set() for _ in range(nobs)]
    fails = {}
    fsA, simB = A.fs, B.sim
    allvals = list(itertools.product(*spaces)) if only_inputs is None else [tuple(only_inputs)]
    step = max(1, len(allvals) // 12)
    for n, vals in enumerate(allvals):
        A.drive(vals)
        fsA.settle()
        oa = A.observe()
        B.drive(vals)
        simB.settle()
        ob = B.observe()
        if n % step == 0:
            v = list(fsA.v)
            A.D.conform(A.D.state(), v, v, ())
            res["conformed"] += 1
        if oa != ob:
            fails[vals] = ([k for k in range(nobs) if oa[k] != ob[k]], oa, ob)
        for k in range(nobs):
            seen[k].add(oa[k])
    res["evaluations"] = len(allvals) * len(A.mod.frag_obs)
    # distinct non-trivial fragments: some target took >= 2 values
    k = 0
    for lab, sigs in A.mod.frag_obs:
        if any(len(seen[k + j]) >= 2 for j in range(len(sigs))):
            res["distinct"] += 1
        k += len(sigs)
    res["sample"] = dict(fragment=obs[0][0], inputs=dict(zip("abc", allvals[len(allvals) // 3])), verilog=_verilog_body(B.text, [B.obs_names[0]])[-1:])
    if B.sim.const_only_blocks:
        res["const_only_always_blocks"] = len(B.sim.const_only_blocks)
    if not fails:
        return res
    # ---- classification ------------------------------------------------------------------------------------------
    clf = L.Classifier(mk)
    fe = L.FragEval(A.mod)
    frag_of = []
    base_of = []
    for k, (lab, sigs) in enumerate(A.mod.frag_obs):
        base_of.append(len(frag_of))
        frag_of += [(k, j) for j in range(len(sigs))]
    per = {}     # (fragment label, rule) -> [count, first example]
    for vals, (which, oa, ob) in fails.items():
        preS, preW, preL = {}, {}, {}
        for k in sorted({frag_of[w][0] for w in which}):
            s_ = fe.run(k, vals)
            w_, left = fe.run_wrapped(k, vals)
            base = base_of[k]
            for j in range(len(s_)):
                preS[base + j], preW[base + j], preL[base + j] = s_[j], w_[j], left
        rules = clf.classify([(vals, None)], which, oa, ob, pre=(preS, preW, preL))
        res["disagreements"] += len(which)
        for w, rule in rules.items():
            lab = obs[w][0].rsplit("#", 1)[0]
            e = per.setdefault((lab, rule), [0, None])
            e[0] += 1
            if e[1] is None:
                e[1] = dict(inputs=dict(zip("abc", vals)), target=B.obs_names[w], S=oa[w], V=ob[w])
    byrule = {}
    for (lab, rule), (cnt, ex) in sorted(per.items()):
        byrule.setdefault(rule, []).append((lab, cnt, ex))
    res["classes"] = {r: len(v) for r, v in byrule.items()}
    for rule, lst in sorted(byrule.items()):
        lab, cnt, ex = lst[0]
        ex = dict(ex)
        ex["fragment"] = lab
        ex["verilog"] = _verilog_body(B.text, [ex["target"]])
        ex["fragments_in_class"] = len(lst)
        ex["other_fragments"] = [l for l, _, _ in lst[1:8]]
        res["violations"].append(dict(
            rule=rule,
            msg=f"{len(lst)} fragment(s), e.g. `{lab}` at {ex['inputs']}: simulator {ex['S']} != Verilog {ex['V']} ({cnt} failing inputs); emitted: {' | '.join(x.strip() for x in ex['verilog'])}",
            detail=ex, trace=[ex["inputs"]]))
    return res


def extra_coverage(results):
    tot = lambda k: sum(int(r.get(k, 0) or 0) for r in results)
    classes = {}
    for r in results:
        for k, v in (r.get("classes") or {}).items():
            classes[k] = classes.get(k, 0) + v
    return dict(programs=tot("programs"), disagreements_checked=tot("disagreements"), fragments=tot("fragments"),
                traces_validated_against_impl=tot("conformed"), disagreement_classes=classes,
                vlog_selftest_cases=selftest(), walk_cycles=tot("walk_cycles"),
                mismatching_transitions=tot("mismatching_transitions"),
                unsupported_programs=[r["cfg"] for r in results if r.get("unsupported")],
                const_only_always_blocks=tot("const_only_always_blocks"),
                explanation="translation validation of litex.gen.fhdl.verilog.convert against LiteX's own simulator semantics; "
                            "states/transitions count the product exploration part, evaluations/distinct_nontrivial the whole run")


def replay(rec):
    selftest()
    name = rec["cfg"]
    cfg = [c for t in ("thorough", "quick") for c in configs(t) if c[0] == name]
    if not cfg:
        return dict(reproduced=False, error="unknown configuration " + name)
    cfg = cfg[0]
    if cfg[1] == "comb":
        d = rec["detail"]
        vals = [d["inputs"][k] for k in "abc"]
        mk, frags = G.comb_program(cfg[2], cfg[3], "thorough", cfg[4], only=d["fragment"])
        real = L.RealA(mk)
        obsS, _ = real.run([(vals, None)])
        B = L.SideB(mk)
        obsV, _ = L.run_trace_B(B, [(vals, None)])
        return dict(cfg=name, rule=rec["rule"], fragment=d["fragment"], inputs=d["inputs"], reproduced=obsS != obsV,
                    simulator=obsS, verilog=obsV, emitted=_verilog_body(B.text))
    # product configurations: replay the recorded trace from reset on LiteX's real Evaluator and on vlog
    d = rec["detail"]
    trace = [(tuple(v), tuple(c) if c else None) for v, c in d["raw_trace"]]
    mk = product_program(cfg)
    real = L.RealA(mk)
    obsS, memS = real.run(trace)
    B = L.SideB(mk)
    obsV, memV = L.run_trace_B(B, trace)
    diff = {n: (a, b) for n, a, b in zip(B.obs_names, obsS, obsV) if a != b}
    for k, (x, y) in enumerate(zip(memS, memV)):
        for a in range(len(x)):
            if x[a] != y[a]:
                diff[f"mem{k}[{a}]"] = (x[a], y[a])
    return dict(cfg=name, rule=rec["rule"], signal=d["signal"], steps=len(trace), reproduced=d["signal"] in diff,
                differing_simulator_vs_verilog=dict(list(diff.items())[:12]))
