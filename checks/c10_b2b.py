"""C10 part 1 — AXIBurst2Beat closed with (a held request | idle garbage | back-to-back requests) x a free ax_beat.ready.
The request of every burst of a group is the first-step choice of one exploration, so one closure covers the whole
group (all bursts return to the idle state, from which every burst of the group is started again: back-to-back)."""
import fsmc  # noqa
from migen import *
from litex.soc.interconnect.axi import AXIStreamInterface, ax_description, AXIBurst2Beat
from fsmc.explore import Harness
from fsmc.design import MachineryError
from checks import c10_ref as ref

AW, IDW = 32, 2


class B2BDUT(Module):
    def __init__(self, caps):
        self.burst = AXIStreamInterface(layout=ax_description(AW), id_width=IDW)
        self.beat = AXIStreamInterface(layout=ax_description(AW), id_width=IDW)
        self.submodules.b2b = AXIBurst2Beat(self.burst, self.beat, capabilities=set(caps))


class B2BHarness(Harness):
    """env = (cur, k, snap): cur = None (no request) | (addr, len, id) of the held request; k = beats handed over so far;
    snap = DUT registers before a stalled cycle (the next cycle must show the same registers) or None."""
    conf_first = 30
    conf_every = 17
    cap = 3_000_000

    def __init__(self, name, burst, size, caps=(0, 1, 2)):
        self.name, self.burst, self.size, self.caps = name, burst, size, tuple(caps)
        self.group = []
        self.cov = dict(bursts=0, beats=0, stalls=0, wrapped_bursts=0, idle_garbage_cycles=0, starts_from_non_reset_registers=0)
        self._exp = {}

    def build(self):
        self.dut = B2BDUT(self.caps)
        return self.dut

    def bind(self, D):
        d = self.dut
        self.I = {n: D.i(getattr(d.burst, n)) for n in ("valid", "ready", "addr", "len", "size", "burst", "id")}
        self.O = {n: D.i(getattr(d.beat, n)) for n in ("valid", "ready", "addr", "first", "last", "id")}
        self.Sx = list(D.S)
        self._reset_regs = tuple(D.reset_state())

    def env_init(self):
        return (None, 0, None)

    def set_group(self, group):
        self.group = list(group)
        self._exp = {}
        self.cov["bursts"] += len(self.group)

    def expected(self, addr, ln):
        e = self._exp.get((addr, ln))
        if e is None:
            e = self._exp[(addr, ln)] = ref.beat_addresses(addr, ln, self.size, self.burst)
        return e

    def choices(self, env):
        cur, k, snap = env
        if cur is not None:
            return [("hold", 0), ("hold", 1)]
        out = [("idle", g, r) for g in (0, 1) for r in (0, 1)]
        for (addr, ln, i) in self.group:
            out.append(("start", addr, ln, i, 0))
            out.append(("start", addr, ln, i, 1))
        return out

    def request(self, env, ch):
        if ch[0] == "hold":
            return env[0]
        if ch[0] == "start":
            return (ch[1], ch[2], ch[3])
        return None

    def drive(self, v, env, ch):
        I = self.I
        rq = self.request(env, ch)
        if rq is None:
            g = ch[1]
            v[I["valid"]] = 0
            v[I["addr"]] = (1 << AW) - 1 if g else 0
            v[I["len"]] = 0xFF if g else 0
            v[I["size"]] = 7 if g else 0
            v[I["burst"]] = 3 if g else 0
            v[I["id"]] = (1 << IDW) - 1 if g else 0
        else:
            v[I["valid"]] = 1
            v[I["addr"]], v[I["len"]], v[I["id"]] = rq
            v[I["size"]], v[I["burst"]] = self.size, self.burst
        v[self.O["ready"]] = ch[-1]

    def observe(self, v, env, ch):
        cur, k, snap = env
        I, O = self.I, self.O
        now = tuple([v[i] for i in self.Sx])
        if snap is not None and snap != now:
            return env, ("stall.moved", f"beat {k} was stalled (ax_beat.ready=0) but the registers moved {snap} -> {now}"), 0
        rdy = ch[-1]
        rq = self.request(env, ch)
        if rq is None:
            self.cov["idle_garbage_cycles"] += 1
            if v[O["valid"]]:
                return env, ("beat.spurious", f"ax_beat.valid=1 (addr={v[O['addr']]:#x}) although no request is offered"), 0
            return (None, 0, None), None, 0
        addr, ln, bid = rq
        if ch[0] == "start" and now != self._reset_regs:
            self.cov["starts_from_non_reset_registers"] += 1
        exp = self.expected(addr, ln)
        sz = self.size
        what = f"{ref.BURST_NAMES[self.burst]} addr={addr:#x} len={ln} size={sz}"
        if not v[O["valid"]]:
            return env, ("beat.missing", f"{what}: no beat offered for transfer {k+1}"), 0
        if (v[O["addr"]] >> sz) != (exp[k] >> sz):
            return env, ("beat.addr", f"{what}: transfer {k+1} has address {v[O['addr']]:#x}, AXI says {exp[k]:#x} (compared >> size)"), 0
        if v[O["first"]] != (1 if k == 0 else 0):
            return env, ("beat.first", f"{what}: transfer {k+1} has first={v[O['first']]}"), 0
        if v[O["last"]] != (1 if k == ln else 0):
            return env, ("beat.last", f"{what}: transfer {k+1} of {ln+1} has last={v[O['last']]}"), 0
        if v[O["id"]] != bid:
            return env, ("beat.id", f"{what}: transfer {k+1} has id {v[O['id']]}, request has {bid}"), 0
        consumed = 1 if (rdy and k == ln) else 0
        if v[I["ready"]] != consumed:
            return env, ("req.consumed", f"{what}: ax_burst.ready={v[I['ready']]} in transfer {k+1} of {ln+1} with ax_beat.ready={rdy}"), 0
        if not rdy:
            self.cov["stalls"] += 1
            return (rq, k, now), None, 0
        self.cov["beats"] += 1
        if k and exp[k] < exp[k-1]:
            self.cov["wrapped_bursts"] += 1
        if k == ln:
            return (None, 0, None), None, 0
        return (rq, k + 1, None), None, 0

    def cover_report(self):
        return dict(self.cov)


# ---------------------------------------------------------------------------------------------------
# the burst space
# ---------------------------------------------------------------------------------------------------
QUICK_LENS = list(range(0, 17)) + [31, 63, 255]


def start_addresses(burst, size, ln):
    """Start-address grid: every alignment class w.r.t. the transfer size (and at least one more address bit) at a plain base, the
    placements that end exactly at a 4 KiB boundary (carry chain through bit 11) and the same at the top of the 32-bit
    space; WRAP: every transfer-aligned position of four windows (even / odd window index, last window of a page, last
    window of the address space)."""
    nb = 1 << size
    tot = (ln + 1) * nb
    out = []
    if burst == ref.WRAP:
        for wb in (0x1000, 0x1000 + 3 * tot if 0x1000 + 4 * tot <= 0x2000 else 0x1000 + tot, 0x3000 - tot, 0x100000000 - tot):
            for p in range(ln + 1):
                out.append(wb + p * nb)
    else:
        span = max(16, 2 * nb)
        out += [0x1000 + lo for lo in range(span)]
        end = tot if burst == ref.INCR else nb
        for base in (0x3000, 0x100000000):
            out += [base - end + j for j in range(nb)]
            if burst == ref.FIXED:
                out += [base - 2 * nb + j for j in range(nb)]
    seen, res = set(), []
    for a in out:
        if a in seen or a < 0:
            continue
        seen.add(a)
        if ref.illegal(a, ln, size, burst, 1 << size) is None:
            res.append(a)
    return res


def burst_space(burst, size, lens):
    out = []
    for ln in lens:
        for a in start_addresses(burst, size, ln):
            out.append((a, ln, (a + ln + 1) & ((1 << IDW) - 1)))
    return out


def groups_of(bursts, max_beats=40_000):
    g, n = [], 0
    for b in bursts:
        g.append(b)
        n += b[1] + 1
        if n >= max_beats:
            yield g
            g, n = [], 0
    if g:
        yield g
