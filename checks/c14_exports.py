"""C14 - exported software maps (csr.h / mem.h / soc.h, JSON, CSV, SVD) tell the truth about the hardware, and memory
images put every source byte where a CPU of the stated endianness reads it.

One configuration = one real, finalised `SoCCore(cpu_type=None)` (bus standard x bus width x interconnect x CSR data
width x paging x ordering x CSR address width x CSR base x peripheral menu) with a 32-bit test-bench Wishbone master.
The exporters' outputs are parsed by independent parsers; the generated C accessors are translated statement by
statement and *executed*, so multi-word composition is the exporter's.  Every published location is then accessed on the
simulated SoC and compared with the hardware object that carries the published name (found by an own walk over the
SoC).  The fast stepper does the bulk simulation (sampled conformance against LiteX's Evaluator); every violation is
re-run from reset on `litex.gen.sim.run_simulation` before it is reported.
"""
import fsmc  # noqa: F401  FIRST: tracer shim + /repo (or $VERIF_REPO) on sys.path
import os, sys, io, json, itertools, contextlib, tempfile, signal

from fsmc.design import MachineryError

PROPERTY = "C14"
LEVEL = "exploration"
VERBOSE = True
MAXTASKS = 4
RULE = ("thorough: full Cartesian product of the SoC parameter menus; quick: the full product of the bus platforms (standard x "
        "width x interconnect x CSR data width) each with 3 of the 5 menus in rotation (2 big-, 1 little-ordered); per SoC every register, CSR "
        "memory, bus memory region, field, constant and interrupt number published by get_csr_json/csv/header/svd, "
        "get_mem_header and get_soc_header is checked; evaluations = bus accesses whose effect/result was compared with "
        "the hardware object of that name (image part: source bytes compared); every multi-word register / wide CSR-memory "
        "element is also written with every writable item of another bank interleaved before its last chunk; distinct = "
        "distinct (SoC configuration, published item or (interrupted item, interloper) pair) cases (image part: distinct "
        "(form, length, offset, content) cases)")
ASSUMPTIONS = [
    "2-state zero-delay FHDL semantics of litex.gen.sim; bulk simulation on the compiled stepper, every 193rd clock edge "
    "re-executed on LiteX's Evaluator (all signals compared); every violation re-run from reset on run_simulation",
    "SoCs are SoCCore(cpu_type=None) with integrated SRAM; the bus master is a 32-bit classic Wishbone master that "
    "always drives sel=0xf (the SoC inserts width/standard adapters); csr_alignment is 32 (the only supported value)",
    "registers wider than 64 bits have no generated accessor: they are composed MSW-first at ADDR+4k as hw/common.h documents",
    "CSR memories are read/written element-wise MSW-first at BASE+4*(elem*subwords+k) (hw/common.h buffer helpers)",
    "interrupt numbers: CPUNone gets a 32-bit interrupt vector from the harness so that SoC.finalize wires and publishes them",
    "writes to unmapped addresses are not issued (the property speaks about published locations only)",
    "image part: regions with bases that are multiples of the data-word size; a zero-length file may be refused; the CPU "
    "model is a byte-addressed CPU whose data bus is data_width wide (little: lane = a mod W, big: lane = W-1 - a mod W)",
    "SVD <size>/<resetValue>/descriptions and documentation-only field widths of split registers are not compared",
    "tracer shim (names only)",
]

from checks import c14_soc as S
from checks import c14_parse as P

# ------------------------------------------------------------------------------------------------------------------
# configuration menus
# ------------------------------------------------------------------------------------------------------------------
STD = ["wishbone", "axi-lite", "axi"]
SHORT = {"wishbone": "wb", "axi-lite": "axil", "axi": "axi", "shared": "sh", "crossbar": "xb"}
FULL = dict(std=STD, bdw=[32, 64], ic=["shared", "crossbar"], cdw=[32, 8], paging=[0x400, 0x800, 0x1000],
            ordering=["big", "little"], aw=[14, 15], base=[0x0, 0xF0000000, 0x82000000], menu=S.MENU_ORDER)
# quick: every bus platform (std x bus width x interconnect x CSR data width = 24, a full product) with three of the
# five menus, rotating, two big-ordered and one little-ordered; paging 0x800, aw 14; the CSR base is tied to the menu
# (both values stay in).  Every value of every quick axis occurs at least 12 times, every (menu, cdw), (menu, ordering)
# and (std, bdw, ic, cdw) combination occurs.
QUICK = dict(std=STD, bdw=[32, 64], ic=["shared", "crossbar"], cdw=[32, 8], paging=[0x800],
             ordering=["big", "little"], aw=[14], base=[0x0, 0x82000000], menu=S.MENU_ORDER)
QUICK_BASE = {"sizes": 0x82000000, "atomic": 0x82000000, "memfix": 0x0, "loc0free": 0x0, "multi": 0x82000000}
IMG_DW = [32, 64]
IMG_END = ["little", "big"]


def soc_name(std, bdw, ic, cdw, paging, ordering, aw, base, menu):
    return f"soc:{SHORT[std]}{bdw}:{SHORT[ic]}:cdw={cdw}:ord={ordering}:pg={paging:#x}:aw={aw}:base={base:#010x}:m={menu}"


def configs(tier):
    global VERBOSE
    VERBOSE = tier != "thorough"
    return (enumerate_configs(FULL) + edge_configs(True)) if tier == "thorough" else (enumerate_quick() + edge_configs(False))


def enumerate_quick():
    out = [c for c in enumerate_configs(FULL) if c[1] == "img"]
    menus = S.MENU_ORDER
    platforms = itertools.product(QUICK["std"], QUICK["bdw"], QUICK["ic"], QUICK["cdw"])
    for p, (std, bdw, ic, cdw) in enumerate(platforms):
        for shift, ordering in ((0, "big"), (2, "little"), (4, "big")):
            menu = menus[(p + shift) % len(menus)]
            combo = (std, bdw, ic, cdw, 0x800, ordering, 14, QUICK_BASE[menu], menu)
            out.append((soc_name(*combo), "soc") + combo)
    return out


def edge_configs(thorough):
    """the CSR location boundary menus on a few platforms (not part of the product: they only vary what decides n_locs)"""
    out = []
    for menu in S.EDGE_MENUS:
        for (std, bdw, ic, cdw, paging, aw, base) in [("wishbone", 32, "shared", 32, 0x800, 14, 0x82000000), ("axi-lite", 64, "crossbar", 8, 0x800, 14, 0x0)] + \
                ([("wishbone", 32, "shared", 8, 0x400, 15, 0xF0000000), ("axi", 32, "shared", 32, 0x1000, 14, 0x0)] if thorough else []):
            combo = (std, bdw, ic, cdw, paging, "big", aw, base, menu)
            out.append((soc_name(*combo), "soc") + combo)
    return out


def enumerate_configs(menu):
    out = []
    for dw in IMG_DW:
        for en in IMG_END:
            out.append((f"img:dw={dw}:end={en}", "img", dw, en))
    keys = ["std", "bdw", "ic", "cdw", "paging", "ordering", "aw", "base", "menu"]
    for combo in itertools.product(*[menu[k] for k in keys]):
        out.append((soc_name(*combo), "soc") + combo)
    return out


# ------------------------------------------------------------------------------------------------------------------
# helpers
# ------------------------------------------------------------------------------------------------------------------
LANES = [0xA1, 0xB2, 0xC3, 0xD4, 0xE5, 0xF6, 0x97, 0x88, 0x79, 0x6A, 0x5B, 0x4C]


def pattern(size, salt):
    """lane-unique pattern: every byte lane differs, the top bit is set, differs per register (salt)."""
    v = 0
    for i in range((size + 7) // 8):
        v |= LANES[(i + salt) % len(LANES)] << (8 * i)
    v &= (1 << size) - 1
    v |= 1 << (size - 1)
    return v


@contextlib.contextmanager
def quiet():
    old = sys.stdout
    sys.stdout = io.StringIO()
    try:
        yield
    finally:
        sys.stdout = old


class Watchdog:
    def __init__(self, seconds, what):
        self.s, self.what = seconds, what

    def __enter__(self):
        def h(*a):
            raise TimeoutError(f"watchdog: {self.what} did not return within {self.s}s")
        self.old = signal.signal(signal.SIGALRM, h)
        signal.alarm(self.s)

    def __exit__(self, *a):
        signal.alarm(0)
        signal.signal(signal.SIGALRM, self.old)


def hexs(x):
    return hex(x) if isinstance(x, int) else x


# ------------------------------------------------------------------------------------------------------------------
# views: everything the exporters publish, parsed
# ------------------------------------------------------------------------------------------------------------------
class Views:
    pass


class ExportFailure(Exception):
    """an exporter raised on a legal SoC, or its text is unparseable: reported as a violation (rule export.fail)"""


def make_views(b):
    from litex.soc.integration import export
    soc = b.soc
    v = Views()
    def call(what, fn, *a, **k):
        try:
            with Watchdog(60, what):
                return fn(*a, **k)
        except TimeoutError:
            raise
        except Exception as e:
            raise ExportFailure(f"{what} raises {type(e).__name__}: {e}")
    with quiet():
        v.json_text = call("get_csr_json", export.get_csr_json, soc.csr_regions, soc.constants, soc.mem_regions)
        v.csv_text = call("get_csr_csv", export.get_csr_csv, soc.csr_regions, soc.constants, soc.mem_regions)
        # exactly the call Builder._generate_includes makes (plus field accessors so that their text is checked too)
        v.hdr_text = call("get_csr_header", export.get_csr_header, regions=soc.csr_regions, constants=soc.constants,
                          csr_base=soc.mem_regions["csr"].origin,
                          with_access_functions=True, with_fields_access_functions=True)
        v.hdr_text_nobase = call("get_csr_header", export.get_csr_header, regions=soc.csr_regions, constants=soc.constants,
                                 csr_base=soc.mem_regions["csr"].origin, with_csr_base_define=False,
                                 with_access_functions=False)
        v.svd_text = call("get_csr_svd", export.get_csr_svd, soc, description="c14")
        v.memh_text = call("get_mem_header", export.get_mem_header, soc.mem_regions)
        v.soch_text = call("get_soc_header", export.get_soc_header, soc.constants)
        v.ld_text = call("get_linker_regions", export.get_linker_regions, soc.mem_regions)
        v.memx_text = call("get_memory_x", export.get_memory_x, soc)
    try:
        v.js = json.loads(v.json_text)
        v.csv = P.parse_csv(v.csv_text)
        v.hdr = P.CHeader(v.hdr_text)
        v.hdr_nobase, _ = P.parse_defines(v.hdr_text_nobase)
        v.svd = P.parse_svd(v.svd_text)
        v.memh, v.memlist = P.parse_mem_header(v.memh_text)
        v.soch = P.parse_soc_header(v.soch_text)
        v.ld = P.parse_linker_regions(v.ld_text)
        v.memx = P.parse_linker_regions(v.memx_text)
    except (P.ParseError, ValueError, SyntaxError) as e:
        raise ExportFailure(f"exported text is outside the format its consumers expect: {type(e).__name__}: {e}")
    return v


def const_str(x):
    """CSV / SVD print constants with str(); JSON lower-cases strings."""
    return str(x)


def static_checks(b, v):
    """Cross-format agreement and agreement with soc.constants / soc.bus.regions.  Returns (violations, word maps)."""
    out = []
    soc = b.soc
    js, csv, hdr, svd = v.js, v.csv, v.hdr, v.svd

    def bad(rule, msg, **detail):
        out.append(dict(rule=rule, msg=msg, detail=detail))

    # --- register name sets: published vs hardware walk
    pub = set(js["csr_registers"])
    hw = set(b.regs)
    if pub != hw:
        bad("fmt.names", f"JSON lists registers {sorted(pub - hw)} unknown to the hardware walk / misses {sorted(hw - pub)}")
    stride = (js["constants"].get("config_csr_alignment") or 32) // 8
    busword = js["constants"].get("config_csr_data_width")
    if busword != b.cdw:
        bad("fmt.const", f"CONFIG_CSR_DATA_WIDTH published as {busword}, the SoC was built with {b.cdw}")
        busword = b.cdw
    wordmaps = {}
    for name, info in js["csr_registers"].items():
        wm = {"json": [info["addr"] + stride * k for k in range(info["size"])]}
        r = b.regs.get(name)
        if r is not None:
            nw = (r.size + busword - 1) // busword
            if nw != info["size"]:
                bad("fmt.size", f"{name}: JSON size {info['size']} words, register has {r.size} bits = {nw} words of {busword}")
            want_type = "ro" if (r.kind == "status" and r.wpath is None) else "rw"
            if info["type"] != want_type:
                bad("fmt.type", f"{name}: JSON type {info['type']}, hardware is {want_type}")
        c = csv["csr_registers"].get(name)
        if c is None:
            bad("fmt.csv", f"{name} missing in CSV")
        else:
            wm["csv"] = [c["addr"] + stride * k for k in range(c["size"])]
            if c["type"] != info["type"]:
                bad("fmt.csv", f"{name}: CSV type {c['type']} JSON {info['type']}")
        a, n = hdr.env.get(f"CSR_{name.upper()}_ADDR"), hdr.env.get(f"CSR_{name.upper()}_SIZE")
        if not isinstance(a, int) or not isinstance(n, int):
            bad("fmt.header", f"{name}: no CSR_{name.upper()}_ADDR/_SIZE in csr.h")
        else:
            wm["header"] = [a + 4 * k for k in range(n)]
            a2 = v.hdr_nobase.get(f"CSR_{name.upper()}_ADDR")
            if a2 != a:
                bad("fmt.header", f"{name}: csr.h with and without CSR_BASE define disagree ({hexs(a)} vs {hexs(a2)})")
        wordmaps[name] = wm
    for name in csv["csr_registers"]:
        if name not in js["csr_registers"]:
            bad("fmt.csv", f"CSV lists {name}, JSON does not")
    for k in hdr.env:
        if k.startswith("CSR_") and k.endswith("_ADDR") and k[4:-5].lower() not in js["csr_registers"]:
            bad("fmt.header", f"csr.h defines {k}, JSON has no such register")
    # --- SVD: peripheral base + offset, sub-register naming R{i} = bits [i*busword ...]
    svdmap = {}
    for pname, per in svd["peripherals"].items():
        for reg in per["registers"]:
            svdmap.setdefault(pname.lower(), []).append((reg["name"], per["base"] + reg["offset"], reg))
    v.svd_fields = {}
    for region, base in js["csr_bases"].items():
        per = svd["peripherals"].get(region.upper())
        if per is None:
            bad("fmt.svd", f"region {region} missing in SVD")
            continue
        if per["base"] != base:
            bad("fmt.svd", f"region {region}: SVD baseAddress {per['base']:#x}, JSON {base:#x}")
    for name, r in b.regs.items():
        if name not in js["csr_registers"]:
            continue
        nw = js["csr_registers"][name]["size"]
        entries = {n: (a, reg) for n, a, reg in svdmap.get(r.module, [])}
        short = name[len(r.module) + 1:].upper()
        wm = []
        for k in range(nw):
            i = nw - 1 - k
            n = short + str(i) if nw > 1 else short
            if n not in entries:
                bad("fmt.svd", f"{name}: SVD peripheral {r.module.upper()} has no register {n}")
                wm = None
                break
            wm.append(entries[n][0])
            hwf = {f[0] for f in r.fields}
            for f in entries[n][1]["fields"]:
                if f["name"] == short.lower() and f["name"] not in hwf:
                    continue      # SVD gives (sub-)registers without fields one pseudo-field named after the register
                v.svd_fields.setdefault(name, []).append((f["name"], i * busword + f["lsb"], f["msb"] - f["lsb"] + 1))
        if wm is not None:
            wordmaps[name]["svd"] = wm
    for name, wm in wordmaps.items():
        vals = {k: tuple(x) for k, x in wm.items()}
        if len(set(vals.values())) > 1:
            bad("fmt.disagree", f"{name}: the formats publish different word addresses: " +
                ", ".join(f"{k}={[hex(a) for a in x]}" for k, x in sorted(vals.items())), reg=name)
    # --- region bases
    for region, base in js["csr_bases"].items():
        if csv["csr_bases"].get(region) != base:
            bad("fmt.csv", f"csr_base {region}: CSV {hexs(csv['csr_bases'].get(region))} JSON {base:#x}")
        hb = hdr.env.get(f"CSR_{region.upper()}_BASE")
        if hb != base:
            bad("fmt.header", f"CSR_{region.upper()}_BASE is {hexs(hb)} in csr.h, JSON says {base:#x}", reg=region)
        if v.hdr_nobase.get(f"CSR_{region.upper()}_BASE") != hb:
            bad("fmt.header", f"CSR_{region.upper()}_BASE differs between csr.h with and without CSR_BASE define")
    # --- memory regions
    truth = {n.lower(): (r.origin, r.size) for n, r in soc.bus.regions.items()}
    fm = dict(json={n: (m["base"], m["size"]) for n, m in js["memories"].items()},
              csv={n: (m["base"], m["size"]) for n, m in csv["memories"].items()},
              mem_h={n: (m["base"], m["size"]) for n, m in v.memh.items()},
              mem_h_list={n: (m["base"], m["size"]) for n, m in v.memlist.items()},
              svd={n: (m["base"], m["size"]) for n, m in svd["memories"].items()},
              regions_ld=dict(v.ld), memory_x=dict(v.memx))
    for fmt, d in fm.items():
        if d != truth:
            bad("fmt.mem", f"{fmt} memory regions {d} differ from soc.bus.regions {truth}")
    # --- constants
    consts = dict(soc.constants)
    for n, val in consts.items():
        jv = js["constants"].get(n.lower(), KeyError)
        want = val.lower() if isinstance(val, str) else val
        if jv is KeyError or jv != want:
            bad("fmt.const", f"constant {n}: JSON {jv!r}, soc.constants {val!r}")
        cv = csv["constants"].get(n.lower(), KeyError)
        if cv is KeyError or cv != const_str(want):
            bad("fmt.const", f"constant {n}: CSV {cv!r}, soc.constants {val!r}")
        sv = svd["constants"].get(n, KeyError)
        if sv is KeyError or sv != const_str(val):
            bad("fmt.const", f"constant {n}: SVD {sv!r}, soc.constants {val!r}")
        hv = v.soch.get(n, KeyError)
        if hv is KeyError or hv != val:
            bad("fmt.const", f"constant {n}: soc.h {hv!r}, soc.constants {val!r}")
    for fmt, d in (("json", js["constants"]), ("csv", csv["constants"])):
        for n in d:
            if n.upper() not in consts:
                bad("fmt.const", f"{fmt} publishes constant {n} that soc.constants lacks")
    for n in list(svd["constants"]) + list(v.soch):
        if n not in consts:
            bad("fmt.const", f"SVD/soc.h publish constant {n} that soc.constants lacks")
    # constants announced by the peripherals themselves (CSRConstant) and by the configuration
    for n, val in b.csrconsts.items():
        if consts.get(n, KeyError) != val:
            bad("fmt.const", f"CSRConstant {n} = {val} of the hardware is published as {consts.get(n)!r}")
    for n, want in (("CONFIG_CSR_DATA_WIDTH", b.cdw), ("CONFIG_CSR_ALIGNMENT", 32), ("CONFIG_BUS_DATA_WIDTH", b.bdw),
                    ("CONFIG_BUS_ADDRESS_WIDTH", 32)):
        if consts.get(n) != want:
            bad("fmt.const", f"{n} published as {consts.get(n)!r}, the SoC was built with {want}")
    # --- interrupts: constant NAME_INTERRUPT == SVD <interrupt>
    v.irq_pub = {}
    for mname in b.evs:
        n = consts.get(mname.upper() + "_INTERRUPT")
        per = svd["peripherals"].get(mname.upper())
        sv = per["interrupt"][1] if per and per["interrupt"] else None
        if n is None and sv is None:
            continue
        if n != sv:
            bad("fmt.irq", f"{mname}: constant {mname.upper()}_INTERRUPT = {n}, SVD <interrupt> value = {sv}")
        v.irq_pub[mname] = sorted({x for x in (n, sv) if x is not None})
    v.wordmaps, v.busword, v.stride = wordmaps, busword, stride
    return out


# ------------------------------------------------------------------------------------------------------------------
# dynamic tests
# ------------------------------------------------------------------------------------------------------------------
class Test:
    """script + evaluation.  `check(res)` returns [(kind, message, detail)], kind in addr|order|field|csrmem|busmem|irq|image|hang."""
    def __init__(self, tid, target, script, check, requires=(), variant=None, disputed=False):
        self.tid, self.target, self.script, self.check, self.requires = tid, target, script, check, tuple(requires)
        self.variant, self.disputed = variant, disputed      # disputed: the formats publish different addresses for it
        self.nacc = sum(1 for s in script if s[0] in ("r", "w"))


def acc_ok(res, fails, what):
    for k, r in enumerate(res["reads"]):
        if r[0] != "ok":
            fails.append(("hang" if r[0] == "hang" else "addr", f"{what}: bus access #{k} ended with {r[0]}", dict(access=k)))
            return False
    return True


def diff_snap(paths, s0, s1):
    return {paths[i]: (a, c) for i, (a, c) in enumerate(zip(s0, s1)) if a != c}


class Gen:
    def __init__(self, b, v):
        self.b, self.v = b, v
        self.paths = S.arch_paths(b)
        self.pidx = {p: i for i, p in enumerate(self.paths)}
        self.tests = []
        self.salt = 0

    # -- composition: header accessor text when there is one, else MSW-first rule over the published word map
    def write_ops(self, name, value, variant):
        hdr, v = self.v.hdr, self.v
        fn = name + "_write"
        if variant == "header" and hdr.has(fn):
            io_ = P.RecordIO()
            hdr.call(fn, io_, value)
            return io_.ops, "accessor"
        if variant == "native":
            # the SoC was configured with csr_ordering="little": LSW at the lowest published address
            wm = v.wordmaps[name]["json"]
            bw = v.busword
            return [("w", a, (value >> (bw * k)) & ((1 << bw) - 1)) for k, a in enumerate(wm)], "lsw-first"
        wm = v.wordmaps[name][variant]
        n, bw = len(wm), v.busword
        return [("w", a, (value >> (bw * (n - 1 - k))) & ((1 << bw) - 1)) for k, a in enumerate(wm)], "msw-first"

    def read_ops(self, name, variant):
        hdr, v = self.v.hdr, self.v
        fn = name + "_read"
        if variant == "header" and hdr.has(fn):
            io_ = P.RecordIO()
            hdr.call(fn, io_)
            def compose(vals):
                return hdr.call(fn, P.RecordIO(vals))
            return io_.ops, compose
        bw = v.busword
        if variant == "native":
            wm = v.wordmaps[name]["json"]
            def compose(vals):
                x = 0
                for w in reversed(vals):
                    x = (x << bw) | (w & ((1 << bw) - 1))
                return x
            return [("r", a) for a in wm], compose
        wm = v.wordmaps[name][variant]
        def compose(vals):
            x = 0
            for w in vals:
                x = (x << bw) | (w & ((1 << bw) - 1))
            return x
        return [("r", a) for a in wm], compose

    def variants(self, name):
        """distinct word maps to exercise: the header's (accessors) and any format that disagrees with it."""
        wm = self.v.wordmaps.get(name, {})
        seen, out = set(), []
        for k in ("header", "json", "csv", "svd"):
            if k in wm and tuple(wm[k]) not in seen:
                seen.add(tuple(wm[k]))
                out.append(k)
        return out

    def disputed(self, name, variant):
        """this format publishes other addresses for the register than the JSON listing does"""
        wm = self.v.wordmaps[name]
        return variant != "native" and "json" in wm and wm[variant] != wm["json"]

    def add(self, *a, **k):
        self.tests.append(Test(*a, **k))

    # -- registers ----------------------------------------------------------------------------------------------
    def reg_tests(self):
        b, v = self.b, self.v
        for name in sorted(v.js["csr_registers"]):
            r = b.regs.get(name)
            if r is None:
                continue
            self.salt += 1
            nw = v.js["csr_registers"][name]["size"]
            variants = self.variants(name)
            if b.ordering == "little" and nw > 1 and "json" in v.wordmaps[name]:
                # multi-word registers of a little-ordered SoC are additionally accessed LSW-first: the published
                # addr/size must denote the register even though the generated accessors ignore the ordering
                variants = variants + ["native"]
            for variant in variants:
                if r.kind == "storage" or r.wpath is not None:
                    for pi, val in enumerate((pattern(r.size, self.salt), ~pattern(r.size, self.salt) & ((1 << r.size) - 1))):
                        self.write_test(name, r, nw, variant, val, pi)
                if r.kind != "storage":
                    self.status_test(name, r, nw, variant)

    def write_test(self, name, r, nw, variant, val, pi):
        wops, how = self.write_ops(name, val, variant)
        rops, compose = self.read_ops(name, variant)
        readable = r.kind == "storage"
        script = [("snap",)] + wops + [("idle", 2), ("snap",)] + (rops if readable else []) + [("snap",), ("get", r.wpath)]
        paths, wi = self.paths, self.pidx[r.wpath]
        nwr = len(wops)

        def check(res, name=name, val=val, nw=nw):
            fails = []
            if not acc_ok(res, fails, f"{name} write/read"):
                return fails
            s0, s1, s2 = res["snaps"]
            d = diff_snap(paths, s0, s1)
            others = {k: x for k, x in d.items() if k != r.wpath}
            got = s1[wi]
            detail = dict(reg=name, written=hex(val), how=how, ops=[(o[0], hex(o[1])) + tuple(hex(x) for x in o[2:]) for o in wops],
                          storage=hex(got), others_changed={str(k): (hex(x[0]), hex(x[1])) for k, x in list(others.items())[:4]})
            if others or got != val:
                kind = "order" if (nw > 1 and not others and d) else "addr"
                fails.append((kind, f"{name}: writing {val:#x} through the published {how} sequence leaves {r.wpath[2]}={got:#x}"
                              + (f" and changes {sorted(map(str, others))[:3]}" if others else ""), detail))
                return fails
            if s2 != s1:
                fails.append(("addr", f"{name}: reading it back changed {sorted(map(str, diff_snap(paths, s1, s2)))[:3]}", detail))
            if readable:
                vals = [x[1] for x in res["reads"][nwr:]]
                back = compose(vals)
                if back != val:
                    kind = "order" if nw > 1 and sorted(vals) == sorted((val >> (self.v.busword * k)) & ((1 << self.v.busword) - 1) for k in range(nw)) else "addr"
                    fails.append((kind, f"{name}: holds {val:#x}, the published read sequence returns {back:#x}", dict(detail, read_words=[hex(x) for x in vals])))
            return fails
        self.add(f"w{pi}:{variant}:{name}", name, script, check, variant=variant, disputed=self.disputed(name, variant))

    def status_test(self, name, r, nw, variant):
        b = self.b
        rops, compose = self.read_ops(name, variant)
        drive = []
        want = None
        kindof = b.drive.get(name)
        if kindof == "status":
            want = pattern(r.size, self.salt + 3)
            drive = [("set", ("reg", name, "status"), want)]
        elif kindof == "fields":
            want = 0
            for k, (fn, off, sz) in enumerate(r.fields):
                fv = pattern(sz, self.salt + k)
                drive.append(("set", ("field", name, fn), fv))
                want |= fv << off
        script = drive + [("idle", 2), ("get", r.path), ("snap",)] + rops + [("snap",), ("get", r.path)]
        paths = self.paths

        def check(res, name=name, want=want, nw=nw):
            fails = []
            if not acc_ok(res, fails, f"{name} read"):
                return fails
            g0, g1 = res["gets"]
            if g0 != g1:
                return fails       # the design changed the status while it was read: nothing to compare
            if want is not None and g0 != want:
                raise MachineryError(f"{name}: test bench could not drive the status line ({g0:#x} != {want:#x})")
            vals = [x[1] for x in res["reads"]]
            back = compose(vals)
            detail = dict(reg=name, status=hex(g0), read_words=[hex(x) for x in vals], ops=[(o[0], hex(o[1])) for o in rops])
            if res["snaps"][0] != res["snaps"][1]:
                fails.append(("addr", f"{name}: reading the status register changed {sorted(map(str, diff_snap(paths, *res['snaps'])))[:3]}", detail))
            if back != g0:
                bw = self.v.busword
                kind = "order" if nw > 1 and sorted(vals) == sorted((g0 >> (bw * k)) & ((1 << bw) - 1) for k in range(nw)) else "addr"
                fails.append((kind, f"{name}: status is {g0:#x}, the published read sequence returns {back:#x}", detail))
            return fails
        self.add(f"s:{variant}:{name}", name, script, check, variant=variant, disputed=self.disputed(name, variant))

    # -- fields -------------------------------------------------------------------------------------------------
    def field_claims(self, name, r):
        """published (field, offset, size) per format."""
        hdr = self.v.hdr
        claims = {}
        region = r.module
        short = name[len(region) + 1:]
        for fn, off, sz in r.fields:
            o = hdr.env.get(f"CSR_{region.upper()}_{short.upper()}_{fn.upper()}_OFFSET")
            s = hdr.env.get(f"CSR_{region.upper()}_{short.upper()}_{fn.upper()}_SIZE")
            claims.setdefault(fn, {})["header"] = (o, s)
        # SVD: pieces of one field in several sub-registers are merged when contiguous
        pieces = {}
        for fn, off, sz in self.v.svd_fields.get(name, []):
            pieces.setdefault(fn, []).append((off, sz))
        for fn, pcs in pieces.items():
            pcs.sort()
            lo, n = pcs[0][0], 0
            ok = True
            for off, sz in pcs:
                if off != lo + n:
                    ok = False
                n += sz
            claims.setdefault(fn, {})["svd"] = (lo, n) if ok else ("split", tuple(pcs))
        return claims

    def field_tests(self, static_out):
        b, v = self.b, self.v
        for name in sorted(v.js["csr_registers"]):
            r = b.regs.get(name)
            if r is None or not r.fields or "header" not in v.wordmaps.get(name, {}):
                continue
            claims = self.field_claims(name, r)
            hwnames = {f[0] for f in r.fields}
            for fn in sorted(set(claims) - hwnames):
                static_out.append(dict(rule="fmt.field", msg=f"{name}: published field {fn} does not exist in the hardware", detail={}))
            for fn, off_hw, sz_hw in r.fields:
                cl = claims.get(fn, {})
                if "header" not in cl or "svd" not in cl or None in cl.get("header", ()):
                    static_out.append(dict(rule="fmt.field", msg=f"{name}.{fn}: field not published by csr.h/SVD ({cl})", detail={}))
                if len({x for x in cl.values()}) > 1:
                    static_out.append(dict(rule="fmt.field", msg=f"{name}.{fn}: formats disagree on the field position: {cl}", detail=dict(reg=name)))
                for fmt, (off, sz) in sorted(cl.items()):
                    if not isinstance(off, int) or not isinstance(sz, int):
                        static_out.append(dict(rule="fmt.field", msg=f"{name}.{fn}: {fmt} publishes a non-contiguous field {off, sz}", detail={}))
                        continue
                    if fmt != "header" and cl.get("header") == (off, sz):
                        continue      # same claim: tested once
                    if r.kind == "storage":
                        self.field_write_test(name, r, fn, off, sz, fmt)
                    elif b.drive.get(name) == "fields":
                        self.field_read_test(name, r, fn, off, sz, fmt)

    def field_write_test(self, name, r, fn, off, sz, fmt):
        hdr = self.v.hdr
        x = ((1 << sz) - 1) << off
        wops, how = self.write_ops(name, x & ((1 << r.size) - 1), "header")
        script = wops + [("idle", 2)] + [("get", ("field", name, f[0])) for f in r.fields if not self.pulse(name, f[0])]
        flds = [f for f in r.fields if not self.pulse(name, f[0])]
        n1 = len(wops)
        # read-modify-write accessor NAME_FIELD_write(plain) (generated for registers of <= 32 bits)
        rmw = f"{name}_{fn}_write"
        plain = pattern(sz, self.salt + 5)
        base_val = pattern(r.size, self.salt + 7)
        rmw_ops = []
        if fmt == "header" and hdr.has(rmw) and not self.pulse(name, fn):
            w0, _ = self.write_ops(name, base_val, "header")
            io_ = P.RecordIO([base_val])
            hdr.call(rmw, io_, plain)
            rmw_ops = w0 + io_.ops
            script += rmw_ops + [("idle", 2)] + [("get", ("field", name, f[0])) for f in flds]

        def check(res):
            fails = []
            if not acc_ok(res, fails, f"{name}.{fn} field write"):
                return fails
            g = res["gets"]
            for k, (gn, goff, gsz) in enumerate(flds):
                want = ((1 << gsz) - 1) if gn == fn else 0
                if g[k] != want:
                    fails.append(("field", f"{name}: writing ones to the published position [{off}+:{sz}] of field {fn} ({fmt}) gives field {gn} = {g[k]:#x}, expected {want:#x}",
                                  dict(reg=name, field=fn, fmt=fmt, published=(off, sz), hardware=[f for f in r.fields if f[0] == fn][0][1:])))
                    return fails
            if rmw_ops:
                rd = res["reads"][n1 + len(rmw_ops) - 2]
                if rd[1] != base_val:
                    return fails          # read-back failure is reported by the register test
                g2 = g[len(flds):]
                for k, (gn, goff, gsz) in enumerate(flds):
                    want = plain if gn == fn else (base_val >> goff) & ((1 << gsz) - 1)
                    if g2[k] != want:
                        fails.append(("field", f"{name}: generated accessor {rmw}({plain:#x}) over {base_val:#x} gives field {gn} = {g2[k]:#x}, expected {want:#x}",
                                      dict(reg=name, field=fn, accessor=rmw)))
                        return fails
            return fails
        self.add(f"fw:{fmt}:{name}.{fn}", name + "." + fn, script, check, requires=[name])

    def pulse(self, name, fn):
        f = getattr(self.b.regs[name].csr.fields, fn)
        return bool(f.pulse)

    def field_read_test(self, name, r, fn, off, sz, fmt):
        hdr = self.v.hdr
        rops, compose = self.read_ops(name, "header")
        drive, vals = [], {}
        for k, (gn, goff, gsz) in enumerate(r.fields):
            vals[gn] = pattern(gsz, self.salt + 2 * k + 1)
            drive.append(("set", ("field", name, gn), vals[gn]))
        script = drive + [("idle", 2)] + rops
        ext = f"{name}_{fn}_extract"

        def check(res):
            fails = []
            if not acc_ok(res, fails, f"{name}.{fn} field read"):
                return fails
            word = compose([x[1] for x in res["reads"]])
            got = (word >> off) & ((1 << sz) - 1)
            if got != vals[fn]:
                fails.append(("field", f"{name}: field {fn} driven to {vals[fn]:#x} reads {got:#x} at the published position [{off}+:{sz}] ({fmt})",
                              dict(reg=name, field=fn, fmt=fmt, word=hex(word))))
            elif fmt == "header" and hdr.has(ext):
                g2 = hdr.call(ext, P.RecordIO(), word)
                if g2 != vals[fn]:
                    fails.append(("field", f"{name}: generated {ext}({word:#x}) returns {g2:#x}, field {fn} is {vals[fn]:#x}", dict(reg=name, field=fn)))
            return fails
        self.add(f"fr:{fmt}:{name}.{fn}", name + "." + fn, script, check, requires=[name])

    # -- CSR-mapped memories --------------------------------------------------------------------------------------
    def csrmem_tests(self, static_out):
        b, v = self.b, self.v
        bw = v.busword
        for mname, (mem, ro) in sorted(b.csrmems.items()):
            bases = {}
            for fmt, val in (("json", v.js["csr_bases"].get(mname)), ("csv", v.csv["csr_bases"].get(mname)),
                             ("header", v.hdr.env.get(f"CSR_{mname.upper()}_BASE")),
                             ("svd", (v.svd["peripherals"].get(mname.upper()) or {}).get("base"))):
                if not isinstance(val, int):
                    static_out.append(dict(rule="fmt.csrmem", msg=f"CSR memory {mname} has no base in {fmt}", detail={}))
                else:
                    bases[fmt] = val
            cpw = (mem.width + bw - 1) // bw
            for base in sorted(set(bases.values())):
                fmts = "/".join(sorted(k for k, x in bases.items() if x == base))
                for e in sorted({0, 1, mem.depth - 1}):
                    addrs = [base + 4 * (e * cpw + k) for k in range(cpw)]
                    val = pattern(mem.width, self.salt + e)
                    rscript = [("get", ("csrmem", mname, e)), ("snap",)] + [("r", a) for a in addrs] + [("snap",)]
                    wscript = [] if ro else [("snap",)] + [("w", a, (val >> (bw * (cpw - 1 - k))) & ((1 << bw) - 1)) for k, a in enumerate(addrs)] + [("idle", 2), ("snap",)]
                    pi = self.pidx[("csrmem", mname, e)]
                    paths = self.paths

                    def check(res, e=e, addrs=addrs, val=val, ro=ro, mname=mname, pi=pi, nr=len(addrs)):
                        fails = []
                        if not acc_ok(res, fails, f"CSR memory {mname}[{e}]"):
                            return fails
                        cur = res["gets"][0]
                        x = 0
                        for w in res["reads"][:nr]:
                            x = (x << bw) | (w[1] & ((1 << bw) - 1))
                        det = dict(mem=mname, elem=e, addrs=[hex(a) for a in addrs], formats=fmts)
                        if x != cur or res["snaps"][0] != res["snaps"][1]:
                            fails.append(("csrmem", f"CSR memory {mname}: element {e} holds {cur:#x}, reading the published window at {addrs[0]:#x} returns {x:#x}", det))
                            return fails
                        if not ro:
                            d = diff_snap(paths, res["snaps"][2], res["snaps"][3])
                            want = {paths[pi]: (res["snaps"][2][pi], val)} if res["snaps"][2][pi] != val else {}
                            if d != want:
                                fails.append(("csrmem", f"CSR memory {mname}: writing {val:#x} to element {e} at {addrs[0]:#x} changes {({str(k): tuple(map(hex, x)) for k, x in d.items()})}", det))
                        return fails
                    self.add(f"cm:{mname}[{e}]@{base:#x}", mname, rscript + wscript, check,
                             variant=sorted(k for k, x in bases.items() if x == base)[0], disputed=base != bases.get("json", base))

    # -- interrupted multi-word writes ---------------------------------------------------------------------------------
    def interleave_tests(self):
        """For every multi-word storage register and every element {0, last} of a writable CSR memory wider than the CSR
        bus: write all chunks but the last, then write another published writable item of ANOTHER bank (every such item
        of the SoC in turn), then the last chunk.  Contract of the accessors: non-atomic register - every word lands;
        atomic register / memory word - nothing is visible before the last chunk, which commits the staged chunks
        intact; the interloper holds its own value; nothing else changes."""
        b, v = self.b, self.v
        bw = v.busword
        paths, pidx = self.paths, self.pidx

        def reg_var(name):
            nw = len(v.wordmaps[name]["json"])
            return "native" if (b.ordering == "little" and nw > 1) else "header"

        def mem_ops(mname, e, val):
            mem, ro = b.csrmems[mname]
            cpw = (mem.width + bw - 1) // bw
            base = v.js["csr_bases"][mname]
            return [("w", base + 4 * (e * cpw + k), (val >> (bw * (cpw - 1 - k))) & ((1 << bw) - 1)) for k in range(cpw)]

        # writable published items: (label, bank, path in the snapshot, size, ops(value), requires, staged)
        items = []
        for name in sorted(v.js["csr_registers"]):
            r = b.regs.get(name)
            if r is None or r.wpath is None or "header" not in v.wordmaps.get(name, {}) or "json" not in v.wordmaps[name]:
                continue
            items.append(dict(label=name, bank=r.module, path=r.wpath, size=r.size, req=[name],
                              ops=lambda val, name=name: self.write_ops(name, val, reg_var(name))[0],
                              nw=len(v.wordmaps[name]["json"]), staged=r.atomic, target=r.kind == "storage"))
        for mname, (mem, ro) in sorted(b.csrmems.items()):
            if ro or mname not in v.js["csr_bases"]:
                continue
            cpw = (mem.width + bw - 1) // bw
            for e in sorted({0, mem.depth - 1}):
                items.append(dict(label=f"{mname}[{e}]", bank=mname, path=("csrmem", mname, e), size=mem.width, req=[mname],
                                  ops=lambda val, mname=mname, e=e: mem_ops(mname, e, val), nw=cpw, staged=True, target=True,
                                  interloper=e == 0))
        k = 0
        b.il_targets = sum(1 for t in items if t["nw"] >= 2 and t["target"])
        for t in items:
            if t["nw"] < 2 or not t["target"]:
                continue
            for i in items:
                if i["bank"] == t["bank"] or not i.get("interloper", True):
                    continue
                k += 1
                P = pattern(t["size"], self.salt + k + 4)
                Q = pattern(i["size"], self.salt + k + 9)
                tops, iops = t["ops"](P), i["ops"](Q)
                script = [("snap",)] + tops[:-1] + [("idle", 1), ("snap",)] + iops + [("idle", 2), ("snap",)] + tops[-1:] + [("idle", 2), ("snap",)]
                ti, ii = pidx[t["path"]], pidx[i["path"]]

                def check(res, t=t, i=i, P=P, Q=Q, ti=ti, ii=ii):
                    fails = []
                    what = f"{t['label']} interrupted by a write to {i['label']}"
                    if not acc_ok(res, fails, what):
                        return fails
                    s0, s1, s2, s3 = res["snaps"]
                    det = dict(target=t["label"], interloper=i["label"], target_value=hex(P), interloper_value=hex(Q))
                    d1 = diff_snap(paths, s0, s1)
                    bad1 = {k_: x for k_, x in d1.items() if k_ != t["path"] or t["staged"]}
                    if bad1:
                        fails.append(("interleave", f"{what}: the first {t['nw'] - 1} chunk(s) of {t['label']} change {({str(k_): tuple(map(hex, x)) for k_, x in list(bad1.items())[:3]})}"
                                      + (" before the committing chunk" if t["staged"] else ""), det))
                        return fails
                    want2 = list(s1)
                    want2[ii] = Q
                    if tuple(want2) != s2:
                        d = diff_snap(paths, tuple(want2), s2)
                        fails.append(("interleave", f"{what}: after the interloper write {({str(k_): tuple(map(hex, x)) for k_, x in list(d.items())[:3]})} (expected, got)", det))
                        return fails
                    want3 = list(s0)
                    want3[ti], want3[ii] = P, Q
                    if tuple(want3) != s3:
                        d = diff_snap(paths, tuple(want3), s3)
                        fails.append(("interleave", f"{what}: after the last chunk {({str(k_): tuple(map(hex, x)) for k_, x in list(d.items())[:3]})} (expected, got); "
                                      f"{t['label']} should hold {P:#x} and {i['label']} {Q:#x}", det))
                    return fails
                self.add(f"il:{t['label']}<{i['label']}", f"{t['label']}<{i['label']}", script, check, requires=t["req"] + i["req"])

    # -- bus memory regions --------------------------------------------------------------------------------------
    def busmem_tests(self):
        b, v = self.b, self.v
        W = b.bdw // 8
        claims = {}
        for fmt, d in (("json", v.js["memories"]), ("csv", v.csv["memories"]), ("mem.h", v.memh), ("svd", v.svd["memories"])):
            for n, m in d.items():
                claims.setdefault(n, {}).setdefault((m["base"], m["size"]), []).append(fmt)
        for name in sorted(claims):
            mem = b.busmems.get(name)
            for (base, size), fmts in sorted(claims[name].items()):
                if name == "csr":
                    self.csr_region_test(base, size, fmts)
                    continue
                if mem is None:
                    continue
                ro = "w" not in b.soc.bus.regions[name].mode
                offs = sorted({0, 4, size - 4})
                paths, pidx = self.paths, self.pidx
                image = b.images.get(name)
                if image is not None:
                    offs = sorted(set(offs) | {4 * j for j in range((len(image[0]) + 3) // 4)})
                script = [("snap",)]
                for k, o in enumerate(offs):
                    script.append(("w", base + o, pattern(32, self.salt + k)))
                script += [("idle", 2), ("snap",)] + [("r", base + o) for o in offs] + [("snap",)]

                def check(res, name=name, base=base, size=size, offs=offs, ro=ro, image=image, fmts=fmts, salt=self.salt):
                    fails = []
                    if not acc_ok(res, fails, f"memory region {name}"):
                        return [("busmem",) + f[1:] if f[0] == "addr" else f for f in fails]
                    s0, s1, s2 = res["snaps"]
                    want = list(s0)
                    exp_read = []
                    for k, o in enumerate(offs):
                        i = pidx.get(("busmem", name, o // W))
                        if i is None:
                            fails.append(("busmem", f"region {name}: published size {size:#x} exceeds the memory behind it (offset {o:#x})", dict(region=name)))
                            return fails
                        sh = 8 * (o % W)
                        if not ro:
                            want[i] = (want[i] & ~(0xFFFFFFFF << sh)) | (pattern(32, salt + k) << sh)
                    for o in offs:
                        exp_read.append((want[pidx[("busmem", name, o // W)]] >> (8 * (o % W))) & 0xFFFFFFFF)
                    det = dict(region=name, base=hex(base), size=hex(size), formats=fmts)
                    if tuple(want) != s1:
                        d = diff_snap(paths, tuple(want), s1)
                        fails.append(("busmem", f"region {name}: writes at base+{[hex(o) for o in offs]} of the published window {base:#x}+{size:#x} "
                                      f"do not land in (only) the expected words: {({str(k): tuple(map(hex, x)) for k, x in list(d.items())[:4]})} (expected, got)", det))
                        return fails
                    got = [x[1] for x in res["reads"][len(offs):]]
                    if got != exp_read or s2 != s1:
                        fails.append(("busmem", f"region {name}: reads at base+{[hex(o) for o in offs]} return {[hex(x) for x in got]}, memory holds {[hex(x) for x in exp_read]}", det))
                        return fails
                    if image is not None:
                        data, endian = image
                        rd = {o: x for o, x in zip(offs, got)}
                        for kbyte, byte in enumerate(data):
                            word = rd[4 * (kbyte // 4)]
                            lane = kbyte % 4 if endian == "little" else 3 - kbyte % 4
                            if (word >> (8 * lane)) & 0xFF != byte:
                                fails.append(("image", f"ROM {name} initialised through get_mem_data(data_width={b.bdw}, endianness={endian}): byte {kbyte} of the file "
                                              f"({byte:#x}) is not where a 32-bit {endian}-endian master reads address {base + kbyte:#x} (word {word:#010x})",
                                              dict(det, byte=kbyte)))
                                break
                    return fails
                self.add(f"bm:{name}@{base:#x}+{size:#x}", "mem:" + name, script, check)

    def csr_region_test(self, base, size, fmts):
        v = self.v
        out = [a for wm in v.wordmaps.values() for x in wm.values() for a in x if not base <= a < base + size]
        out += [a for a in v.js["csr_bases"].values() if not base <= a < base + size]
        def check(res):
            if out:
                return [("busmem", f"published CSR addresses {[hex(a) for a in out[:4]]} lie outside the published csr region {base:#x}+{size:#x}", dict(region="csr"))]
            return []
        self.add(f"bm:csr@{base:#x}", "mem:csr", [], check)

    # -- interrupts -----------------------------------------------------------------------------------------------
    def irq_tests(self):
        b, v = self.b, self.v
        for mname, ev in sorted(b.evs.items()):
            nums = v.irq_pub.get(mname)
            if not nums:
                continue
            en = f"{mname}_ev_enable"
            pend = f"{mname}_ev_pending"
            if en not in v.wordmaps or "header" not in v.wordmaps[en]:
                continue
            r_en = b.regs[en]
            ones = (1 << r_en.size) - 1
            w_on, _ = self.write_ops(en, ones, "header")
            w_off, _ = self.write_ops(en, 0, "header")
            if mname in b.periphs:
                srcs = [s for it in b.periphs[mname].items if it[0] == "ev" for s in it[1]]
                script = w_on + [("idle", 2), ("get", ("irq",))]
                for s in srcs:
                    script += [("set", ("trig", mname, s), 1), ("idle", 2), ("get", ("irq",)), ("set", ("trig", mname, s), 0), ("idle", 2), ("get", ("irq",))]
                script += w_off
                ng = 1 + 2 * len(srcs)
                req = [en]
            elif mname == "timer0":
                wr = lambda reg, val: self.write_ops(f"timer0_{reg}", val, "header")[0]
                script = (wr("en", 0) + wr("load", 6) + wr("reload", 0) + [("idle", 3)] + self.write_ops(pend, ones, "header")[0] + w_on +
                          [("idle", 2), ("get", ("irq",))] + wr("en", 1) + [("idle", 16), ("get", ("irq",))] +
                          wr("en", 0) + wr("load", 0) + w_off + self.write_ops(pend, ones, "header")[0] + [("idle", 2), ("get", ("irq",))])
                ng = 3
                req = [en, pend, "timer0_en", "timer0_load", "timer0_reload"]
            else:
                continue
            for n in nums:
                def check(res, n=n, mname=mname, ng=ng):
                    fails = []
                    if not acc_ok(res, fails, f"interrupt {mname}"):
                        return fails
                    g = res["gets"]
                    if len(g) != ng:
                        raise MachineryError("irq script")
                    want = [0] + [1 << n, 0] * ((ng - 1) // 2) if mname != "timer0" else [0, 1 << n, 0]
                    if g != want:
                        fails.append(("irq", f"{mname}: published interrupt number {n}; raising its event drives the interrupt vector through {[hex(x) for x in g]}, expected {[hex(x) for x in want]}",
                                      dict(module=mname, number=n)))
                    return fails
                self.add(f"irq:{mname}={n}", "irq:" + mname, script, check, requires=req)


def gen_tests(b, v, static_out):
    g = Gen(b, v)
    g.reg_tests()
    g.field_tests(static_out)
    g.csrmem_tests(static_out)
    g.interleave_tests()
    g.busmem_tests()
    g.irq_tests()
    return g.tests


# ------------------------------------------------------------------------------------------------------------------
# run one SoC configuration
# ------------------------------------------------------------------------------------------------------------------
def rule_of(kind, cfg, reg, variant=None):
    _, _, std, bdw, ic, cdw, paging, ordering, aw, base, menu = cfg
    if variant == "native" and kind in ("addr", "order"):
        return "csr.native.little"          # even LSW-first access at the published addresses misses the register
    if kind == "addr":
        return "csr.addr.dw8" if cdw == 8 else "csr.addr"
    if kind == "order":
        # generated accessors / SVD sub-register names are MSW-first whatever csr_ordering says
        return "csr.order.little" if ordering == "little" else "csr.order"
    return {"field": "csr.field", "csrmem": "csr.mem", "interleave": "csr.interleave", "busmem": "mem.region", "irq": "irq.number", "image": "memdata.rom",
            "hang": "bus.hang"}[kind]


def build_cfg(cfg):
    with Watchdog(120, "SoC elaboration"):
        with quiet():
            b = S.build(*cfg[2:])
    return b


def prepare(cfg):
    b = build_cfg(cfg)
    # which status registers the test bench can drive
    b.drive = {}
    for mname, p in b.periphs.items():
        for it in p.items:
            if it[0] == "ro":
                b.drive[f"{mname}_{it[1]}"] = "status"
            elif it[0] == "rof":
                b.drive[f"{mname}_{it[1]}"] = "fields"
    b.images = dict(b.image)
    v = make_views(b)
    static = static_checks(b, v)
    tests = gen_tests(b, v, static)
    return b, v, static, tests


def run_soc(cfg, seed):
    name = cfg[0]
    try:
        b, v, static, tests = prepare(cfg)
    except S.Rejected:
        # a configuration soc.py has to refuse (bank pinned past the CSR location range) and did refuse
        return dict(cfg=name, cfg_args=list(cfg[1:]), exhaustive=True, evaluations=1, distinct=1, violations=[], sample=None,
                    cover=dict(rejected_as_required=1))
    except ExportFailure as e:
        return dict(cfg=name, cfg_args=list(cfg[1:]), exhaustive=False, evaluations=0, distinct=0,
                    violations=[dict(rule="export.fail", msg=str(e)[:600], detail=dict(static=True), trace=None)], sample=None)
    if seed:
        k = seed % max(1, len(tests))
        tests = tests[k:] + tests[:k]
    # register tests first (others depend on them), order inside the classes permuted by the seed
    tests.sort(key=lambda t: 0 if t.tid[0] in "ws" and t.tid[1] in "01:" else 1)
    fb = S.FastBench(b)
    failed_regs = set()
    order_failed = set()
    cand = []            # (kind, msg, detail, test)
    executed = []
    sample_box = [None]
    evaluations = 0
    targets = set()
    masked = 0
    cover = dict(tests=0, regs=0, multiword=0, atomic=0, fields=0, csrmems=0, busmems=0, irqs=0, status_driven=0, interleaved=0)
    dead = False
    for t in tests:
        # interrupted-write tests of a little-ordered SoC compose LSW-first themselves: the known MSW-first accessor
        # failure of a register (order_failed) does not make them meaningless, any other failure does
        if any(rq in failed_regs or (rq in order_failed and not t.tid.startswith("il:")) for rq in t.requires):
            masked += 1
            continue
        res = fb.run(t.script)
        fails = t.check(res)
        if sample_box[0] is None and t.tid.startswith("w0:") and t.nacc >= 4 and not fails:
            # one explored case written out: the accesses of a multi-word register test and what the SoC answered
            sample_box[0] = dict(test=t.tid, script=[[hexs(x) if not isinstance(x, tuple) else ".".join(map(str, x)) for x in st] for st in t.script],
                                 bus_results=[[r[0], hexs(r[1])] for r in res["reads"]], final=[hexs(x) for x in res["gets"]])
        executed.append(t.tid)
        evaluations += t.nacc
        if t.nacc:
            targets.add(t.target)
        cover["tests"] += 1
        if fails:
            if all(f[0] == "order" for f in fails) and t.variant != "native":
                order_failed.add(t.target)
            else:
                failed_regs.add(t.target)
            for kind, msg, detail in fails:
                cand.append((kind, msg, detail, t))
        if fb.dead:
            dead = True
            break
    seen = set()
    for t in tests:
        c = t.tid.split(":")[0]
        if (c, t.target) in seen:
            continue
        seen.add((c, t.target))
        if c in ("w0", "s") and ("w0", t.target) not in seen - {(c, t.target)} and ("s", t.target) not in seen - {(c, t.target)}:
            cover["regs"] += 1
            cover["multiword"] += int(len(v.wordmaps[t.target]["json"]) > 1)
            cover["atomic"] += int(b.regs[t.target].atomic)
        cover["status_driven"] += int(c == "s" and t.target in b.drive)
        cover["fields"] += int(c in ("fw", "fr"))
        cover["csrmems"] += int(c == "cm")
        cover["busmems"] += int(c == "bm")
        cover["irqs"] += int(c == "irq")
        cover["interleaved"] += int(c == "il")
    # anti-vacuity: every menu must really have produced the item classes it was written for
    M = b.menu
    want = dict(regs=len(b.regs), csrmems=len(b.csrmems), busmems=len(b.soc.bus.regions),
                irqs=sum(1 for n, _, _, _, irq in M["periphs"] if irq is not None) + int(M["timer_irq"]),
                atomic=sum(1 for _, items, *_ in M["periphs"] for it in items if it[0] == "sta" and it[2] > b.cdw),
                status_driven=sum(1 for _, items, *_ in M["periphs"] for it in items if it[0] in ("ro", "rof")))
    for k, n in want.items():
        if cover[k] < n or (k == "regs" and n < 4):
            raise MachineryError(f"{name}: vacuous run, {k}: {cover[k]} tested, {n} expected ({cover})")
    if b.il_targets and cover["interleaved"] < b.il_targets:
        raise MachineryError(f"{name}: vacuous run, no interrupted multi-word write generated")
    if sum(1 for _, items, *_ in M["periphs"] for it in items if it[0] in ("stf", "rof")) and not cover["fields"]:
        raise MachineryError(f"{name}: vacuous run, no field test generated")
    # classification -> rules; one violation per rule and configuration (the first), the rest is counted
    byrule = {}
    any_addr = any(k == "addr" and not t.disputed for k, _, _, t in cand)
    for kind, msg, detail, t in cand:
        reg = b.regs.get(t.target.split(".")[0])
        if t.disputed and kind in ("addr", "csrmem"):
            # the formats publish different addresses for this item and this one is wrong: name the format
            rule = ("csr.mem." if kind == "csrmem" else "csr.addr.") + str(t.variant)
        else:
            if cfg[5] == 8 and any_addr and kind in ("order", "field", "csrmem", "irq", "interleave"):
                kind = "addr"      # with 8-bit CSRs nothing answers at the published address: one class, not four
            rule = rule_of(kind, cfg, reg, t.variant)
        byrule.setdefault(rule, []).append((msg, detail, t))
    violations = []
    for rule, lst in sorted(byrule.items()):
        # the cheapest failing test of the class whose outcome does not depend on earlier tests (it drives / writes what
        # it compares) is re-run from reset on LiteX's own simulator; at least one member of the class must reproduce
        selfc = lambda t: t.tid[0] == "w" or t.tid.startswith(("fw", "fr", "cm", "bm", "irq", "il")) or t.target in b.drive
        lst.sort(key=lambda x: (not selfc(x[2]), x[2].nacc, x[2].tid))
        rp = None
        for msg, detail, t in lst[:4]:
            rp = confirm(cfg, t, rule)
            if rp is not None:
                break
        if rp is None:
            # the failure depends on what earlier tests left behind (a status register the design drives): replay the
            # whole history up to and including the failing test on the stock simulator
            msg, detail, t = lst[0]
            rp = confirm(cfg, t, rule, history=executed[:executed.index(t.tid) + 1])
        if rp is None:
            raise MachineryError(f"{name}: {rule} ({[x[2].tid for x in lst[:4]]}) found with the fast stepper does not reproduce "
                                 "from reset on litex.gen.sim")
        violations.append(dict(rule=rule, msg=msg + (f" [+{len(lst) - 1} more of this class in this SoC]" if len(lst) > 1 else ""),
                               detail=dict(detail, test=t.tid, others=[x[2].tid for x in lst[1:8]]),
                               trace=[list(map(str, s)) for s in t.script][:40], replayed=rp))
    for s in static:
        if not any(x["rule"] == s["rule"] for x in violations):
            n = sum(1 for x in static if x["rule"] == s["rule"])
            violations.append(dict(rule=s["rule"], msg=s["msg"] + (f" [+{n - 1} more]" if n > 1 else ""), detail=dict(s["detail"], static=True), trace=None))
    sample = sample_box[0]
    return dict(cfg=name, cfg_args=list(cfg[1:]), exhaustive=not dead, violations=violations, evaluations=evaluations,
                distinct=len(targets), conformed=fb.conformed, cycles=fb.ncyc, masked_tests=masked, cover=cover, sample=sample)


def confirm(cfg, t, rule, history=None):
    """Re-runs one failing test from reset on LiteX's stock simulator (optionally preceded by the scripts of the tests
    that ran before it); the failure must show again."""
    b2, v2, _, tests2 = prepare(cfg)
    byid = {x.tid: x for x in tests2}
    if t.tid not in byid or any(h not in byid for h in history or []):
        raise MachineryError(f"{cfg[0]}: test {t.tid} is not regenerated deterministically")
    t2 = byid[t.tid]
    script = []
    for h in (history or [t.tid])[:-1]:
        script += byid[h].script
    skip = {k: sum(1 for st in script if st[0] in kinds) for k, kinds in (("reads", ("r", "w")), ("snaps", ("snap",)), ("gets", ("get",)))}
    with Watchdog(1800, "stock simulation"):
        res = S.stock_run(b2, script + t2.script)
    res = {k: x[skip[k]:] for k, x in res.items()}
    fails = t2.check(res)
    if not fails:
        return None
    return dict(reproduced=True, simulator="litex.gen.sim.run_simulation", kinds=sorted({f[0] for f in fails}), msg=fails[0][1],
                history=list(history) if history else None)


# ------------------------------------------------------------------------------------------------------------------
# memory images
# ------------------------------------------------------------------------------------------------------------------
def cpu_read_byte(words, W, endian, a):
    if a // W >= len(words):
        return None
    lane = a % W if endian == "little" else W - 1 - a % W
    return (words[a // W] >> (8 * lane)) & 0xFF


def image_cases(dw):
    W = dw // 8
    for n in range(0, 18):
        for content in (0, 1):
            for offset in (0, W, 0x40):
                yield ("file", n, content, offset, None)
            yield ("file+size", n, content, 0, n + W + 1)
    for n1 in (1, 3, W, W + 1, 9, 17):
        for n2 in (1, W - 1, 8, 17):
            for offset in (0, 4 * W):
                for gap in (0, W, 3 * W):
                    yield ("dict", (n1, n2), 0, offset, gap)
                    yield ("json", (n1, n2), 0, offset, gap)


def content_bytes(n, content, salt=0):
    """position-unique, never zero (zero is what padding looks like)"""
    if content == 0:
        return bytes((0x31 + 0x17 * i + 0x55 * salt) % 251 + 1 for i in range(n))
    return bytes((0xFE - 0x0B * i) & 0xFF for i in range(n))


def run_image_case(dw, endian, case, tmp):
    """Returns (nbytes compared, failure or None, refused)."""
    from litex.soc.integration.common import get_mem_data
    W = dw // 8
    form, n, content, offset, extra = case
    files = []           # (path, base address, bytes)
    if form in ("file", "file+size"):
        data = content_bytes(n, content)
        fn = os.path.join(tmp, "a.bin")
        open(fn, "wb").write(data)
        files = [(fn, offset, data)]
        kw = dict(offset=offset)
        if form == "file+size":
            kw["mem_size"] = extra
        arg = fn
    else:
        n1, n2 = n
        d1, d2 = content_bytes(n1, 0), content_bytes(n2, 0, salt=1)
        f1, f2 = os.path.join(tmp, "a.bin"), os.path.join(tmp, "b.bin")
        open(f1, "wb").write(d1)
        open(f2, "wb").write(d2)
        b1 = offset
        b2 = offset + ((n1 + W - 1) // W) * W + extra
        files = [(f1, b1, d1), (f2, b2, d2)]
        kw = dict(offset=offset)
        if form == "dict":
            arg = {f1: f"{b1:08x}", f2: f"{b2:08x}"}
        else:
            arg = os.path.join(tmp, "regions.json")
            json.dump({"a.bin": f"0x{b1:08x}", "b.bin": f"0x{b2:08x}"}, open(arg, "w"))
    try:
        with Watchdog(10, "get_mem_data"):
            words = get_mem_data(arg, data_width=dw, endianness=endian, **kw)
    except AssertionError as e:
        total = sum(len(d) for _, _, d in files)
        if total == 0:
            return 0, None, True        # an empty image may be refused
        return 0, dict(kind="refused", msg=f"get_mem_data refuses a {total}-byte image: AssertionError {e}"), True
    except TimeoutError:
        raise
    except Exception as e:
        return 0, dict(kind="crash", msg=f"get_mem_data(data_width={dw}, endianness={endian}, offset={offset:#x}) form={form} lengths={n} raises {type(e).__name__}: {e}"), True
    ncmp = 0
    for fn, base, data in files:
        for k, byte in enumerate(data):
            a = base - offset + k
            got = cpu_read_byte(words, W, endian, a)
            ncmp += 1
            if got != byte:
                return ncmp, dict(kind="byte", msg=f"get_mem_data(data_width={dw}, endianness={endian}, offset={offset:#x}) form={form} lengths={n}: byte {k} of "
                                  f"{os.path.basename(fn)} ({byte:#04x}) belongs at address {base + k:#x}; a {dw}-bit {endian}-endian CPU reads "
                                  f"{'nothing (image too short)' if got is None else hex(got)} there; words={[hex(w) for w in words[:6]]}"
                                  + (" (the layout is right for a 32-bit big-endian master behind LiteX's lane-based width converters - see the "
                                     "ROM end-to-end test - and wrong for a CPU whose own data bus is that wide)" if endian == "big" and dw > 32 else "")), False
    for w in words:
        if not 0 <= w < (1 << dw):
            return ncmp, dict(kind="range", msg=f"get_mem_data returns word {w:#x} wider than data_width={dw}"), False
    return ncmp, None, False


def run_img(cfg, seed):
    name, _, dw, endian = cfg
    cases = list(image_cases(dw))
    if seed:
        k = seed % len(cases)
        cases = cases[k:] + cases[:k]
    evaluations = 0
    refused = 0
    fails = []
    sample = None
    with tempfile.TemporaryDirectory(prefix="c14img") as tmp:
        from litex.soc.integration.common import get_mem_data
        fn = os.path.join(tmp, "s.bin")
        open(fn, "wb").write(content_bytes(11, 0))
        words = get_mem_data(fn, data_width=dw, endianness=endian, offset=dw // 8)
        sample = dict(case=["file", 11, 0, dw // 8, None], file_bytes=[hex(x) for x in content_bytes(11, 0)], words=[hex(w) for w in words],
                      cpu_reads=[hexs(cpu_read_byte(words, dw // 8, endian, a)) for a in range(11)])
        for case in cases:
            n, f, ref = run_image_case(dw, endian, case, tmp)
            evaluations += n
            refused += int(ref)
            if f:
                fails.append((case, f))
    violations = []
    if fails:
        fails.sort(key=lambda x: (x[0][0] != "file", x[0][3], x[0][2], abs(x[0][1] - 8) if isinstance(x[0][1], int) else 99, str(x[0])))
        case, f = fails[0]
        rule = "memdata." + ("big" if endian == "big" else "little") + str(dw) if f["kind"] == "byte" else "memdata." + f["kind"]
        violations.append(dict(rule=rule, msg=f["msg"] + f" [{len(fails)} of {len(cases)} cases fail]",
                               detail=dict(case=list(case), dw=dw, endian=endian, failing_cases=len(fails)), trace=None))
    return dict(cfg=name, cfg_args=list(cfg[1:]), exhaustive=True, violations=violations, evaluations=evaluations,
                distinct=len(cases) - refused, cover=dict(cases=len(cases), refused=refused, failing=len(fails)),
                sample=sample)


# ------------------------------------------------------------------------------------------------------------------
# module API
# ------------------------------------------------------------------------------------------------------------------
def extra_coverage(results):
    """Measured totals for the evidence file."""
    socs = [r for r in results if str(r.get("cfg", "")).startswith("soc:")]
    imgs = [r for r in results if str(r.get("cfg", "")).startswith("img:")]
    items = {}
    for r in socs:
        for k, n in (r.get("cover") or {}).items():
            items[k] = items.get(k, 0) + n
    dims = {}
    for r in socs:
        a = r.get("cfg_args") or []
        if len(a) == 10:
            for k, x in zip(("std", "bdw", "ic", "cdw", "paging", "ordering", "aw", "base", "menu"), a[1:]):
                dims.setdefault(k, set()).add(x)
    prod = 1
    for x in dims.values():
        prod *= len(x)
    return dict(soc_configurations=len(socs), image_configurations=len(imgs),
                product_dimensions={k: sorted(x, key=str) for k, x in dims.items()},
                full_product=bool(socs) and prod == len(socs),
                simulated_cycles=sum(int(r.get("cycles", 0) or 0) for r in socs),
                traces_validated_against_impl=sum(int(r.get("conformed", 0) or 0) for r in socs),
                items_checked=items,
                image_cases=sum((r.get("cover") or {}).get("cases", 0) for r in imgs),
                masked_tests=sum(int(r.get("masked_tests", 0) or 0) for r in socs),
                violations_confirmed_on_stock_simulator=sum(1 for r in socs for v in r.get("violations", []) if (v.get("replayed") or {}).get("reproduced")))


def run_config(cfg, seed, tier):
    cfg = tuple(cfg)
    if cfg[1] == "img":
        return run_img(cfg, seed)
    return run_soc(cfg, seed)


def _cfg_from_name(name):
    for c in enumerate_configs(FULL) + edge_configs(True):
        if c[0] == name:
            return c
    raise KeyError(name)


def replay(rec):
    """Re-runs ONE recorded violation against the real code: static format comparisons are re-evaluated, dynamic ones are
    re-simulated from reset on litex.gen.sim.run_simulation; image cases call get_mem_data again."""
    cfg = _cfg_from_name(rec["cfg"])
    rule = rec["rule"]
    detail = rec.get("detail") or {}
    if cfg[1] == "img":
        with tempfile.TemporaryDirectory(prefix="c14img") as tmp:
            case = detail["case"]
            case = (case[0], tuple(case[1]) if isinstance(case[1], list) else case[1], case[2], case[3], case[4])
            n, f, ref = run_image_case(cfg[2], cfg[3], case, tmp)
        return dict(cfg=rec["cfg"], rule=rule, reproduced=bool(f), msg=f["msg"] if f else None)
    try:
        b, v, static, tests = prepare(cfg)
    except ExportFailure as e:
        return dict(cfg=rec["cfg"], rule=rule, reproduced=rule == "export.fail", msg=str(e)[:600])
    if detail.get("static"):
        hit = [s for s in static if s["rule"] == rule]
        return dict(cfg=rec["cfg"], rule=rule, reproduced=bool(hit), msg=hit[0]["msg"] if hit else None)
    t = [x for x in tests if x.tid == detail.get("test")]
    if not t:
        return dict(cfg=rec["cfg"], rule=rule, reproduced=False, msg="test not found")
    hist = (rec.get("replayed") or {}).get("history")
    rp = confirm(cfg, t[0], rule, history=hist)
    return dict(cfg=rec["cfg"], rule=rule, reproduced=rp is not None, simulator="litex.gen.sim.run_simulation",
                msg=rp["msg"] if rp else None, kinds=rp["kinds"] if rp else [])
