"""C20 reference side: exact rational arithmetic, divider lattices and the independent interval-intersection search.

Nothing in this file imports LiteX.  A PLL is described by a `Model`:

    src = fin * M / D            D in Dset (input divider), M in Mset (feedback multiplier), both divider lattices
    pfd = fin / D                inside pfd_rng if the helper declares one
    src                          inside src_rng (the VCO window, already shrunk by the class's vco_margin), and
                                 src_pred(src) if the family has a further condition on it
    out_n = src / d_n            d_n in outs[n].divs (a lattice or a union of lattices), |out_n - f_n| <= f_n * m_n
    post(witness)                optional family specific coupling between the picks (ECP5 feedback output)

`search` decides satisfiability WITHOUT scanning output dividers: for each (D, M) with PFD/VCO in range, the admissible
divider interval [src/(f(1+m)), src/(f(1-m))] of every output is intersected with its lattice in O(1).

Comparisons (DESIGN 4b): every quantity is an exact Fraction (Fraction(float) is exact).  Two tolerance modes:
  WIDE   (soundness of a returned configuration): a <= b  is accepted when  a <= b(1+eps)
  NARROW (completeness, a refusal is only blamed when a solution exists well inside): a <= b needs a <= b(1-eps),
         or a <= b exactly *and* every intermediate value of the helper's float computation is exactly representable
         as a double (then IEEE arithmetic is exact whatever the evaluation order and the helper's own comparison is
         exact too).  The second clause is what lets an exact request (margin 0) or a VCO sitting exactly on a declared
         bound count as a solution without depending on rounding.
"""
from fractions import Fraction as Fr
from bisect import bisect_left, bisect_right
from math import floor, ceil

EPS = Fr(1, 10**9)


def fr(x):
    """exact rational value of an int / float / Fraction"""
    return x if isinstance(x, Fr) else Fr(x)


def representable(x):
    """x (a Fraction) is exactly a finite IEEE double"""
    try:
        return Fr(float(x)) == x
    except (OverflowError, ValueError):
        return False


class Lazy:
    """memoised boolean thunk"""
    __slots__ = ("f", "v")

    def __init__(self, f):
        self.f, self.v = f, None

    def __call__(self):
        if self.v is None:
            self.v = bool(self.f())
        return self.v


TRUE = Lazy(lambda: True)
FALSE = Lazy(lambda: False)


class Tol:
    def __init__(self, narrow):
        self.narrow = narrow

    def le(self, a, b, exact=FALSE):
        """a <= b for positive quantities under the mode's guard band"""
        if self.narrow:
            if a <= b * (1 - EPS):
                return True
            return a <= b and exact()
        return a <= b * (1 + EPS)

    def inside(self, x, rng, exact=FALSE):
        return self.le(rng[0], x, exact) and self.le(x, rng[1], exact)

    def within(self, out, f, m, exact=FALSE):
        """|out - f| <= f*m   (f*m is a rounded float product in the helper: only m == 0 can be exact)"""
        diff = abs(out - f)
        if self.narrow:
            if diff <= f * m - f * EPS:
                return True
            return diff == 0 and exact()
        return diff <= f * m + f * EPS

    def div_interval(self, src, f, m):
        """admissible dividers d (out = src/d within margin m of f): (lo, hi, point) ; point=True means only the single
        value lo == hi qualifies and only under the exactness clause"""
        if self.narrow:
            if m > EPS:
                return src / (f * (1 + m - EPS)), src / (f * (1 - m + EPS)) if 1 - m + EPS > 0 else None, False
            return src / f, src / f, True
        hi = src / (f * (1 - m - EPS)) if 1 - m - EPS > 0 else None
        return src / (f * (1 + m + EPS)), hi, False


WIDE = Tol(False)
NARROW = Tol(True)


# ---------------------------------------------------------------------------------------------------------------------
# divider lattices
class Arith:
    """{start + k*step : 0 <= k < count}"""

    def __init__(self, start, step, count):
        self.start, self.step, self.count = fr(start), fr(step), max(0, int(count))

    @classmethod
    def from_range(cls, rng):
        """python range(a, b) / litex clkdiv_range(a, b[, step]) : half-open, start + k*step < stop"""
        start, stop = fr(rng[0]), fr(rng[1])
        step = fr(rng[2]) if len(rng) > 2 else Fr(1)
        return cls(start, step, ceil((stop - start) / step))

    def contains(self, x):
        k = (fr(x) - self.start) / self.step
        return k.denominator == 1 and 0 <= k < self.count

    def first_in(self, lo, hi):
        k = max(0, ceil((lo - self.start) / self.step))
        if k >= self.count:
            return None
        v = self.start + k * self.step
        return v if (hi is None or v <= hi) else None

    def iter_in(self, lo, hi):
        k = max(0, ceil((lo - self.start) / self.step))
        k1 = self.count - 1 if hi is None else min(self.count - 1, floor((hi - self.start) / self.step))
        for i in range(k, k1 + 1):
            yield self.start + i * self.step

    def __iter__(self):
        return (self.start + i * self.step for i in range(self.count))

    def lo(self):
        return self.start

    def hi(self):
        return self.start + (self.count - 1) * self.step

    def describe(self):
        return "[%s..%s step %s]" % (_s(self.lo()), _s(self.hi()), _s(self.step))


class Explicit:
    def __init__(self, values):
        self.v = sorted(set(fr(x) for x in values))

    def contains(self, x):
        x = fr(x)
        i = bisect_left(self.v, x)
        return i < len(self.v) and self.v[i] == x

    def first_in(self, lo, hi):
        i = bisect_left(self.v, lo)
        if i < len(self.v) and (hi is None or self.v[i] <= hi):
            return self.v[i]
        return None

    def iter_in(self, lo, hi):
        i = bisect_left(self.v, lo)
        j = len(self.v) if hi is None else bisect_right(self.v, hi)
        return iter(self.v[i:j])

    def __iter__(self):
        return iter(self.v)

    def lo(self):
        return self.v[0]

    def hi(self):
        return self.v[-1]

    def describe(self):
        return "{%s}" % ",".join(_s(x) for x in (self.v if len(self.v) <= 12 else self.v[:5] + ["..."] + self.v[-2:]))


class Union:
    def __init__(self, parts):
        self.parts = list(parts)

    def contains(self, x):
        return any(p.contains(x) for p in self.parts)

    def first_in(self, lo, hi):
        best = None
        for p in self.parts:
            v = p.first_in(lo, hi)
            if v is not None and (best is None or v < best):
                best = v
        return best

    def iter_in(self, lo, hi):
        return iter(sorted(set(v for p in self.parts for v in p.iter_in(lo, hi))))

    def __iter__(self):
        return iter(sorted(set(v for p in self.parts for v in p)))

    def lo(self):
        return min(p.lo() for p in self.parts)

    def hi(self):
        return max(p.hi() for p in self.parts)

    def describe(self):
        return " U ".join(p.describe() for p in self.parts)


def _s(x):
    if isinstance(x, str):
        return x
    return str(x.numerator) if x.denominator == 1 else "%g" % float(x)


# ---------------------------------------------------------------------------------------------------------------------
class Out:
    def __init__(self, f, m, divs):
        self.f, self.m, self.divs = fr(f), fr(m), divs


class Model:
    def __init__(self, fin, Dset, Mset, src_rng, outs, pfd_rng=None, src_exact_bounds=True, src_pred=None, post=None,
                 chain=None):
        self.fin = fr(fin)
        self.Dset, self.Mset = Dset, Mset
        self.src_rng = (fr(src_rng[0]), fr(src_rng[1]))
        self.src_exact_bounds = src_exact_bounds      # False when the bounds went through a rounded float product
        self.pfd_rng = None if pfd_rng is None else (fr(pfd_rng[0]), fr(pfd_rng[1]))
        self.outs = outs
        self.src_pred = src_pred
        self.post = post
        # chain(fin, D, M, src) -> list of intermediate values of the helper's float evaluation (for the exactness clause)
        self.chain = chain or (lambda fin, D, M, src: [fin / D, fin * M, src])


def search(model, tol):
    """Independent decision procedure.  Returns a witness dict or None."""
    fin = model.fin
    if fin <= 0:
        return None
    slo, shi = model.src_rng
    for D in model.Dset:
        pfd = fin / D
        if model.pfd_rng is not None:
            ex_pfd = Lazy(lambda: representable(pfd))
            if not tol.inside(pfd, model.pfd_rng, ex_pfd):
                continue
        # multipliers that can bring src = pfd*M into the window at all (slightly widened; decided exactly below)
        for M in model.Mset.iter_in(slo / pfd * (1 - 4 * EPS), shi / pfd * (1 + 4 * EPS)):
            src = pfd * M
            ex = Lazy(lambda: all(representable(x) for x in model.chain(fin, D, M, src)))
            ex_b = ex if model.src_exact_bounds else FALSE
            if not tol.inside(src, model.src_rng, ex_b):
                continue
            if model.src_pred is not None and not model.src_pred(src, ex, tol):
                continue
            picks = []
            for o in model.outs:
                lo, hi, point = tol.div_interval(src, o.f, o.m)
                if point:
                    d = lo if (o.divs.contains(lo) and ex() and representable(src / lo)) else None
                else:
                    d = o.divs.first_in(lo, hi)
                if d is None:
                    break
                picks.append((lo, hi, d))
            else:
                w = dict(D=D, M=M, src=src, pfd=pfd, picks=picks, exact=ex)
                if model.post is None:
                    return w
                w2 = model.post(model, w, tol)
                if w2 is not None:
                    return w2
    return None


def verify(model, D, M, ds, tol=WIDE):
    """Soundness of one concrete setting against the model.  Returns [(rule, message)]."""
    bad = []
    fin = model.fin
    D, M = fr(D), fr(M)
    if not model.Dset.contains(D):
        bad.append(("range.indiv", "input divider %s outside declared %s" % (_s(D), model.Dset.describe())))
    if not model.Mset.contains(M):
        bad.append(("range.mult", "multiplier %s outside declared %s" % (_s(M), model.Mset.describe())))
    if D <= 0:
        return bad
    pfd = fin / D
    src = pfd * M
    if model.pfd_rng is not None and not tol.inside(pfd, model.pfd_rng, TRUE):
        bad.append(("range.pfd", "PFD %.6f MHz outside declared [%g, %g] MHz" % (
            float(pfd) / 1e6, float(model.pfd_rng[0]) / 1e6, float(model.pfd_rng[1]) / 1e6)))
    if not tol.inside(src, model.src_rng, TRUE):
        bad.append(("range.vco", "VCO %.6f MHz outside declared [%g, %g] MHz (vco_margin applied)" % (
            float(src) / 1e6, float(model.src_rng[0]) / 1e6, float(model.src_rng[1]) / 1e6)))
    elif model.src_pred is not None and not model.src_pred(src, TRUE, tol):
        bad.append(("range.vco", "VCO condition of the family not met for source %.6f MHz" % (float(src) / 1e6)))
    for n, (o, d) in enumerate(zip(model.outs, ds)):
        if d is None:
            continue
        d = fr(d)
        if not o.divs.contains(d):
            bad.append(("range.outdiv", "output %d divider %s outside declared %s" % (n, _s(d), o.divs.describe())))
        if d > 0 and not tol.within(src / d, o.f, o.m, TRUE):
            out = src / d
            bad.append(("sound.margin", "output %d: recomputed %.6f MHz vs requested %.6f MHz: error %.3e > margin %.3e" % (
                n, float(out) / 1e6, float(o.f) / 1e6, float(abs(out - o.f) / o.f), float(o.m))))
    return bad
