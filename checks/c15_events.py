"""C15 — interrupt events are never lost and the IRQ line means pending-and-enabled (DESIGN.md §4 C15)."""
import itertools
import fsmc  # noqa
from migen import *
from litex.soc.interconnect import csr_bus
from litex.soc.interconnect.csr_eventmanager import *
from fsmc.explore import Explorer, replay_stock, Harness
from fsmc.design import MachineryError

PROPERTY = "C15"
LEVEL = "model_checking"
RULE = ("BFS to closure of (real EventManager + real CSRBank x reference model) under every trigger vector x every CSR bus "
        "operation (idle, write pending=<any pattern>, write enable=<any pattern>, read of each register, access outside the bank) per cycle; "
        "clients (c15_clients.py): the real Timer / UART + PHY stub / GPIOIn / GPIOTristate behind the same CSR path, every CSR operation on the event and "
        "client registers x every client input (pads, PHY handshakes) per cycle, a reference model of the client predicting every trigger level, "
        "the same generic monitor on the observed triggers")
ASSUMPTIONS = [
    "2-state zero-delay FHDL semantics of litex.gen.sim",
    "write-one-to-clear acts one cycle after the bus write (registered re/r of the pending CSR, 'after or during' in the CSR docs); a trigger in that cycle wins",
    "status of a pulse source is constant 0 (documented)",
    "1..3 sources per manager, CSR bus width 8 and 32, one or two managers (SharedIRQ)",
]

KINDS = {"pulse": lambda: EventSourcePulse(), "rising": lambda: EventSourceProcess(edge="rising"),
         "falling": lambda: EventSourceProcess(edge="falling"), "level": lambda: EventSourceLevel()}


class DUT(Module):
    def __init__(self, groups, dw):
        self.bus = csr_bus.Interface(data_width=dw, address_width=14)
        self.evs, self.banks = [], []
        buses = []
        for g, kinds in enumerate(groups):
            ev = EventManager()
            setattr(self.submodules, f"ev{g}", ev)
            for i, k in enumerate(kinds):
                setattr(ev, f"s{i}", KINDS[k]())
            ev.finalize()
            b = csr_bus.Interface(data_width=dw, address_width=14)
            bank = csr_bus.CSRBank(ev.get_csrs(), address=g, bus=b)
            setattr(self.submodules, f"bank{g}", bank)
            self.evs.append(ev)
            self.banks.append(bank)
            buses.append(b)
        self.submodules.ic = csr_bus.Interconnect(self.bus, buses)
        if len(groups) > 1:
            self.submodules.shared = SharedIRQ(*self.evs)
            self.irq = self.shared.irq
        else:
            self.irq = self.evs[0].irq


class EvHarness(Harness):
    """env = per manager ((pend...), (trig_d...), enable, re_d, r_d) ..., expected dat_r"""
    def __init__(self, name, groups, dw):
        self.name, self.groups, self.dw = name, groups, dw
        self.seen_coincide = 0
        self.seen_irq = set()

    def build(self):
        self.dut = DUT(self.groups, self.dw)
        return self.dut

    def bind(self, D):
        d = self.dut
        self.adr, self.we, self.re = D.i(d.bus.adr), D.i(d.bus.we), D.i(d.bus.re)
        self.dat_w, self.dat_r = D.i(d.bus.dat_w), D.i(d.bus.dat_r)
        self.irq = D.i(d.irq)
        self.man = []
        page = 0x800 // 4
        ops = [("idle",)]
        for g, (ev, bank) in enumerate(zip(d.evs, d.banks)):
            srcs = sorted([getattr(ev, f"s{i}") for i in range(len(self.groups[g]))], key=lambda s: s.duid)
            kinds = [self.groups[g][[getattr(ev, f"s{i}") for i in range(len(self.groups[g]))].index(s)] for s in srcs]
            n = len(srcs)
            names = [c.name for c in bank.simple_csrs]
            a = {}
            for i, c in enumerate(bank.simple_csrs):
                for key in ("status", "pending", "enable"):
                    if key in c.name:
                        a[key] = g*page + i
            if len(a) != 3:
                raise MachineryError(f"could not locate the three registers in {names}")
            self.man.append(dict(n=n, kinds=kinds, trig=[D.i(s.trigger) for s in srcs], a=a, irq=D.i(ev.irq),
                                 pend=D.i(ev.pending.status), stat=D.i(ev.status.status), en=D.i(ev.enable.storage)))
            for pat in range(1 << n):
                ops.append(("w", a["pending"], pat))
                ops.append(("w", a["enable"], pat))
            for key in ("status", "pending", "enable"):
                ops.append(("r", a[key]))
            ops.append(("w", g*page + 3, (1 << n) - 1))        # just past the bank
            ops.append(("w", (g + 2)*page + a["pending"], (1 << n) - 1))   # same offset, another page
        self.ops = ops
        self.trigs = list(itertools.product(*[range(1 << m["n"]) for m in self.man]))

    def env_init(self):
        return (tuple(((0,)*m["n"], (0,)*m["n"], 0, 0, 0) for m in self.man), 0)

    def choices(self, env):
        return [(t, op) for t in self.trigs for op in self.ops]

    def drive(self, v, env, ch):
        trig, op = ch
        for m, t in zip(self.man, trig):
            for i, idx in enumerate(m["trig"]):
                v[idx] = (t >> i) & 1
        v[self.we] = v[self.re] = 0
        v[self.adr] = 0
        v[self.dat_w] = 0
        if op[0] == "w":
            v[self.we], v[self.adr], v[self.dat_w] = 1, op[1], op[2]
        elif op[0] == "r":
            v[self.re], v[self.adr] = 1, op[1]

    def observe(self, v, env, ch):
        trig, op = ch
        mans, datr = env
        if v[self.dat_r] != datr:
            return env, ("bus.dat_r", f"dat_r exp {datr:#x} got {v[self.dat_r]:#x}"), 0
        mans2 = []
        irq_any = 0
        datr2 = 0
        for m, t, (pend, trig_d, enable, re_d, r_d) in zip(self.man, trig, mans):
            n = m["n"]
            vis = stat = 0
            pend2, td2 = [], []
            for i, k in enumerate(m["kinds"]):
                tr = (t >> i) & 1
                clear = re_d and ((r_d >> i) & 1)
                if k == "level":
                    p_vis, st, p2 = tr, tr, 0
                elif k == "pulse":
                    p_vis, st = pend[i], 0
                    p2 = 1 if tr else (0 if clear else pend[i])
                    if tr and clear:
                        self.seen_coincide += 1
                else:
                    p_vis, st = pend[i], tr
                    edge = (tr and not trig_d[i]) if k == "rising" else ((not tr) and trig_d[i])
                    p2 = 1 if edge else (0 if clear else pend[i])
                    if edge and clear:
                        self.seen_coincide += 1
                vis |= p_vis << i
                stat |= st << i
                pend2.append(p2)
                td2.append(tr)
            if v[m["pend"]] != vis:
                lost = vis & ~v[m["pend"]]
                return env, ("event.lost" if lost else "event.spurious", f"pending exp {vis:#b} got {v[m['pend']]:#b}"), 0
            if v[m["stat"]] != stat:
                return env, ("status.raw", f"status exp {stat:#b} got {v[m['stat']]:#b}"), 0
            if v[m["en"]] != enable:
                return env, ("enable.value", f"enable exp {enable:#b} got {v[m['en']]:#b}"), 0
            irq = int(bool(vis & enable))
            if v[m["irq"]] != irq:
                return env, ("irq.mismatch", f"irq exp {irq} (pending {vis:#b} enable {enable:#b}) got {v[m['irq']]}"), 0
            irq_any |= irq
            self.seen_irq.add((vis, enable))
            re2, r2, en2 = 0, r_d, enable
            a = m["a"]
            if op[0] == "w":
                if op[1] == a["pending"]:
                    re2, r2 = 1, op[2] & ((1 << n) - 1)
                elif op[1] == a["enable"]:
                    en2 = op[2] & ((1 << n) - 1)
            if op[0] in ("w", "r"):
                # dat_r follows the addressed word whenever the page matches, regardless of re (DESIGN 4b C12)
                for key, val in (("status", stat), ("pending", vis), ("enable", enable)):
                    if op[1] == a[key]:
                        datr2 |= val
            mans2.append((tuple(pend2), tuple(td2), en2, re2, r2))
        if op[0] == "idle":
            # adr = 0 is driven while idle: word 0 of page 0 is selected
            m0 = self.man[0]
            for key in ("status", "pending", "enable"):
                if m0["a"][key] == 0:
                    pend, trig_d, enable, re_d, r_d = mans[0]
                    # recompute visible values of manager 0
                    t = trig[0]
                    vis = sum(((t >> i) & 1 if k == "level" else pend[i]) << i for i, k in enumerate(m0["kinds"]))
                    stat = sum((0 if k == "pulse" else (t >> i) & 1) << i for i, k in enumerate(m0["kinds"]))
                    datr2 |= dict(status=stat, pending=vis, enable=enable)[key]
        if v[self.irq] != irq_any:
            return env, ("irq.shared", f"shared irq exp {irq_any} got {v[self.irq]}"), 0
        return (tuple(mans2), datr2), None, 0

    def cover_report(self):
        return dict(trigger_with_clear_coincidences=self.seen_coincide, pending_enable_pairs=len(self.seen_irq))

    def vacuity(self):
        has_latched = any(k != "level" for m in self.man for k in m["kinds"])
        if has_latched and not self.seen_coincide:
            return "trigger never coincided with a clear"
        return None


REGISTRY = {}
for dw in (8, 32):
    menu = [("pulse",), ("rising",), ("falling",), ("level",), ("pulse", "level"), ("rising", "falling"), ("pulse", "pulse"),
            ("level", "pulse"), ("level", "falling"),                    # a level source BEFORE a latched one (bit positions vs clear wiring)
            ("falling", "pulse", "level"), ("pulse", "rising", "falling"), ("level", "rising", "pulse")]
    for kinds in menu:
        tier = "quick" if len(kinds) < 3 else "thorough"
        nm = f"EventManager({','.join(kinds)}),csr{dw}"
        REGISTRY[nm] = (tier, (lambda nm=nm, kinds=kinds, dw=dw: EvHarness(nm, [kinds], dw)))
REGISTRY["SharedIRQ(EventManager(pulse),EventManager(level)),csr8"] = (
    "quick", lambda: EvHarness("SharedIRQ(EventManager(pulse),EventManager(level)),csr8", [("pulse",), ("level",)], 8))
REGISTRY["SharedIRQ(EventManager(pulse),EventManager(level,falling)),csr8"] = (
    "thorough", lambda: EvHarness("SharedIRQ(EventManager(pulse),EventManager(level,falling)),csr8", [("pulse",), ("level", "falling")], 8))


from checks import c15_clients  # noqa: E402,F401  (adds the client configurations to REGISTRY and its assumptions to ASSUMPTIONS)


def configs(tier):
    import os
    manual = bool(os.environ.get("VERIF_C15_MANUAL"))
    return [(n,) for n, (t, f) in REGISTRY.items() if t == "quick" or (tier == "thorough" and t == "thorough") or (manual and t == "manual")]


def tuple_deep(x):
    return tuple(tuple_deep(y) for y in x) if isinstance(x, (list, tuple)) else x


def run_config(cfg, seed, tier):
    mk = REGISTRY[cfg[0]][1]
    res = Explorer(mk(), seed=seed).run()
    out = res.as_dict()
    for v in out["violations"]:
        rp = replay_stock(mk, [tuple_deep(c) for c in v["trace"]])
        v["replayed"] = dict(reproduced=rp["reproduced"], path=rp["path"], cycles=rp["cycles"])
        if not rp["reproduced"]:
            raise MachineryError(f"{cfg[0]}: violation {v['rule']} does not reproduce on the stock simulator: {rp}")
    return out


def replay(rec):
    mk = REGISTRY[rec["cfg"]][1]
    rp = replay_stock(mk, [tuple_deep(c) for c in rec["trace"]])
    return dict(cfg=rec["cfg"], rule=rec["rule"], reproduced=rp["reproduced"], err=rp["err"], path=rp["path"], cycles=rp["cycles"])
