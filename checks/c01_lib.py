"""C01 helpers: the two sides of the comparison (LiteX simulator semantics / vlog on the emitted text), the
S / S_w / V / V_unb classification of a disagreement and the golden printer used to name printer defects
(DESIGN.md §4 C01).

A *program* is a deterministic constructor `mk()` returning (module, info) where info has
    ios      : set of io signals for convert()
    clocks   : tuple of clock-domain names
    inputs   : list of free input Signals (driven by the check)
    observe  : list of (label, Signal) to compare (registers, comb targets, ports)
    memories : list of migen Memory objects to compare word by word
It is built once for side A (simulated through litex.gen.sim.core.Simulator.__init__ / Evaluator) and once more for
every conversion (convert() mutates what it is given).
"""
import contextlib
import fsmc  # noqa: F401
from migen import *
from migen.fhdl.structure import _Operator, _Slice, _ArrayProxy, _Assign
from migen.fhdl.bitcontainer import value_bits_sign
from migen.fhdl.specials import Memory, READ_FIRST, WRITE_FIRST, NO_CHANGE
from litex.gen.sim.core import Evaluator, _truncate
from litex.gen.fhdl import expression as lx_expr
from litex.gen.fhdl import memory as lx_mem
from litex.gen.fhdl import verilog as lx_verilog
from fsmc.design import Design, MachineryError
import vlog


# ------------------------------------------------------------------------------------------------------------------
# S_w : the FHDL tree evaluated with every node wrapped to the type Migen itself declares for it
# ------------------------------------------------------------------------------------------------------------------
class WrappedEvaluator(Evaluator):
    left_range = False          # set when some node's value was not representable in its declared type

    def eval(self, node, postcommit=False):
        r = Evaluator.eval(self, node, postcommit)
        if isinstance(node, (_Operator, _ArrayProxy)):
            nb, sg = value_bits_sign(node)
            t = _truncate(int(r), nb, sg)
            if t != r:
                self.left_range = True
            r = t
        return r


# ------------------------------------------------------------------------------------------------------------------
# golden printer: the three expression-printer rules as they would have to be, plus the memory template without the
# silent READ_FIRST switch.  Only used to *name* a disagreement that is already established (and to validate the
# proposed patches: with all of them applied the grammar part must be free of printer defects).
# ------------------------------------------------------------------------------------------------------------------
def _golden_constant(node):
    # a signed Constant must be a signed literal; print the two's complement pattern so that no unary minus is needed
    if node.signed:
        return f"{node.nbits}'sd{node.value & (2**node.nbits - 1)}", True
    return "{sign}{bits}'d{value}".format(sign="" if node.value >= 0 else "-", bits=node.nbits, value=abs(node.value)), False


def _golden_slice(ns, node):
    assert (node.stop - node.start) >= 1
    r, s = lx_expr._generate_expression(ns, node.value)
    if hasattr(node.value, "__len__") and len(node.value) == 1:
        # bit-select of a scalar is illegal; a signed 1-bit value still has to become unsigned
        return ("{" + r + "}", False) if s else (r, False)
    if (node.stop - node.start) > 1:
        sr = f"[{node.stop-1}:{node.start}]"
    else:
        sr = f"[{node.start}]"
    return r + sr, False       # a part-select is unsigned whatever the signal is


_orig_operator = lx_expr._generate_operator
_CMP = ("<", "<=", "==", "!=", ">", ">=")


def _pad(ns, node, pad):
    """print `node` for a self-determined position (concatenation member, $signed argument, condition, shift amount):
    Verilog sizes an operator expression there by its operands only, Migen by value_bits_sign (carry/product/shift
    growth); adding a zero of Migen's width restores the width without changing type or value."""
    r, s = lx_expr._generate_expression(ns, node)
    if pad and isinstance(node, _Operator) and node.op not in _CMP:
        r = f"({r} + {len(node)}'{'s' if s else ''}d0)"
    return r, s


def _make_operator(cmp_fix, pad):
    def gen(ns, node):
        operator = node.op
        operands = node.operands
        arity = len(operands)

        def to_signed(r, n):
            if pad:
                r = _pad(ns, n, True)[0]
            return f"$signed({{1'd0, {r}}})"
        ge = lx_expr._generate_expression
        if arity == 1:
            r1, s1 = ge(ns, operands[0])
            if operator == "-":
                r = "-" + (r1 if s1 else to_signed(r1, operands[0]))
                s = True
            else:
                r = operator + r1
                s = s1
        elif arity == 2:
            r1, s1 = ge(ns, operands[0])
            if operator in ("<<<", ">>>"):
                r2, s2 = _pad(ns, operands[1], pad)
            else:
                r2, s2 = ge(ns, operands[1])
                if s2 and not s1:
                    r1 = to_signed(r1, operands[0])
                if s1 and not s2:
                    r2 = to_signed(r2, operands[1])
            r = f"{r1} {operator} {r2}"
            s = s1 or s2
            if cmp_fix and operator in _CMP:
                s = False          # a comparison result is unsigned
        else:
            assert operator == "m"
            r1, s1 = _pad(ns, operands[0], pad)
            r2, s2 = ge(ns, operands[1])
            r3, s3 = ge(ns, operands[2])
            if s2 and not s3:
                r3 = to_signed(r3, operands[2])
            if s3 and not s2:
                r2 = to_signed(r2, operands[1])
            r = f"{r1} ? {r2} : {r3}"
            s = s2 or s3
        return f"({r})", s
    return gen


def _golden_cat(ns, node):
    l = [_pad(ns, v, True)[0] for v in reversed(node.l)]
    return "{" + ", ".join(l) + "}", False


def _golden_replicate(ns, node):
    return "{" + str(node.n) + "{" + _pad(ns, node.v, True)[0] + "}}", False


_orig_node = lx_verilog._generate_node


def _make_node(pad, case_fix):
    from migen.fhdl.bitcontainer import bits_for
    tab = lx_verilog._tab

    def gen(ns, at, level, node, target_filter=None):
        if target_filter is not None and target_filter not in lx_verilog.list_targets(node):
            return ""
        if pad and isinstance(node, If):
            r = tab*level + "if (" + _pad(ns, node.cond, True)[0] + ") begin\n"
            r += lx_verilog._generate_node(ns, at, level + 1, node.t, target_filter)
            if node.f:
                r += tab*level + "end else begin\n"
                r += lx_verilog._generate_node(ns, at, level + 1, node.f, target_filter)
            r += tab*level + "end\n"
            return r
        if case_fix and isinstance(node, Case) and node.cases and value_bits_sign(node.test)[1]:
            # signed test: every item must be a signed literal, otherwise the whole comparison is unsigned
            r = tab*level + "case (" + lx_expr._generate_expression(ns, node.test)[0] + ")\n"
            css = sorted([(k, v) for k, v in node.cases.items() if isinstance(k, Constant)], key=lambda x: x[0].value)
            for choice, statements in css:
                n = bits_for(choice.value, require_sign_bit=True)
                r += tab*(level + 1) + f"{n}'sd{choice.value & (2**n - 1)}: begin\n"
                r += lx_verilog._generate_node(ns, at, level + 2, statements, target_filter)
                r += tab*(level + 1) + "end\n"
            if "default" in node.cases:
                r += tab*(level + 1) + "default: begin\n"
                r += lx_verilog._generate_node(ns, at, level + 2, node.cases["default"], target_filter)
                r += tab*(level + 1) + "end\n"
            r += tab*level + "endcase\n"
            return r
        return _orig_node(ns, at, level, node, target_filter)
    return gen


def _golden_visit_Slice(self, node):
    """_ComplexSliceLowerer.visit_Slice with one change: a full-width slice is not simply dropped when that would change
    the type (signed signal) or the width (expression): it becomes a one-element concatenation."""
    from migen.fhdl.tools import NodeTransformer
    _lower_slice_cat, _lower_slice_replicate = lx_verilog._lower_slice_cat, lx_verilog._lower_slice_replicate
    length = len(node)
    start = 0
    while isinstance(node, _Slice):
        start += node.start
        node = node.value
        while True:
            node, start = _lower_slice_cat(node, start, length)
            former_node = node
            node, start = _lower_slice_replicate(node, start, length)
            if node is former_node:
                break
    if start == 0 and len(node) == length:
        r = NodeTransformer.visit(self, node)
        if self.target_context or (isinstance(node, Signal) and not node.signed) or isinstance(node, (Cat, Replicate, Constant)):
            return r
        return Cat(r)
    if isinstance(node, Signal):
        node = _Slice(node, start, start + length)
    else:
        slice_proxy = Signal(value_bits_sign(node))
        if self.target_context:
            a = _Assign(node, slice_proxy)
        else:
            a = _Assign(slice_proxy, node)
        self.comb.append(self.visit_Assign(a))
        node = _Slice(slice_proxy, start, start + length)
    return NodeTransformer.visit_Slice(self, node)


def _golden_use_wire(stmts):
    return (len(stmts) == 1 and isinstance(stmts[0], _Assign) and not isinstance(stmts[0].l, (_Slice, Cat)))


_orig_memory = lx_mem._memory_generate_verilog


def _emit_memory_keep_modes(name, memory, namespace, add_data_file):
    """verbatim re-run of LiteX's template with the multi-clock READ_FIRST switch removed (source patched in memory)."""
    import inspect
    src = inspect.getsource(_orig_memory)
    a = src.index("    clocks = [port.clock for port in memory.ports]")
    b = src.index("    # Set Port Granularity when 0.")
    src = src[:a] + src[b:]
    g = dict(lx_mem.__dict__)
    exec(compile(src, "<golden memory>", "exec"), g)
    return g["_memory_generate_verilog"](name, memory, namespace, add_data_file)


EXPR_PATCHES = ("signed_const", "slice_signed", "cmp_signed", "full_slice", "selfdet_width", "case_key_signed", "cat_target_wire",
                "port_reg_init")


@contextlib.contextmanager
def golden(names):
    names = set(names)
    saved = []

    def put(obj, attr, fn):
        saved.append((obj, attr, getattr(obj, attr)))
        setattr(obj, attr, fn)
    try:
        if "signed_const" in names:
            put(lx_expr, "_generate_constant", _golden_constant)
        if "slice_signed" in names:
            put(lx_expr, "_generate_slice", _golden_slice)
        if names & {"cmp_signed", "selfdet_width"}:
            put(lx_expr, "_generate_operator", _make_operator("cmp_signed" in names, "selfdet_width" in names))
        if "selfdet_width" in names:
            put(lx_expr, "_generate_cat", _golden_cat)
            put(lx_expr, "_generate_replicate", _golden_replicate)
        if names & {"selfdet_width", "case_key_signed"}:
            put(lx_verilog, "_generate_node", _make_node("selfdet_width" in names, "case_key_signed" in names))
        if "full_slice" in names:
            put(lx_verilog._ComplexSliceLowerer, "visit_Slice", _golden_visit_Slice)
        if "cat_target_wire" in names:
            put(lx_verilog, "_use_wire", _golden_use_wire)
        if "memory_mode" in names:
            put(lx_mem, "_memory_generate_verilog", _emit_memory_keep_modes)
        yield
    finally:
        for obj, attr, old in reversed(saved):
            setattr(obj, attr, old)


# ------------------------------------------------------------------------------------------------------------------
# the two sides
# ------------------------------------------------------------------------------------------------------------------
def _mask(n):
    return (1 << n) - 1


class SideA:
    """LiteX's simulator semantics: fsmc.Design (fragment from Simulator.__init__, compiled stepper that is
    conformance-checked against litex.gen.sim.core.Evaluator; every reported disagreement is re-evaluated on the real
    Evaluator)."""
    def __init__(self, mk):
        self.mod, self.info = mk()
        info = self.info
        self.D = D = Design(self.mod, clocks=tuple(info["clocks"]))
        self.fs = D.fs
        self.in_idx = [D.i(s) for s in info["inputs"]]
        self.in_w = [len(s) for s in info["inputs"]]
        self.in_sg = [s.signed for s in info["inputs"]]
        self.obs_idx = [D.i(s) for _, s in info["observe"]]
        self.obs_mask = [_mask(len(s)) for _, s in info["observe"]]
        rm = D.sim.evaluator.replaced_memories
        self.mem_idx = []
        for m in info["memories"]:
            self.mem_idx.append([D.i(s) for s in rm[m]])
        self.rst_idx = []
        for cd in D.f.clock_domains:
            if cd.rst is not None and cd.rst in D.fs.c.idx:
                self.rst_idx.append(D.fs.c.idx[cd.rst])
        # Design.input_sigs may have grown through D.i(); state signals fixed
        self.S = D.S

    def drive(self, vals):
        v = self.fs.v
        for i, w, sg, x in zip(self.in_idx, self.in_w, self.in_sg, vals):
            v[i] = x - (1 << w) if sg and (x >> (w - 1)) & 1 else x

    def observe(self):
        v = self.fs.v
        return [v[i] & m for i, m in zip(self.obs_idx, self.obs_mask)]

    def mem_words(self):
        v = self.fs.v
        return [[v[i] for i in idxs] for idxs in self.mem_idx]


REGULAR_COMB = True      # False: the per-target comb emitter (`regular_comb=False`, what litex.build.sim.verilator converts with); set per configuration


class ConvertError(Exception):
    """litex.gen.fhdl.verilog.convert itself raised on a design that LiteX elaborates and simulates"""


class SideB:
    """vlog on convert(...).main_source (+ data files) of a fresh instance of the same constructor."""
    def __init__(self, mk, patches=(), extra=0, lenient=False, text_edit=None):
        self.mod, self.info = mk()
        info = self.info
        with golden(patches):
            try:
                out = lx_verilog.convert(self.mod, ios=set(info["ios"]), name="top", regular_comb=REGULAR_COMB)
            except Exception as e:
                raise ConvertError(f"{type(e).__name__}: {e}")
        self.out = out
        ns = out.ns
        self.text = out.main_source if text_edit is None else text_edit(out.main_source)
        if "port_reg_init" in patches:
            import re
            for sig in info["ios"]:
                if getattr(sig, "type", None) == "reg" and getattr(sig, "direction", None) == "output":
                    n = ns.get_name(sig)
                    init = lx_expr._generate_expression(ns, sig.reset)[0]
                    self.text = re.sub(r"(output reg\s+(?:signed\s+)?(?:\[\d+:0\]\s+)?%s)(?=,?\n)" % re.escape(n), r"\1 = " + init, self.text)
        self.data_files = dict(getattr(out, "data_files", {}) or {})
        self.sim = s = vlog.Sim(self.text, self.data_files, extra=extra, lenient_const_blocks=lenient)
        self.in_names = [ns.get_name(x) for x in info["inputs"]]
        self.obs_names = [ns.get_name(x) for _, x in info["observe"]]
        for n in self.in_names + self.obs_names:
            if n not in s.idx:
                raise vlog.VlogSyntaxError(f"signal {n} is not declared in the emitted module")
        self.in_idx = [s.idx[n] for n in self.in_names]
        self.in_mask = [_mask(s.width[n]) for n in self.in_names]
        self.obs_idx = [s.idx[n] for n in self.obs_names]
        for (lab, x), n in zip(info["observe"], self.obs_names):
            if s.width[n] != len(x) or s.signed[n] != bool(x.signed):
                raise vlog.VlogSyntaxError(f"{n} declared [{s.width[n]},{s.signed[n]}], design says [{len(x)},{x.signed}]")
        self.mem_names = [ns.get_name(m) for m in info["memories"]]
        self.mem_k = [s.memidx[n] for n in self.mem_names]
        self.clk = {cd.name: ns.get_name(cd.clk) for cd in info["clock_domains"]}

    def drive(self, vals):
        v = self.sim.v
        for i, m, x in zip(self.in_idx, self.in_mask, vals):
            v[i] = x & m

    def observe(self):
        v = self.sim.v
        return [v[i] for i in self.obs_idx]

    def mem_words(self):
        return [list(self.sim.mems[k]) for k in self.mem_k]

    def tick(self, cds):
        self.sim.tick({self.clk[c] for c in cds})


import importlib
lx_simcore = importlib.import_module("litex.gen.sim.core")   # (the package attribute `core` is shadowed by migen.sim.core)
from migen.fhdl.simplify import MemoryToArray as _MTA


def _golden_mta(fix_reset, fix_nc):
    class _GoldenMTA(_MTA):
        """MemoryToArray (a) whose storage words, address registers and read-data registers are not reset by the domain
        reset (the emitted memory template has no reset at all) and/or (b) whose NO_CHANGE read is suppressed by any
        write-enable bit, like the template's `if (!we)` (Migen lowers it to `If(~we, ...)`: true unless ALL bits are set)."""
        def transform_fragment(self, i, f):
            ports = [p for m in f.specials if isinstance(m, Memory) for p in m.ports]
            _MTA.transform_fragment(self, i, f)
            adrs = {id(p.adr) for p in ports}
            wes = {id(p.we): p for p in ports if p.we is not None}

            def walk(st):
                for x in st:
                    if isinstance(x, _Assign):
                        if fix_reset and id(x.r) in adrs and isinstance(x.l, Signal):
                            x.l.reset_less = True
                    elif isinstance(x, If):
                        c = x.cond
                        if fix_nc and isinstance(c, _Operator) and c.op == "~" and id(c.operands[0]) in wes:
                            x.cond = (c.operands[0] == 0)
                        walk(x.t)
                        walk(x.f)
                    elif isinstance(x, (list, tuple)):
                        walk(x)
            for cd, st in f.sync.items():
                walk(st)
            if fix_reset:
                for arr in self.replacements.values():
                    for s in arr:
                        s.reset_less = True
                for p in ports:
                    if not p.async_read:
                        p.dat_r.reset_less = True
    return _GoldenMTA


class RealA:
    """Replays traces from reset on LiteX's *real* Evaluator (optionally the wrapped one for S_w)."""
    def __init__(self, mk, evaluator_cls=None, golden_sim=None):
        self.mod, self.info = mk()
        if golden_sim:
            old = lx_simcore.MemoryToArray
            lx_simcore.MemoryToArray = _golden_mta("reset" in golden_sim, "nochange_we" in golden_sim)
            try:
                self.D = Design(self.mod, clocks=tuple(self.info["clocks"]))
            finally:
                lx_simcore.MemoryToArray = old
        else:
            self.D = Design(self.mod, clocks=tuple(self.info["clocks"]))
        sim = self.sim = self.D.sim
        if evaluator_cls is not None:
            ev = sim.evaluator
            sim.evaluator = evaluator_cls(ev.clock_domains, ev.replaced_memories)

    def run(self, trace):
        """trace: list of (input values, clocks tuple or None).  Returns the observation after the last element
        (post-edge if it ticks, else after the comb settle) and the memory words."""
        sim, info = self.sim, self.info
        ev = sim.evaluator
        ev.signal_values = {}
        ev.modifications = {}
        ev.execute(sim.fragment.comb)
        sim._commit_and_comb_propagate()
        for vals, cds in trace:
            for s, x in zip(info["inputs"], vals):
                w = len(s)
                ev.signal_values[s] = x - (1 << w) if s.signed and (x >> (w - 1)) & 1 else x
            ev.execute(sim.fragment.comb)
            sim._commit_and_comb_propagate()
            if cds:
                for cd in cds:
                    if cd in sim.fragment.sync:
                        ev.execute(sim.fragment.sync[cd])
                sim._commit_and_comb_propagate()
        obs = [ev.eval(s) & _mask(len(s)) for _, s in info["observe"]]
        mems = [[ev.eval(s) for s in ev.replaced_memories[m]] for m in info["memories"]]
        return obs, mems


def run_trace_B(B, trace):
    s = B.sim
    s.reset()
    B.drive([x.reset.value & _mask(len(x)) for x in B.info["inputs"]])
    s.settle()
    for vals, cds in trace:
        B.drive(vals)
        s.settle()
        if cds:
            B.tick(cds)
    return B.observe(), B.mem_words()


# ------------------------------------------------------------------------------------------------------------------
# classification
# ------------------------------------------------------------------------------------------------------------------
class Classifier:
    """Names disagreements of one program.  All variants are built lazily, once per program."""
    def __init__(self, mk, has_mem_multiclock=False):
        self.mk = mk
        self.variants = {}
        self.has_mem = has_mem_multiclock
        self._real = self._wrapped = None
        self._gsim = {}

    def B(self, key):
        if key not in self.variants:
            kind, arg = key
            try:
                if kind == "unb":
                    self.variants[key] = SideB(self.mk, extra=64)
                elif kind == "lenient":
                    self.variants[key] = SideB(self.mk, lenient=True)
                elif kind == "golden":
                    self.variants[key] = SideB(self.mk, patches=arg)
                elif kind == "golden+lenient":
                    self.variants[key] = SideB(self.mk, patches=arg, lenient=True)
            except Exception as e:  # a variant that cannot be built never explains anything
                self.variants[key] = e
        return self.variants[key]

    def classify(self, trace, which, S_fast, V, pre=None):
        """which: list of indices into observe (or ('mem', k, addr)) that disagree after `trace`.
        Returns {index: rule}.  S is re-computed on the real Evaluator (must equal the fast stepper's value)."""
        left = {}
        if pre is not None:
            obsS, obsW, left = pre    # dicts {observation index: value / node-left-its-declared-range flag} from FragEval
            memS = memW = []
        else:
            if self._real is None:
                self._real = RealA(self.mk)
                self._wrapped = RealA(self.mk, WrappedEvaluator)
            obsS, memS = self._real.run(trace)
            obsW, memW = self._wrapped.run(trace)

        def pick(obs, mems, w):
            return mems[w[1]][w[2]] if isinstance(w, tuple) else obs[w]
        out = {}
        todo = []
        for w in which:
            s = pick(obsS, memS, w)
            if S_fast is not None and s != S_fast[w]:
                raise MachineryError(f"fast stepper and real Evaluator disagree on observation {w}: {S_fast[w]} vs {s}")
            if pick(obsW, memW, w) != s:
                out[w] = "gap.h1"
            else:
                todo.append(w)
        if not todo:
            return out
        if self.has_mem:
            # simulator-side defects of the memory lowering
            for gs in (("reset",), ("nochange_we",), ("reset", "nochange_we")):
                if gs not in self._gsim:
                    self._gsim[gs] = RealA(self.mk, golden_sim=gs)
                obsG, memG = self._gsim[gs].run(trace)
                rest = []
                for w in todo:
                    if pick(obsG, memG, w) == V[w]:
                        out[w] = "sim.memory_" + "+".join(gs)
                    else:
                        rest.append(w)
                todo = rest
                if not todo:
                    return out

        def explain(key, rule, todo):
            if not todo:
                return todo
            b = self.B(key)
            if isinstance(b, Exception):
                return todo
            obs, mems = run_trace_B(b, trace)
            rest = []
            for w in todo:
                if pick(obs, mems, w) == pick(obsS, memS, w):
                    out[w] = rule
                else:
                    rest.append(w)
            return rest
        import itertools
        names = list(EXPR_PATCHES) + (["memory_mode"] if self.has_mem else [])
        # printer defects first: the smallest set of golden printer rules that makes vlog agree with the simulator
        for n in names:
            todo = explain(("golden", (n,)), "printer." + n, todo)
        if todo:
            # does the complete golden printer repair it?  only then look for the pair that is enough
            b = self.B(("golden", tuple(names)))
            if not isinstance(b, Exception):
                obs, mems = run_trace_B(b, trace)
                cand = [w for w in todo if pick(obs, mems, w) == pick(obsS, memS, w)]
                if cand:
                    rest = [w for w in todo if w not in cand]
                    for combo in itertools.combinations(names, 2):
                        cand = explain(("golden", combo), "printer." + "+".join(combo), cand)
                        if not cand:
                            break
                    for w in cand:
                        out[w] = "printer.multi"
                    todo = rest
        # h2: the standard's types with contexts too wide to overflow give the simulator's value, plain V does not
        todo = explain(("unb", None), "gap.h2", todo)
        todo = explain(("lenient", None), "printer.const_only_always", todo)
        for n in names:
            todo = explain(("golden+lenient", (n,)), "printer.const_only_always+" + n, todo)
        todo = explain(("golden+lenient", tuple(names)), "printer.const_only_always+multi", todo)
        for w in todo:
            # weaker form of h1: the final value survives the wrapping, but some node of the fragment left its declared
            # type on this input (e.g. `~a` of an unsigned `a` compared with a wider operand) and no printer rule explains it
            out[w] = "gap.h1" if left.get(w) else "printer.other"
        return out


# ------------------------------------------------------------------------------------------------------------------
# lock-step product exploration (sequential programs and real cores)
# ------------------------------------------------------------------------------------------------------------------
class Mismatch:
    def __init__(self, which, trace, S, V, phase):
        self.which, self.trace, self.S, self.V, self.phase = which, trace, S, V, phase


def explore(mk, alphabet, clock_choices, cap_transitions, seed=0, conform_target=400, walk=0, walk_menus=None,
            max_mismatch=24):
    """BFS over the product (S_A, S_B) from reset under every input valuation of `alphabet` and every clock choice,
    to closure or `cap_transitions`; then (walk > 0) one long deterministic walk of `walk` cycles with corner values
    chosen by a fixed LCG (not by `seed`).  Phi: after every settle and every edge all observed signals and memory
    words agree.  Mismatching transitions are not extended.  Returns (stats dict, [Mismatch], A, B)."""
    A = SideA(mk)
    B = SideB(mk)
    D, fsA, simB = A.D, A.fs, B.sim
    st = dict(states=0, transitions=0, conformed=0, exhaustive=True, walk_cycles=0, depth=0)
    mism = []
    st["mismatching_transitions"] = 0

    per_obs = {}

    def note(which, trace, oa, ob, phase):
        # every mismatching observation is recorded (and later classified) at least 3 times, shortest traces first
        st["mismatching_transitions"] += 1
        fresh = [w for w in which if per_obs.get(w, 0) < 3]
        if fresh or len(mism) < max_mismatch:
            for w in which:
                per_obs[w] = per_obs.get(w, 0) + 1
            mism.append(Mismatch(list(which), list(trace), oa, ob, phase))

    def diff(oa, ob, ma, mb):
        which = [k for k in range(len(oa)) if oa[k] != ob[k]]
        if ma != mb:
            for k, (x, y) in enumerate(zip(ma, mb)):
                for a in range(len(x)):
                    if x[a] != y[a]:
                        which.append(("mem", k, a))
        return which

    in_reset = [s.reset.value & _mask(len(s)) for s in A.info["inputs"]]
    fsA.v[:] = fsA.reset
    fsA.settle()
    simB.reset()
    B.drive(in_reset)        # an undriven input has no value of its own: the test bench shows the FHDL reset value
    simB.settle()
    oa, ob = A.observe(), B.observe()
    w0 = diff(oa, ob, A.mem_words(), B.mem_words())
    if w0:
        note(w0, [], _obs_dict(oa, A.mem_words()), _obs_dict(ob, B.mem_words()), "time0")
    s0 = (D.state(), simB.get_state())
    seen = {s0: 0}
    parent = {0: None}
    frontier = [(s0, 0, 0)]
    alphabet = list(alphabet)     # (`seed` deliberately does not reorder it: under a cap the explored prefix would change)
    per_state = len(alphabet) * len(clock_choices)
    conf_every = max(1, (cap_transitions // max(1, conform_target)))
    multi = len(clock_choices) > 1

    def path(sid):
        out = []
        while parent[sid] is not None:
            sid, step = parent[sid]
            out.append(step)
        out.reverse()
        return out
    qi = 0
    capped = False
    while qi < len(frontier):
        (sa, sb), sid, depth = frontier[qi]
        qi += 1
        if st["transitions"] + per_state > cap_transitions:
            capped = True
            break
        st["depth"] = depth
        for vals in alphabet:
            D.load(sa)
            A.drive(vals)
            fsA.settle()
            simB.set_state(sb)
            B.drive(vals)
            simB.settle()
            oa, ob = A.observe(), B.observe()
            if oa != ob:
                note(diff(oa, ob, [], []), path(sid) + [(vals, None)], _obs_dict(oa, []), _obs_dict(ob, []), "settle")
                st["transitions"] += len(clock_choices)
                continue
            vpre = list(fsA.v)
            for ci, cds in enumerate(clock_choices):
                if ci:
                    fsA.v[:] = vpre
                    simB.set_state(sb)
                    B.drive(vals)
                    simB.settle()
                fsA.tick(cds)
                B.tick(cds)
                st["transitions"] += 1
                if st["transitions"] % conf_every == 0:
                    D.conform(sa, vpre, list(fsA.v), cds)
                    st["conformed"] += 1
                oa, ob = A.observe(), B.observe()
                ma, mb = A.mem_words(), B.mem_words()
                if oa != ob or ma != mb:
                    note(diff(oa, ob, ma, mb), path(sid) + [(vals, cds)], _obs_dict(oa, ma), _obs_dict(ob, mb), "edge")
                    continue
                ns = (D.state(), simB.get_state())
                if ns not in seen:
                    nid = len(seen)
                    seen[ns] = nid
                    parent[nid] = (sid, (vals, cds))
                    frontier.append((ns, nid, depth + 1))
    st["states"] = len(seen)
    st["exhaustive"] = not capped
    st["frontier_left"] = len(frontier) - qi if capped else 0
    # ---- long deterministic walk -----------------------------------------------------------------------------------
    if walk and walk_menus:
        lcg = 12345
        fsA.v[:] = fsA.reset
        fsA.settle()
        simB.reset()
        B.drive(in_reset)
        simB.settle()
        trace = []
        sa = D.state()
        for cyc in range(walk):
            vals = []
            for menu in walk_menus:
                lcg = (lcg * 1103515245 + 12345) & 0x7FFFFFFF
                vals.append(menu[(lcg >> 8) % len(menu)])
            vals = tuple(vals)
            lcg = (lcg * 1103515245 + 12345) & 0x7FFFFFFF
            cds = clock_choices[(lcg >> 8) % len(clock_choices)]
            A.drive(vals)
            fsA.settle()
            B.drive(vals)
            simB.settle()
            oa, ob = A.observe(), B.observe()
            if oa != ob:
                note(diff(oa, ob, [], []), trace + [(vals, None)], _obs_dict(oa, []), _obs_dict(ob, []), "walk-settle")
                break
            vpre = list(fsA.v)
            fsA.tick(cds)
            B.tick(cds)
            trace.append((vals, cds))
            st["walk_cycles"] += 1
            if cyc % max(1, walk // 40) == 0:
                D.conform(sa, vpre, list(fsA.v), cds)
                st["conformed"] += 1
            sa = D.state()
            oa, ob = A.observe(), B.observe()
            ma, mb = A.mem_words(), B.mem_words()
            if oa != ob or ma != mb:
                note(diff(oa, ob, ma, mb), trace, _obs_dict(oa, ma), _obs_dict(ob, mb), "walk-edge")
                break
    return st, mism, A, B


class _obs_dict(dict):
    """observation indexable both by observe-index and by ('mem', k, addr)"""
    def __init__(self, obs, mems):
        dict.__init__(self)
        for k, x in enumerate(obs):
            self[k] = x
        for k, m in enumerate(mems):
            for a, x in enumerate(m):
                self[("mem", k, a)] = x


class FragEval:
    """S and S_w of ONE independent comb fragment of a packed module, on LiteX's real Evaluator (resp. the wrapped one):
    the fragment's own statements preceded by the simulator's comb defaults (target <= reset), executed and committed
    until nothing changes - exactly what Simulator.run does with the whole comb list, restricted to the statements that
    can influence the fragment's targets."""
    def __init__(self, mod):
        self.mod = mod
        self.inputs = [mod.a, mod.b, mod.c]
        self.ev = Evaluator(None, {})
        self.evw = WrappedEvaluator(None, {})

    def run(self, k, vals, wrapped=False):
        ev = self.evw if wrapped else self.ev
        targets = self.mod.frag_obs[k][1]
        stmts = self.mod.frag_stmts[k]
        from migen.fhdl.tools import list_targets
        allt = sorted(list_targets(stmts), key=lambda s: s.duid)
        prog = [t.eq(t.reset) for t in allt] + stmts
        ev.signal_values = {}
        ev.modifications = {}
        for s, x in zip(self.inputs, vals):
            w = len(s)
            ev.signal_values[s] = x - (1 << w) if s.signed and (x >> (w - 1)) & 1 else x
        for _ in range(100):
            ev.execute(prog)
            if not ev.commit():
                break
        else:
            raise MachineryError("fragment does not settle")
        return [ev.eval(t) & _mask(len(t)) for t in targets]

    def run_wrapped(self, k, vals):
        self.evw.left_range = False
        r = self.run(k, vals, wrapped=True)
        return r, self.evw.left_range
