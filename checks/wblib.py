"""Wishbone interconnect harness for C06 (routing / ownership / responses / bounded waiting) and C11 (time-outs).
Masters are Moore processes (idle | request held until ack/err | back-to-back), slaves are reactive
(ack = cyc & stb & choice, latency 0..L chosen per request, ack or err, fail-stop fault switch)."""
import itertools
import fsmc  # noqa
from migen import *
from litex.soc.interconnect import wishbone
from litex.soc.integration.soc import SoCRegion
from fsmc.explore import Harness, COOP, PROGRESS
from fsmc.design import MachineryError

WAITBIT, SERVEDBIT = 256, 4096
DW, AW = 8, 6            # 8-bit data (sel is 1 bit), 6-bit word address: [5:4] slave window, [3] -, [2:1] master id, [0] tag
UNMAPPED = 3


class IcDUT(Module):
    def __init__(self, kind, nm, ns, register, timeout, dw=DW, adr_widths=None):
        aws = list(adr_widths) if adr_widths else [AW]*nm          # masters of different address widths (narrower ones reach fewer windows)
        self.masters = [wishbone.Interface(data_width=dw, adr_width=aws[m]) for m in range(nm)]
        self.slaves = [wishbone.Interface(data_width=dw, adr_width=AW) for _ in range(ns)]
        regions = [SoCRegion(origin=16*j*(dw//8), size=16*(dw//8)) for j in range(ns)]
        widest = self.masters[aws.index(max(aws))]
        dec = [(r.decoder(widest), s) for r, s in zip(regions, self.slaves)]
        self.grant = None
        self.error = None
        if kind == "shared":
            self.submodules.ic = ic = wishbone.InterconnectShared(self.masters, dec, register=register, timeout_cycles=timeout)
            self.grant = ic.arbiter.rr.grant
            if timeout is not None:
                self.error = ic.timeout.error
        elif kind == "crossbar":
            self.submodules.ic = wishbone.Crossbar(self.masters, dec, register=register, timeout_cycles=timeout)
        elif kind == "arbiter":
            assert ns == 1
            self.submodules.ic = ic = wishbone.Arbiter(self.masters, self.slaves[0])
            self.grant = ic.rr.grant
        elif kind == "decoder":
            assert nm == 1
            self.submodules.ic = wishbone.Decoder(self.masters[0], dec, register=register)
        elif kind == "p2p":
            assert nm == ns == 1
            self.submodules.ic = wishbone.InterconnectPointToPoint(self.masters[0], self.slaves[0])
        elif kind == "timeout":
            # bare Timeout in front of one slave
            assert nm == ns == 1
            self.comb += self.masters[0].connect(self.slaves[0])
            self.submodules.to = to = wishbone.Timeout(self.masters[0], timeout)
            self.error = to.error
        else:
            raise ValueError(kind)


class WbIcHarness(Harness):
    """env = (masters, slaves, owners, ages)
         masters[m] = (phase, target, we, tag, others_done)   phase: 'I' idle, 'R' requesting, 'T' just terminated,
                      'P' paused: cyc kept, stb low, address lines still pointing at `target` (capability stb_pauses)
         slaves[j]  = (lat, dead)
         owners[j]  = master owning slave port j's open cycle or -1
         ages[m]    = cycles the request of m has been on the arbitrated bus without termination (time-out runs)"""

    def __init__(self, name, kind, nm, ns, register=False, timeout=None, maxlat=2, unmapped=True, err=True, faults=False,
                 back_to_back=True, decoded=True, cap=None, pauses=False, dw=DW, adr_widths=None, writes_only_zero_wait=False):
        self.name, self.kind, self.nm, self.ns = name, kind, nm, ns
        self.adr_widths = list(adr_widths) if adr_widths else None
        self.dw, self.ones, self.selall = dw, (1 << dw) - 1, (1 << (dw//8)) - 1      # bus width: idle / time-out data is all-ones over the whole word
        self.register, self.timeout, self.maxlat = register, timeout, maxlat
        self.unmapped, self.err, self.fault_sw, self.b2b = unmapped, err, faults, back_to_back
        self.decoded = kind in ("shared", "crossbar", "decoder")
        self.has_timeout = timeout is not None and kind in ("shared", "timeout")
        self.minlat = 1 if register else 0
        # registered decode delays the read-data select by a cycle (documented: "breaks Wishbone combinatorial feedback"), so zero-wait slaves
        # are only legal for WRITES there: a separate run with writes only and slaves that may answer at once
        self.wes = (1,) if writes_only_zero_wait else (0, 1)
        if writes_only_zero_wait:
            self.minlat = 0
        self.pauses = pauses               # masters may keep cyc with stb low between the transfers of one bus cycle
        if cap:
            self.cap = cap
        q = [("live.deadlock", COOP, PROGRESS, (), "masters request, slaves answer, nothing completes")]
        for m in range(nm):
            q.append((f"live.starve.m{m}", COOP | (WAITBIT << m), SERVEDBIT << m, (),
                      f"master {m} requests forever and is never terminated although all others cooperate"))
        self.live_queries = tuple(q)
        self.cov = dict(collisions=0, timeouts=0, expiry_coincidence=0, back_to_back=0, max_wait=0)

    def build(self):
        self.dut = IcDUT(self.kind, self.nm, self.ns, self.register, self.timeout, self.dw, self.adr_widths)
        return self.dut

    def bind(self, D):
        d = self.dut
        f = lambda itf, names: {n: D.i(getattr(itf, n)) for n in names}
        self.M = [f(m, ("cyc", "stb", "we", "adr", "dat_w", "sel", "cti", "bte", "ack", "err", "dat_r")) for m in d.masters]
        self.S = [f(s, ("cyc", "stb", "we", "adr", "dat_w", "sel", "ack", "err", "dat_r")) for s in d.slaves]
        self.grant = D.i(d.grant) if d.grant is not None else None
        self.error = D.i(d.error) if d.error is not None else None
        tg = list(range(self.ns)) + ([UNMAPPED] if (self.unmapped and self.decoded) else [])
        self.targets = tg
        aws = self.adr_widths or [AW]*self.nm
        self.amask = [(1 << a) - 1 for a in aws]
        self.mtargets = [[t for t in tg if (t << 4) <= self.amask[m]] for m in range(self.nm)]     # what master m can address at all

    def env_init(self):
        return (tuple(("I", 0, 0, 0, 0) for _ in range(self.nm)), tuple((0, 0) for _ in range(self.ns)),
                tuple(-1 for _ in range(self.ns)), tuple(0 for _ in range(self.nm)))

    # ---- choices ------------------------------------------------------------------------------------
    def choices(self, env):
        masters, slaves, owners, ages = env
        per = []
        for m, (ph, tg, we, tag, od) in enumerate(masters):
            if ph == "R":
                per.append([("hold",)])
            elif ph == "P":
                per.append([("idle",), ("pause",)] + [("req", tg, w) for w in self.wes])
            else:
                c = [("idle",)]
                if ph == "I" or self.b2b:
                    c += [("req", t, w) for t in self.mtargets[m] for w in self.wes]
                if ph == "T" and self.pauses:
                    c.append(("pause",))
                per.append(c)
        out = []
        for mc in itertools.product(*per):
            targeted = set()
            for m, c in enumerate(mc):
                if c[0] == "hold":
                    targeted.add(masters[m][1])
                elif c[0] == "req":
                    targeted.add(c[1])
            sper = []
            for j, (lat, dead) in enumerate(slaves):
                if j not in targeted or dead:
                    sper.append(["w"])
                else:
                    r = []
                    if lat >= self.minlat:
                        r.append("a")
                        if self.err:
                            r.append("e")
                    if lat < self.maxlat or not r:
                        r.append("w")
                    sper.append(r)
            kills = [None]
            if self.fault_sw and not any(d for (_, d) in slaves):
                kills += list(range(self.ns))
            for sc in itertools.product(*sper):
                for k in kills:
                    out.append((mc, sc, k))
        return out

    def req_of(self, env, ch, m):
        """(target, we, tag) the master presents in this cycle or None"""
        ph, tg, we, tag, od = env[0][m]
        c = ch[0][m]
        if c[0] == "hold":
            return (tg, we, tag)
        if c[0] == "req":
            return (c[1], c[2], tag)
        return None

    def drive(self, v, env, ch):
        mc, sc, kill = ch
        for m, X in enumerate(self.M):
            r = self.req_of(env, ch, m)
            if r is None and mc[m][0] == "pause":
                # wait state inside a bus cycle: cyc stays, stb low, the address still selects the slave of the last transfer
                tgp = env[0][m][1]
                v[X["cyc"]], v[X["stb"]] = 1, 0
                v[X["adr"]], v[X["we"]], v[X["dat_w"]], v[X["sel"]] = (tgp << 4) | (m << 1), 1, self.ones, self.selall
            elif r is None:
                v[X["cyc"]] = v[X["stb"]] = 0
                # idle garbage on the request lines
                v[X["adr"]], v[X["we"]], v[X["dat_w"]], v[X["sel"]] = self.amask[m], 1, self.ones, self.selall
            else:
                t, we, tag = r
                adr = (t << 4) | (m << 1) | tag
                v[X["cyc"]] = v[X["stb"]] = 1
                v[X["adr"]], v[X["we"]], v[X["sel"]] = adr, we, self.selall
                v[X["dat_w"]] = 0x80 | adr if we else 0
            v[X["cti"]] = v[X["bte"]] = 0
        for j, X in enumerate(self.S):
            v[X["ack"]] = v[X["err"]] = 0
            v[X["dat_r"]] = self.ones

    def react(self, v, env, ch):
        mc, sc, kill = ch
        changed = False
        for j, X in enumerate(self.S):
            vis = v[X["cyc"]] and v[X["stb"]]
            dead = env[1][j][1] or kill == j
            a = 1 if (vis and not dead and sc[j] == "a") else 0
            e = 1 if (vis and not dead and sc[j] == "e") else 0
            dr = ((j << 6) | (v[X["adr"]] & 0x3F)) if (a or e) else self.ones
            if (v[X["ack"]], v[X["err"]], v[X["dat_r"]]) != (a, e, dr):
                v[X["ack"]], v[X["err"]], v[X["dat_r"]] = a, e, dr
                changed = True
        return changed

    # ---- monitors -----------------------------------------------------------------------------------
    def observe(self, v, env, ch):
        mc, sc, kill = ch
        masters, slaves, owners, ages = env
        reqs = [self.req_of(env, ch, m) for m in range(self.nm)]
        nreq = sum(r is not None for r in reqs)
        if nreq > 1:
            self.cov["collisions"] += 1
        # what every slave port shows
        shown = []
        for j, X in enumerate(self.S):
            cyc, stb = v[X["cyc"]], v[X["stb"]]
            if cyc and stb:
                adr = v[X["adr"]]
                m = (adr >> 1) & 3
                r = reqs[m] if m < self.nm else None
                exp_adr = None if r is None else ((r[0] << 4) | (m << 1) | r[2])
                if r is None or exp_adr != adr or v[X["we"]] != r[1] or (r[1] and v[X["dat_w"]] != (0x80 | adr)) or v[X["sel"]] != self.selall:
                    return env, ("route.mutex", f"slave {j} sees a request (adr={adr:#x}, we={v[X['we']]}) that is not the request of exactly one master ({reqs})"), 0
                if self.decoded and r[0] != j:
                    return env, ("route.wrong_slave", f"request of master {m} for window {r[0]} presented to slave {j}"), 0
                shown.append(m)
            else:
                shown.append(-1)
                if cyc and self.decoded:
                    # cyc alone: a bus cycle addressed to this slave must belong to a master with an open cycle for it
                    if not any(r is not None and r[0] == j for r in reqs) and not any(mc[m][0] == "pause" and masters[m][1] == j for m in range(self.nm)):
                        return env, ("route.cyc", f"slave {j} sees cyc although no master addresses it"), 0
        # a paused master (cyc kept, stb low) still owns what it owned: nobody else may be served there meanwhile
        for m in range(self.nm):
            if mc[m][0] == "pause":
                tgp = masters[m][1]
                ports = range(self.ns) if self.kind in ("shared", "arbiter") else ([tgp] if tgp < self.ns else [])
                for j in ports:
                    if shown[j] >= 0 and shown[j] != m:
                        return env, ("own.stolen_in_pause", f"master {m} keeps cyc (stb low between two transfers) but slave port {j} serves master {shown[j]}"), 0
                self.cov["pauses"] = self.cov.get("pauses", 0) + 1
        # ownership
        owners2 = list(owners)
        for j in range(self.ns):
            o = owners[j]
            if o >= 0 and reqs[o] is not None and masters[o][0] == "R" and shown[j] != o:
                return env, ("own.stolen", f"slave {j}: open cycle of master {o} replaced by {shown[j]}"), 0
            owners2[j] = shown[j] if shown[j] >= 0 else -1
        # responses
        to_fired = 0
        err = None
        term = []
        flags = 0
        ages2 = list(ages)
        for m, X in enumerate(self.M):
            ack, er = v[X["ack"]], v[X["err"]]
            r = reqs[m]
            if r is None:
                if ack or er:
                    return env, ("resp.stray", f"master {m} is not requesting but sees ack={ack} err={er}"), 0
                term.append(False)
                ages2[m] = 0
                continue
            t = r[0]
            at_slave = t < self.ns and shown[t] == m if self.decoded else (shown[0] == m)
            jj = t if self.decoded else 0
            s_ack = at_slave and v[self.S[jj]["ack"]]
            s_err = at_slave and v[self.S[jj]["err"]]
            granted = True
            if self.grant is not None:
                granted = v[self.grant] == m
            elif self.kind == "crossbar":
                granted = at_slave or t >= self.ns
            expiry = self.has_timeout and granted and ages[m] >= self.timeout
            if expiry:
                self.cov["timeouts"] += 1
                if s_ack or s_err:
                    self.cov["expiry_coincidence"] += 1
                if not ack:
                    return env, ("timeout.late", f"master {m}: request on the bus for {ages[m]} cycles (time-out {self.timeout}) and not terminated"), 0
                if not r[1] and v[X["dat_r"]] != self.ones:
                    return env, ("timeout.data", f"master {m}: timed-out read returns {v[X['dat_r']]:#x}, not all-ones"), 0
                to_fired += 1
            else:
                if bool(ack) != bool(s_ack) or bool(er) != bool(s_err):
                    rule = "resp.lost" if (s_ack or s_err) else "resp.unsolicited"
                    return env, (rule, f"master {m}: ack/err={ack}/{er} but its slave answers ack/err={int(bool(s_ack))}/{int(bool(s_err))} (request at slave: {at_slave})"), 0
                if ack and not r[1]:
                    exp = (jj << 6) | ((t << 4) | (m << 1) | r[2])
                    if v[X["dat_r"]] != exp:
                        return env, ("resp.data", f"master {m}: read data {v[X['dat_r']]:#x}, slave {jj} answered {exp:#x}"), 0
            done = bool(ack or er)
            term.append(done)
            if self.timeout is not None and not self.has_timeout and granted and not done and ages[m] > self.timeout + 1:
                return env, ("timeout.ignored", f"master {m}: granted request pending for {ages[m]} cycles although timeout_cycles={self.timeout} is configured"), 0
            ages2[m] = 0 if (done or not granted) else min(ages[m] + 1, (self.timeout or 0) + 3)
            flags |= WAITBIT << m
            if done:
                flags |= SERVEDBIT << m | PROGRESS
        if self.error is not None:
            if v[self.error] != (1 if to_fired else 0):
                return env, ("timeout.error_pulse", f"error={v[self.error]} but {to_fired} request(s) timed out in this cycle"), 0
        # bounded waiting: while m waits, every other master completes at most one bus cycle on the contended resource
        masters2 = []
        coop = nreq > 0
        for m, (ph, tg, we, tag, od) in enumerate(masters):
            r = reqs[m]
            c = mc[m]
            if r is None:
                if c[0] == "pause":
                    masters2.append(("P", tg, 0, tag, 0))
                    coop = False                   # holds the bus without using it
                else:
                    masters2.append(("I", 0, 0, tag, 0))
                continue
            if ph in ("T", "P") and c[0] == "req":
                coop = False                       # keeps cyc across transfers: owns the bus by Wishbone's rules
                self.cov["back_to_back"] += 1
                # the bus cycle (cyc period) continues: the master must still own what it owned
                same = self.kind in ("shared", "arbiter") or (self.kind == "crossbar" and r[0] == tg)
                if same and (r[0] < self.ns if self.decoded else True):
                    jj = r[0] if self.decoded else 0
                    if shown[jj] != m:
                        return env, ("own.cycle_broken", f"master {m} keeps cyc for a back-to-back transfer but slave port {jj} shows {shown[jj]}"), 0
            od2 = od
            if not term[m]:
                for o in range(self.nm):
                    if o != m and term[o] and (self.kind != "crossbar" or reqs[o][0] == r[0]):
                        od2 += 1
                if od2 > self.cov["max_wait"]:
                    self.cov["max_wait"] = od2
                if od2 > self.nm - 1 and not self.b2b_seen(masters, mc):
                    return env, ("wait.unbounded", f"master {m} waits while other masters completed {od2} bus cycles"), 0
                masters2.append(("R", r[0], r[1], r[2], min(od2, self.nm)))
                stuck = (r[0] >= self.ns or slaves[r[0]][1] or kill == r[0]) if self.decoded else (slaves[0][1] or kill == 0)
                if stuck and not self.has_timeout:
                    coop = False                   # nobody can answer: without a time-out this legitimately blocks
            else:
                masters2.append(("T", r[0], 0, tag ^ 1, 0))
        slaves2 = []
        for j, (lat, dead) in enumerate(slaves):
            dead2 = 1 if (dead or kill == j) else 0
            if shown[j] >= 0 and sc[j] == "w" and not dead2:
                if lat >= self.maxlat:
                    pass
                slaves2.append((min(lat + 1, self.maxlat), dead2))
                coop = False                       # a slave that waits is not cooperating in this step
            else:
                slaves2.append((0, dead2))
        if coop:
            flags |= COOP
        return (tuple(masters2), tuple(slaves2), tuple(owners2), tuple(ages2)), None, flags

    def b2b_seen(self, masters, mc):
        # with back-to-back transfers a master may legitimately keep the bus for many transfers
        return self.b2b

    def cover_report(self):
        return dict(self.cov)

    def vacuity(self):
        if self.nm > 1 and not self.cov["collisions"]:
            return "no simultaneous requests"
        if self.has_timeout and not self.cov["timeouts"]:
            return "time-out never expired"
        return None
