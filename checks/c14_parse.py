"""C14 helper: independent parsers for what litex.soc.integration.export emits (CSV, C headers, SVD), plus a translator
that turns the *generated accessor text* of csr.h into executable Python so that multi-word composition (shift amounts,
order of accesses, masks, field extract/replace) is the exporter's and not re-implemented here."""
import re
import json
import xml.etree.ElementTree as ET


class ParseError(Exception):
    pass


# ------------------------------------------------------------------------------------------------------------------
# CSV
# ------------------------------------------------------------------------------------------------------------------
def parse_csv(text):
    out = dict(csr_bases={}, csr_registers={}, constants={}, memories={})
    for ln in text.splitlines():
        if not ln.strip() or ln.startswith("#"):
            continue
        f = ln.split(",")
        if len(f) != 5:
            raise ParseError(f"csv line with {len(f)} columns: {ln!r}")
        kind, name, a, b, c = f
        if kind == "csr_base":
            out["csr_bases"][name] = int(a, 16)
        elif kind == "csr_register":
            out["csr_registers"][name] = dict(addr=int(a, 16), size=int(b), type=c)
        elif kind == "constant":
            out["constants"][name] = a
        elif kind == "memory_region":
            out["memories"][name] = dict(base=int(a, 16), size=int(b), type=c)
        else:
            raise ParseError(f"unknown csv row kind {kind!r}")
    return out


# ------------------------------------------------------------------------------------------------------------------
# C headers
# ------------------------------------------------------------------------------------------------------------------
_CT = {"uint8_t": 8, "uint16_t": 16, "uint32_t": 32, "uint64_t": 64}
_NUM = re.compile(r"\b(0[xX][0-9a-fA-F]+|\d+)[uUlL]*\b")


def _cexpr(e, env):
    """Evaluates a constant C expression made of numbers, + - * << >> | & ~ ( ) and previously defined macros."""
    e = _NUM.sub(lambda m: m.group(1), e)
    def sub(m):
        n = m.group(0)
        if n in env:
            return str(env[n])
        raise ParseError(f"unknown identifier {n} in {e!r}")
    e2 = re.sub(r"\b[A-Za-z_]\w*\b", sub, e)
    if not re.fullmatch(r"[0-9a-fA-FxX\s+\-*<>|&~()]*", e2):
        raise ParseError(f"unsupported constant expression {e!r}")
    return eval(e2, {"__builtins__": {}})


def parse_defines(text, preset=None):
    """#define NAME expr  ->  {NAME: int | str | None}.  `#ifndef X / #define X v / #endif` guards are honoured with
    `preset` acting as definitions made before the header is included."""
    env = dict(preset or {})
    raw = {}
    skip = []
    for ln in text.splitlines():
        s = ln.strip()
        m = re.match(r"#\s*ifndef\s+(\w+)", s)
        if m:
            skip.append(m.group(1) in env)
            continue
        m = re.match(r"#\s*if\b", s)
        if m:
            skip.append(False)
            continue
        if re.match(r"#\s*endif", s):
            if skip:
                skip.pop()
            continue
        if any(skip):
            continue
        m = re.match(r"#\s*define\s+(\w+)(?:\s+(.*))?$", s)
        if not m:
            continue
        name, val = m.group(1), m.group(2)
        if val is None or val.strip() == "":
            env[name] = None
            raw[name] = None
            continue
        val = val.strip()
        raw[name] = val
        if val.startswith('"'):
            env[name] = val[1:-1] if val.endswith('"') else val[1:]
        else:
            try:
                env[name] = _cexpr(val, env)
            except ParseError:
                env[name] = val
    return env, raw


_FN = re.compile(r"static inline\s+(const char \*|\w+)\s*(\w+)\(([^)]*)\)\s*\{\n(.*?)\n\}", re.S)


class CHeader:
    """csr.h: defines + accessor functions translated to Python.

    Every generated function `T name(args)` becomes `name(io, *args)`; `csr_read_simple(a)` -> io.read(a),
    `csr_write_simple(v, a)` -> io.write(v & 0xffffffff, a) (MMPTR is a volatile uint32_t store).  Declared variables,
    parameters and return values are truncated to their C type."""
    def __init__(self, text):
        self.text = text
        self.env, self.raw = parse_defines(text)
        self.fn_src = {}
        self.fn_sig = {}
        names = [m.group(2) for m in _FN.finditer(text)]
        self.ns = {"_m": lambda x, w: x & ((1 << w) - 1)}
        for m in _FN.finditer(text):
            ret, name, params, body = m.groups()
            self.fn_sig[name] = (ret, params)
            self.fn_src[name] = self._translate(ret, name, params, body, names)
        for name, src in self.fn_src.items():
            try:
                exec(compile(src, f"<csr.h:{name}>", "exec"), self.ns)
            except SyntaxError as e:
                raise ParseError(f"accessor {name} is outside the generated-accessor grammar: {e}\n{src}")

    def _expr(self, e, names):
        e = _NUM.sub(lambda m: m.group(1), e)
        e = e.replace("csr_read_simple(", "io.read(").replace("csr_write_simple(", "io.write(")
        for n in names:
            e = re.sub(r"\b%s\(\s*\)" % re.escape(n), f"{n}(io)", e)
            e = re.sub(r"\b%s\((?!io)" % re.escape(n), f"{n}(io, ", e)
        def macro(m):
            n = m.group(0)
            v = self.env.get(n)
            return str(v) if isinstance(v, int) else n
        return re.sub(r"\b[A-Z_][A-Z0-9_]*\b", macro, e)

    def _translate(self, ret, name, params, body, names):
        types = {}
        args = []
        pre = []
        params = params.strip()
        if params and params != "void":
            for p in params.split(","):
                t, a = p.strip().rsplit(" ", 1)
                t = t.strip()
                if t not in _CT:
                    raise ParseError(f"{name}: parameter type {t!r}")
                types[a] = _CT[t]
                args.append(a)
                pre.append(f"    {a} = _m({a}, {_CT[t]})")
        out = [f"def {name}(io{''.join(', ' + a for a in args)}):"] + pre
        for ln in body.splitlines():
            s = ln.strip()
            if not s:
                continue
            if not s.endswith(";"):
                raise ParseError(f"{name}: statement {s!r}")
            s = s[:-1].strip()
            m = re.match(r"(uint\d+_t)\s+(\w+)\s*=\s*(.*)$", s)
            if m:
                t, v, e = m.groups()
                types[v] = _CT[t]
                out.append(f"    {v} = _m({self._expr(e, names)}, {_CT[t]})")
                continue
            m = re.match(r"(\w+)\s*(<<=|>>=|\|=|&=|\^=|\+=|=)\s*(.*)$", s)
            if m and m.group(1) in types:
                v, op, e = m.groups()
                out.append(f"    {v} {op} {self._expr(e, names)}")
                out.append(f"    {v} = _m({v}, {types[v]})")
                continue
            m = re.match(r"return\s+(.*)$", s)
            if m:
                if ret not in _CT:
                    raise ParseError(f"{name}: return type {ret!r}")
                out.append(f"    return _m({self._expr(m.group(1), names)}, {_CT[ret]})")
                continue
            if re.match(r"\w+\(.*\)$", s):
                out.append(f"    {self._expr(s, names)}")
                continue
            raise ParseError(f"{name}: statement {s!r} is outside the generated-accessor grammar")
        if len(out) == 1 + len(pre):
            out.append("    pass")
        return "\n".join(out)

    def has(self, name):
        return name in self.fn_src

    def call(self, name, io, *args):
        return self.ns[name](io, *args)


class RecordIO:
    """io object that records the accesses an accessor makes; reads return queued values (or 0)."""
    def __init__(self, values=None):
        self.ops = []
        self.values = list(values or [])
        self.k = 0

    def read(self, a):
        self.ops.append(("r", a & 0xFFFFFFFF))
        v = self.values[self.k] if self.k < len(self.values) else 0
        self.k += 1
        return v

    def write(self, v, a):
        self.ops.append(("w", a & 0xFFFFFFFF, v & 0xFFFFFFFF))


def parse_mem_header(text):
    env, raw = parse_defines(text)
    regs = {}
    for k, v in env.items():
        if k.endswith("_BASE") and (k[:-5] + "_SIZE") in env:
            regs[k[:-5].lower()] = dict(base=v, size=env[k[:-5] + "_SIZE"])
    listing = {}
    s = env.get("MEM_REGIONS")
    if isinstance(s, str):
        for part in s.split("\\n"):
            f = part.split()
            if len(f) == 3:
                listing[f[0].lower()] = dict(base=int(f[1], 16), size=int(f[2], 16))
    return regs, listing


def parse_linker_regions(text):
    """MEMORY { name : ORIGIN = 0x..., LENGTH = 0x... }  ->  {name: (origin, length)}"""
    m = re.search(r"MEMORY\s*\{(.*?)\}", text, re.S)
    if not m:
        raise ParseError("no MEMORY block in linker regions")
    out = {}
    for ln in m.group(1).splitlines():
        if not ln.strip():
            continue
        mm = re.match(r"\s*(\w+)\s*:\s*ORIGIN\s*=\s*(0x[0-9a-fA-F]+)\s*,\s*LENGTH\s*=\s*(0x[0-9a-fA-F]+)\s*$", ln)
        if not mm:
            raise ParseError(f"linker region line {ln!r}")
        out[mm.group(1).lower()] = (int(mm.group(2), 16), int(mm.group(3), 16))
    return out


def parse_soc_header(text):
    env, raw = parse_defines(text)
    env = {k: v for k, v in env.items() if not k.startswith("__")}
    return env


# ------------------------------------------------------------------------------------------------------------------
# SVD
# ------------------------------------------------------------------------------------------------------------------
def parse_svd(text):
    root = ET.fromstring(text)
    per = {}
    for p in root.find("peripherals").findall("peripheral"):
        name = p.findtext("name")
        regs = []
        for r in p.find("registers").findall("register"):
            fields = []
            fe = r.find("fields")
            if fe is not None:
                for f in fe.findall("field"):
                    fields.append(dict(name=f.findtext("name"), lsb=int(f.findtext("lsb")), msb=int(f.findtext("msb")),
                                       range=f.findtext("bitRange")))
            regs.append(dict(name=r.findtext("name"), offset=int(r.findtext("addressOffset"), 16),
                             size=int(r.findtext("size")), fields=fields))
        irq = None
        ie = p.find("interrupt")
        if ie is not None:
            irq = (ie.findtext("name"), int(ie.findtext("value")))
        per[name] = dict(base=int(p.findtext("baseAddress"), 16), registers=regs, interrupt=irq)
    mems, consts = {}, {}
    ve = root.find("vendorExtensions")
    if ve is not None:
        mr = ve.find("memoryRegions")
        if mr is not None:
            for r in mr.findall("memoryRegion"):
                mems[r.findtext("name").lower()] = dict(base=int(r.findtext("baseAddress"), 16), size=int(r.findtext("size"), 16))
        ce = ve.find("constants")
        if ce is not None:
            for c in ce.findall("constant"):
                consts[c.get("name")] = c.get("value")
    return dict(peripherals=per, memories=mems, constants=consts)
