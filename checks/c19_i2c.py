"""C19 — I2C part: the real I2CMaster (Wishbone register front end + I2CMasterMachine + open-drain pad logic) driven by command scripts,
observed on the two bus lines by an I2C bit-level monitor (UM10204: SDA may change only while SCL is low, except START = SDA falling and
STOP = SDA rising while SCL is high; 9 clocks per byte, MSB first, 9th = acknowledge driven by the receiver)."""
import fsmc  # noqa
from migen import *
from migen.fhdl.specials import Tristate
from fsmc.explore import Harness
from fsmc.design import MachineryError

BUSY = 8
I2C_ACK, I2C_READ, I2C_WRITE, I2C_START, I2C_STOP, I2C_IDLE = (1 << i for i in range(8, 14))


class _Pads:
    def __init__(self):
        self.scl = Signal(name="pad_scl")
        self.sda = Signal(name="pad_sda")


class _OpenDrainImpl(Module):
    def __init__(self, t):
        t.i_ext = Signal(reset=1, name="ext_drive")        # level the rest of the bus (pull-up / slave) puts on the wire
        self.comb += [
            If(t.oe, t.target.eq(t.o), t.i.eq(t.o)).Else(t.target.eq(t.i_ext), t.i.eq(t.i_ext)),
        ]


class _OpenDrain:
    @staticmethod
    def lower(t):
        return _OpenDrainImpl(t)


class I2CHarness(Harness):
    """env = (boot, bus, cmd, lines, can)
       boot : 0 clock divider not yet written, 1 running
       bus  : None | ("a", expected dat_r or None) second (acknowledge) cycle of a Wishbone access
       cmd  : None | (kind, a, b, rises, pulses, conds, age, scl0, sda0, sampled)  command being executed, from the cycle its strobe reaches the machine
       lines: (scl, sda) bus levels of the previous cycle; can: machine reported idle in the previous cycle"""
    special_overrides = {Tristate: _OpenDrain}
    live_queries = (("i2c.stuck", BUSY, 0, (), "the machine never returns to idle although no new command is written"),)

    def __init__(self, name, load=1, wbytes=(0xA5, 0x5A, 0x00, 0xFF), rbytes=(0xC3, 0x3C, 0x00, 0xFF), free_read_order=False):
        self.name, self.load, self.wbytes, self.rbytes = name, load, tuple(wbytes), tuple(rbytes)
        self.free_read_order = free_read_order
        self.done = {}
        self.conds = {"S": 0, "Sr": 0, "P": 0}

    def build(self):
        from litex.soc.cores.i2c import I2CMaster
        self.pads = _Pads()
        self.dut = I2CMaster(self.pads)
        return self.dut

    def bind(self, D):
        d, b, m = self.dut, self.dut.bus, self.dut.i2c
        g = D.i
        self.b = dict(cyc=g(b.cyc), stb=g(b.stb), we=g(b.we), adr=g(b.adr), dat_w=g(b.dat_w), dat_r=g(b.dat_r), ack=g(b.ack), sel=g(b.sel))
        self.i = dict(idle=g(m.idle), data=g(m.data), ackbit=g(m.ack), load=g(m.cg.load), scl_oe=g(d.scl_t.oe), sda_oe=g(d.sda_t.oe),
                      scl_ext=g(d.scl_tristate.i_ext), sda_ext=g(d.sda_tristate.i_ext), scl_o=g(m.scl_o))

    def env_init(self):
        return (0, None, None, (1, 1), 0)

    # -- environment ----------------------------------------------------------------------------
    def choices(self, env):
        boot, bus, cmd, lines, can = env
        if bus is not None:
            return [("k",)]
        if boot == 0:
            return [("cfg", self.load)]
        out = [("i",)]
        if can and cmd is None:
            scl, sda = lines
            out += [("S",), ("P",)]
            out += [("W", b, a) for b in self.wbytes for a in (0, 1)]
            if scl == 0 or self.free_read_order:
                out += [("R", a, s) for a in (0, 1) for s in self.rbytes]
            out += [("rd", 0), ("rd", 1)]
        return out

    def _word(self, ch):
        k = ch[0]
        if k == "S":
            return I2C_START
        if k == "P":
            return I2C_STOP
        if k == "W":
            return I2C_WRITE | ch[1]
        if k == "R":
            return I2C_READ | (I2C_ACK if ch[1] else 0)
        raise MachineryError(k)

    def _slave_sda(self, v, env, ch):
        """level the slave puts on SDA: it answers only in the acknowledge slot of a write and in the data slots of a read, and moves to the
        next slot in the cycle in which SCL is seen low after a clock pulse"""
        cmd, lines = env[2], env[3]
        if cmd is None:
            return 1
        kind, a, b, rises, pulses = cmd[:5]
        scl_now = 0 if v[self.i["scl_oe"]] else 1
        if lines[0] == 1 and scl_now == 0 and rises > pulses:
            pulses += 1
        if kind == "W":
            return 0 if (pulses == 8 and b) else 1
        if kind == "R":
            return (b >> (7 - pulses)) & 1 if pulses < 8 else 1
        return 1

    def drive(self, v, env, ch):
        b, i = self.b, self.i
        boot, bus, cmd, lines, can = env
        v[b["cyc"]] = v[b["stb"]] = v[b["we"]] = v[b["adr"]] = v[b["dat_w"]] = 0
        v[b["sel"]] = 0xF
        k = ch[0]
        if k == "k":
            # second cycle of the access: the master keeps the request until it sees ack
            op = bus[2]
            v[b["cyc"]] = v[b["stb"]] = 1
            v[b["we"]], v[b["adr"]], v[b["dat_w"]] = op
        elif k == "cfg":
            v[b["cyc"]] = v[b["stb"]] = v[b["we"]] = 1
            v[b["adr"]], v[b["dat_w"]] = 1, ch[1]
        elif k == "rd":
            v[b["cyc"]] = v[b["stb"]] = 1
            v[b["adr"]] = ch[1]
        elif k != "i":
            v[b["cyc"]] = v[b["stb"]] = v[b["we"]] = 1
            v[b["adr"]], v[b["dat_w"]] = 0, self._word(ch)
        v[i["scl_ext"]] = 1                     # no clock stretching
        v[i["sda_ext"]] = self._slave_sda(v, env, ch)

    # -- monitor ---------------------------------------------------------------------------------
    def observe(self, v, env, ch):
        b, i = self.b, self.i
        boot, bus, cmd, (pscl, psda), can = env
        scl = 0 if v[i["scl_oe"]] else 1
        sda = 0 if v[i["sda_oe"]] else v[i["sda_ext"]]
        idle = v[i["idle"]]
        k = ch[0]
        # Wishbone handshake
        if k == "k":
            if not v[b["ack"]]:
                return env, ("i2c.bus.ack", "no Wishbone ack in the cycle after the request"), 0
            if bus[1] is not None and v[b["dat_r"]] != bus[1]:
                return env, ("i2c.bus.dat_r", f"register read returns {v[b['dat_r']]:#x}, expected {bus[1]:#x} (data | ack<<8 | idle<<13, or the clock load value)"), 0
        elif v[b["ack"]]:
            return env, ("i2c.bus.ack", "Wishbone ack without a request"), 0
        # line rules
        if scl != pscl and sda != psda:
            return env, ("i2c.lines.simultaneous", f"SCL {pscl}->{scl} and SDA {psda}->{sda} change in the same cycle"), 0
        cond = None
        if scl and pscl and sda != psda:
            cond = "S" if sda == 0 else "P"
        rising = scl and not pscl
        falling = pscl and not scl
        if cmd is None:
            if cond or rising or falling:
                return env, ("i2c.lines.spontaneous", f"bus lines move (SCL {pscl}->{scl}, SDA {psda}->{sda}) although no command is being executed"), 0
            if not idle and bus is None and boot and k in ("i",):
                return env, ("i2c.idle", "idle = 0 without a command"), 0
            cmd2 = None
        else:
            kind, a, bb, rises, pulses, conds, age, scl0, sda0, sampled = cmd
            age += 1
            if cond:
                ok = (kind == "S" and cond == "S" and conds == 0 and not (scl0 == 1 and sda0 == 0)) or (kind == "P" and cond == "P" and conds == 0 and scl0 == 0)
                if not ok:
                    return env, ("i2c.lines.illegal_condition", f"{'START' if cond == 'S' else 'STOP'} condition (SDA {psda}->{sda} while SCL high) during command {kind}"
                                                                f" (bus was SCL={scl0} SDA={sda0} when it was issued)"), 0
                conds += 1
                self.conds["P" if cond == "P" else ("Sr" if scl0 == 0 else "S")] += 1
            if falling and rises > pulses:
                pulses += 1
            if rising:
                if kind == "W":
                    if rises < 8:
                        eb = (a >> (7 - rises)) & 1
                        if sda != eb:
                            return env, ("i2c.write.bit", f"write {a:#04x}: SDA = {sda} at clock {rises + 1}, expected bit {7 - rises} = {eb}"), 0
                    elif rises == 8:
                        if v[i["sda_oe"]]:
                            return env, ("i2c.write.ack_slot", "the master drives SDA low during the acknowledge clock of a write"), 0
                        sampled = sda
                elif kind == "R":
                    if rises < 8:
                        if v[i["sda_oe"]]:
                            return env, ("i2c.read.release", f"the master drives SDA low during data clock {rises + 1} of a read"), 0
                        sampled = (sampled << 1) | sda
                    elif rises == 8:
                        if sda != (0 if a else 1):
                            return env, ("i2c.read.ack", f"read with ack = {a}: SDA = {sda} during the acknowledge clock"), 0
                rises += 1
                lim = {"W": 9, "R": 9, "S": 1 if scl0 == 0 else 0, "P": 1 if scl0 == 0 else 0}[kind]
                if rises > lim:
                    return env, ("i2c.clocks", f"clock pulse {rises} during command {kind} (expected {lim})"), 0
            if age > 24*(self.load + 1) + 8:
                return env, ("i2c.timeout", f"command {kind} not finished after {age} cycles"), 0
            cmd2 = (kind, a, bb, rises, pulses, conds, age, scl0, sda0, sampled)
            if idle and age > 1:
                # command finished: totals
                lim = {"W": 9, "R": 9, "S": 1 if scl0 == 0 else 0, "P": 1 if scl0 == 0 else 0}[kind]
                if rises != lim:
                    return env, ("i2c.clocks", f"command {kind} finished after {rises} clock pulses, expected {lim}"), 0
                if kind in ("W", "R") and scl:
                    return env, ("i2c.clocks", f"command {kind} finished with SCL high"), 0
                want = 0
                if kind == "S":
                    want = 0 if (scl0 == 1 and sda0 == 0) else 1
                if kind == "P":
                    want = 1 if scl0 == 0 else 0
                if conds != want:
                    return env, ("i2c.condition_missing", f"command {kind} finished with {conds} START/STOP conditions on the bus, expected {want}"), 0
                if kind == "S" and not (scl == 1 and sda == 0):
                    return env, ("i2c.condition_missing", f"after start: SCL={scl} SDA={sda}"), 0
                if kind == "P" and scl0 == 0 and not (scl == 1 and sda == 1):
                    return env, ("i2c.condition_missing", f"after stop: SCL={scl} SDA={sda}"), 0
                if kind == "W" and v[i["ackbit"]] != (1 - sampled):
                    return env, ("i2c.write.ack_status", f"ack status = {v[i['ackbit']]} but SDA was {sampled} during the acknowledge clock"), 0
                if kind == "R" and v[i["data"]] != sampled:
                    return env, ("i2c.read.data", f"data register = {v[i['data']]:#04x}, the slave sent {sampled:#04x}"), 0
                self.done[kind] = self.done.get(kind, 0) + 1
                cmd2 = None
        # next
        bus2 = None
        boot2 = boot
        if k == "cfg":
            bus2 = ("a", None, (1, 1, ch[1]))
            boot2 = 1
        elif k == "rd":
            exp = v[i["load"]] if ch[1] else (v[i["data"]] | (v[i["ackbit"]] << 8) | (idle << 13))
            bus2 = ("a", exp, (0, ch[1], 0))
        elif k in ("S", "P", "W", "R"):
            bus2 = ("a", None, (1, 0, self._word(ch)))
            a_, b_ = (ch[1], ch[2]) if k in ("W", "R") else (0, 0)
            cmd2 = (k, a_, b_, 0, 0, 0, 0, scl, sda, 0)
        flags = 0 if (idle or cmd2 is None) else BUSY
        can2 = int(bool(idle)) if bus2 is None else 0
        return (boot2, bus2, cmd2, (scl, sda), can2), None, flags

    def cover_report(self):
        return dict(commands_completed=dict(sorted(self.done.items())), conditions=self.conds)

    def vacuity(self):
        for k in ("S", "P", "W", "R"):
            if not self.done.get(k):
                return f"no {k} command completed"
        if not self.conds["Sr"] or not self.conds["P"]:
            return "no repeated start / stop seen"
        return None
