"""C20, Efinix helpers (litex/soc/cores/clock/efinix.py: EFINIXPLL / TRIONPLL / TITANIUMPLL).

The real classes only need a platform OBJECT; what needs an Efinity installation is `EfinixPlatform.__init__` (tool
discovery, device data base).  `StubPlatform` below is the real `EfinixPlatform` with that constructor replaced: every
method the PLL helpers call (get_pin_name / get_pin_location / get_pin_properties / add_iface_io / get_free_pll_resource /
add_extension / request) is the repository's own code, the interface writer is the real `InterfaceWriter` (pure
Python), the clock input is an internal ("CORE") signal so that no pin data base is consulted.  It is a harness, not a
model of the PLL.

Trion (version "V1_V2") with one output declared `is_feedback=True` is the only case in which LiteX computes dividers
(`EFINIXPLL.compute_config`); the relations are the ones the comments of that function quote from the Trion data sheet:

    fPFD = fin / N                      N  in 1..15
    fVCO = fPFD * M * O * Cfbk          M  in 1..255,  O in {1, 2, 4, 8},  M * O * Cfbk <= 255
    fPLL = fVCO / O
    fout_i = fPLL / C_i                 C_i in get_c_range(device, phase_i)  (a subset of 1..256),  Cfbk = C_feedback
                                        => the feedback output runs at fin * M / N

with the PFD / VCO / PLL windows of the class's own get_pfd/vco/pll_freq_range tables.  `search` below is the independent
reference (a plain nested loop N -> M -> Cfbk -> C_i by interval intersection -> O, pruned differently from
compute_config, exact rationals, same tolerance policy as c20_ref.py), `verify` re-checks a returned configuration.

Without a feedback output (Trion) and for Titanium (version "V3") LiteX computes nothing: the request is written into
the Efinity interface script and the vendor tool's auto_calc_pll_clock derives the dividers.  Those requests are
"pass-through": it is only checked that no configuration is invented and that the script carries the request unchanged."""
import fsmc  # noqa: F401
import io, re, contextlib, logging
from fractions import Fraction as Fr
from bisect import bisect_left
from math import ceil

from migen import Signal, ClockDomain
from migen.fhdl import tracer as _tracer

from checks.c20_ref import fr, representable, Lazy, TRUE, WIDE, EPS, _s
from checks.c20_families import Family, Result, Timeout, watchdog, close, as_exact_number, num_eq


# ---------------------------------------------------------------------------------------------------------------------
# harness
class _Toolchain:
    """the attributes of EfinityToolchain that the PLL helpers and InterfaceWriter.generate_pll touch (the real class
    exports EFXPT_HOME into the environment from its constructor, the only reason it is not used directly)"""
    def __init__(self):
        from litex.build.efinix.ifacewriter import InterfaceWriter
        self.ifacewriter = InterfaceWriter("")
        self.excluded_ios = []
        self.additional_sdc_commands = []
        self.additional_iface_commands = []


def stub_platform(part):
    from litex.build.generic_platform import GenericPlatform
    from litex.build.efinix.platform import EfinixPlatform

    class StubPlatform(EfinixPlatform):
        def __init__(self, part):
            GenericPlatform.__init__(self, part, [], name="c20_efinix")
            # the part of EfinixPlatform.__init__ that does not need the tools, verbatim
            self.timing_model = self.device[-2:]
            self.device = self.device[:-2]
            self.clks = {}
            if self.device[:2] == "Ti":
                self.family = "Titanium"
            elif self.device[:2] == "Tz":
                self.family = "Topaz"
            else:
                self.family = "Trion"
            self.toolchain = _Toolchain()
            self.parser = None                       # pin data base: never consulted for a CORE clock input
            self.pll_available = ["PLL_TL0", "PLL_TR0", "PLL_BL0"]
            self.pll_used = []
    return StubPlatform(part)


_SETPROP = re.compile(r'design\.set_property\("([^"]*)",\s*"([^"]*)",\s*"([^"]*)",\s*(?:block_type=)?"PLL"\)')
_CFGDICT = re.compile(r'pll_config = \{(.*?)\}')
_KV = re.compile(r'"([^"]+)"\s*:\s*"([^"]*)"')


def script_props(text, name):
    """{property: [values...]} of every design.set_property / pll_config / target_freq entry of one PLL block"""
    props = {}
    for blk, k, v in _SETPROP.findall(text):
        if blk == name:
            props.setdefault(k, []).append(v)
    for body in _CFGDICT.findall(text):
        for k, v in _KV.findall(body):
            props.setdefault(k, []).append(v)
    m = re.search(r'target_freq = \{(.*?)\n\}', text, re.S)
    if m:
        for k, v in _KV.findall(m.group(1)):
            props.setdefault("target." + k, []).append(v)
    return props


# ---------------------------------------------------------------------------------------------------------------------
# reference
class Limits:
    """legal parameter space.  N / M / O / the M*O*Cfbk product are the literals of compute_config (and of the data
    sheet relations it quotes); the frequency windows and the per-phase C menu are the class's declared tables."""
    N = range(1, 16)
    M = range(1, 256)
    O = (1, 2, 4, 8)
    C = range(1, 257)
    MOC_MAX = 255

    def __init__(self, pll, device):
        self.pfd = tuple(fr(x) for x in pll.get_pfd_freq_range(device))
        self.vco = tuple(fr(x) for x in pll.get_vco_freq_range(device))
        self.pll = tuple(fr(x) for x in pll.get_pll_freq_range(device))
        self._pll, self._dev, self._c = type(pll), device, {}      # the tables are static methods

    def c_menu(self, phase):
        """dividers the class declares for an output with this phase ([] when the phase is not in its table)"""
        if phase not in self._c:
            try:
                self._c[phase] = sorted(int(c) for c in self._pll.get_c_range(self._dev, phase))
            except (KeyError, TypeError):
                self._c[phase] = []
        return self._c[phase]

    def o_menu(self, nouts):
        # compute_config: "if n_out > 1: O_fact = [2, 4, 8]" - the post divider 1 is only offered to a single output.
        # Mirrored for the completeness side (a literal of the source, like the Gowin lattices); a RETURNED
        # configuration is accepted with any O of the data sheet set.
        return self.O if nouts == 1 else self.O[1:]


def verify(L, fin, outs, fb, N, M, O, Cs, tol=WIDE):
    """soundness of one returned setting -> [(rule, msg)]"""
    bad = []
    fin = fr(fin)
    if N not in L.N:
        bad.append(("range.indiv", "pre-divider N = %r outside 1..15" % (N,)))
    if M not in L.M:
        bad.append(("range.mult", "multiplier M = %r outside 1..255" % (M,)))
    if O not in L.O:
        bad.append(("range.postdiv", "post-divider O = %r not one of 1, 2, 4, 8" % (O,)))
    for i, ((f, p, m), c) in enumerate(zip(outs, Cs)):
        if c not in L.C:
            bad.append(("range.outdiv", "output %d divider C = %r outside 1..256" % (i, c)))
        elif c not in L.c_menu(p):
            bad.append(("range.phasediv", "output %d divider C = %r but phase %g only allows %s" % (
                i, c, p, (L.c_menu(p) if len(L.c_menu(p)) <= 8 else "1..256"))))
    if N <= 0 or O <= 0 or any(c <= 0 for c in Cs):
        return bad
    cf = Cs[fb]
    if M * O * cf > L.MOC_MAX:
        bad.append(("range.moc", "M*O*Cfbk = %d*%d*%d = %d exceeds 255" % (M, O, cf, M * O * cf)))
    pfd = fin / N
    vco = pfd * M * O * cf
    fpll = vco / O
    for rule, what, x, rng in (("range.pfd", "fPFD = fin/N", pfd, L.pfd), ("range.vco", "fVCO = fPFD*M*O*Cfbk", vco, L.vco),
                               ("range.pll", "fPLL = fVCO/O", fpll, L.pll)):
        if not tol.inside(x, rng, TRUE):
            bad.append((rule, "%s = %.6f MHz outside declared [%g, %g] MHz" % (what, float(x) / 1e6, float(rng[0]) / 1e6, float(rng[1]) / 1e6)))
    for i, ((f, p, m), c) in enumerate(zip(outs, Cs)):
        out = fpll / c
        if not tol.within(out, fr(f), fr(m), TRUE):
            bad.append(("sound.margin", "output %d%s: fPLL/C = fin/N*M*Cfbk/C = %.6f MHz vs requested %.6f MHz: error %.3e > margin %.3e" % (
                i, " (feedback)" if i == fb else "", float(out) / 1e6, float(f) / 1e6, float(abs(out - fr(f)) / fr(f)), float(m))))
    return bad


def _first_int_in(menu, lo, hi):
    """smallest element of the sorted integer list inside the rational interval [lo, hi] (hi None: unbounded)"""
    k = bisect_left(menu, ceil(lo))
    if k < len(menu) and (hi is None or menu[k] <= hi):
        return menu[k]
    return None


def search(L, fin, outs, fb, tol):
    """independent decision procedure: a witness dict or None.
    N -> M (the feedback output runs at fin*M/N whatever the dividers) -> Cfbk -> every other C_i by intersecting its
    admissible interval with the phase's divider menu -> O.  No pruning is shared with compute_config (which enumerates
    (O, Cfbk) pairs against the VCO window first and derives an M window from them)."""
    fin = fr(fin)
    if fin <= 0 or not outs or not (0 <= fb < len(outs)):
        return None
    f_fb, p_fb, m_fb = fr(outs[fb][0]), outs[fb][1], fr(outs[fb][2])
    if f_fb <= 0 or any(o[0] <= 0 for o in outs):
        return None
    menus = [L.c_menu(p) for f, p, m in outs]              # sorted integer lists
    if any(not mn for mn in menus):
        return None
    pll_lo, pll_hi = L.pll[0] * (1 - 4 * EPS), L.pll[1] * (1 + 4 * EPS)      # coarse skip only; decided exactly below
    others = [(i, fr(f), fr(m)) for i, (f, p, m) in enumerate(outs) if i != fb]
    for N in L.N:
        pfd = fin / N
        if not tol.inside(pfd, L.pfd, Lazy(lambda: representable(pfd))):
            continue
        m_lo = max(L.M[0], int(f_fb * (1 - m_fb) / pfd) - 1)
        m_hi = min(L.M[-1], int(f_fb * (1 + m_fb) / pfd) + 2)
        for M in range(m_lo, m_hi + 1):
            fbout = pfd * M
            if not tol.within(fbout, f_fb, m_fb, TRUE):          # optimistic filter; decided with the real clause below
                continue
            for cf in menus[fb]:
                fpll = fbout * cf
                if fpll < pll_lo:
                    continue
                if fpll > pll_hi:
                    break
                picks = {fb: (Fr(cf), Fr(cf), cf, False)}
                for i, f, m in others:
                    lo, hi, point = tol.div_interval(fpll, f, m)
                    d = _first_int_in(menus[i], lo, hi)
                    if d is None:
                        break
                    picks[i] = (lo, hi, d, point)
                else:
                    # exactness clause: the intermediates of the helper's float evaluation up to the value compared -
                    # fin/n, *m, (*o: a power of two), *c, /o for every test; additionally /cx for the output tested
                    ex = Lazy(lambda: all(representable(x) for x in (pfd, fbout, fpll)))
                    if not tol.within(fbout, f_fb, m_fb, ex):
                        continue
                    if any(pt and not (ex() and representable(fpll / d)) for lo, hi, d, pt in picks.values()):
                        continue
                    if not tol.inside(fpll, L.pll, ex):
                        continue
                    for O in L.o_menu(len(outs)):
                        if M * O * cf > L.MOC_MAX:
                            continue
                        vco = fpll * O
                        if tol.inside(vco, L.vco, ex):
                            return dict(D=Fr(N), M=Fr(M), src=vco, pfd=pfd, fb=fb, postdiv_O=O, pll_hz=float(fpll),
                                        picks=[picks[i][:3] for i in range(len(outs))])
    return None


def brute(L, fin, outs, fb, tol=WIDE):
    """the dumbest possible decision procedure (every N, M, O, Cfbk, then every C per output), used by the self test of
    this module to validate `search`; not used by the check itself"""
    for N in L.N:
        for M in L.M:
            for O in L.o_menu(len(outs)):
                for cf in L.c_menu(outs[fb][1]):
                    if M * O * cf > L.MOC_MAX:
                        continue
                    fpll = fr(fin) / N * M * cf
                    if not (tol.inside(fr(fin) / N, L.pfd, TRUE) and tol.inside(fpll * O, L.vco, TRUE) and tol.inside(fpll, L.pll, TRUE)):
                        continue
                    Cs = []
                    for i, (f, p, m) in enumerate(outs):
                        cands = [cf] if i == fb else L.c_menu(p)
                        hit = [c for c in cands if tol.within(fpll / c, fr(f), fr(m), TRUE)]
                        if not hit:
                            break
                        Cs.append(hit[0])
                    else:
                        return dict(N=N, M=M, O=O, Cs=Cs)
    return None


# ---------------------------------------------------------------------------------------------------------------------
class Efinix(Family):
    """adapter for TRIONPLL / TITANIUMPLL.  Request flags: ("fb<i>",) output i is created with is_feedback=True;
    ("nofb",) no feedback output (pass-through to the vendor tool)."""
    NO_SOLUTION = (AssertionError,)          # compute_config: `assert len(final_list) != 0`
    DEVICES = dict(TRIONPLL=("T8F81", "T120F324"), TITANIUMPLL=("Ti60F225",))
    GRADE = dict(TRIONPLL="I4", TITANIUMPLL="I3")

    def __init__(self, cls):
        Family.__init__(self, cls)
        self._limits = {}

    def variants(self):
        return [(d, dict(part=d + self.GRADE[self.name])) for d in self.DEVICES[self.name]]

    def new(self, vkw):
        from litex.soc.cores.clock.efinix import EFINIXPLL
        EFINIXPLL.n = 0                                   # class-wide instance counter (block names pll0, pll1, ...)
        logging.getLogger("EFINIXPLL").disabled = True
        platform = stub_platform(vkw["part"])
        pll = self.cls(platform)
        pll._c20_platform = platform
        return pll

    @staticmethod
    def fb_index(req):
        for fl in req.flags:
            if fl.startswith("fb"):
                return int(fl[2:])
        return None

    def computes(self, pll, req):
        """LiteX itself computes dividers for this request (else: pass-through to the vendor tool)"""
        return pll._c20_platform.family == "Trion" and self.fb_index(req) is not None

    def drive(self, variant, req, timeout=120):
        vname, vkw = variant
        r = Result()
        _tracer.classname_to_objs.clear()
        _tracer.name_to_idx.clear()
        fb = self.fb_index(req)
        try:
            with watchdog(timeout), contextlib.redirect_stdout(io.StringIO()):
                try:
                    pll = self.new(vkw)
                    r.pll = pll
                    r.stage = "clkin"
                    if "sigclk" in req.flags:             # a named internal Signal instead of name=
                        s = Signal()
                        s.name_override = "c20_core_clk"
                        pll.register_clkin(s, req.fin)
                    else:
                        pll.register_clkin(None, req.fin, name="c20_core_clk")
                    r.stage = "clkout"
                    for i, (f, p, m) in enumerate(req.outs):
                        # output 0 drives a clock domain, the others are bare PLL outputs (both paths of create_clkout)
                        pll.create_clkout(ClockDomain("c20_%d" % i) if i == 0 else None, f, phase=p, margin=m,
                                          is_feedback=(i == fb))
                    r.stage = "finalize"
                    orig = pll.compute_config

                    def capture(*a, **k):
                        r.stage = "search"
                        r.searched = True
                        c = orig(*a, **k)
                        r.stage = "finalize"
                        return c
                    pll.compute_config = capture
                    pll.do_finalize()
                    block = pll._c20_platform.toolchain.ifacewriter.get_block(pll.name)
                    keys = ["M", "N", "O", "VCO_FREQ", "feedback"] + ["CLKOUT%d_DIV" % i for i in range(8)]
                    r.config = {k: block[k] for k in keys if k in block}
                    if not self.computes(pll, req):
                        r.config["passthrough"] = True
                    r.stage = "done"
                except SystemExit as e:                   # quit() on the helper's error paths
                    raise RuntimeError("quit() called (SystemExit %r)" % (e.code,))
        except Timeout:
            raise
        except Exception as e:
            r.exc = e
        return r

    # -- oracle ----------------------------------------------------------------------------------------------------
    def limits(self, pll):
        # the tables are static methods of the class: read once per process and device
        dev = pll._c20_platform.device
        if dev not in self._limits:
            self._limits[dev] = Limits(pll, dev)
        return self._limits[dev]

    def ref_search(self, pll, req, tol):
        self._suffix = ""
        if len(req.outs) > pll.nclkouts_max:
            return None
        if not self.computes(pll, req):
            # LiteX computes nothing and declares no range for such a request: it has no ground to refuse it
            self._suffix = ".passthrough"
            return dict(note="pass-through request (the vendor tool computes the dividers): nothing for LiteX to refuse")
        L, fb = self.limits(pll), self.fb_index(req)
        w = search(L, req.fin, req.outs, fb, tol)
        if w is not None and tol.narrow and any(m != 0 for f, p, m in req.outs):
            # the solution needs a margin: compute_config compares for equality and never looks at the margins
            if search(L, req.fin, [(f, p, 0) for f, p, m in req.outs], fb, tol) is None:
                self._suffix = ".margin"
        return w

    def rule_suffix(self, req):
        return getattr(self, "_suffix", "")

    def script(self, pll):
        plat = pll._c20_platform
        block = plat.toolchain.ifacewriter.get_block(pll.name)
        return block, script_props(plat.toolchain.ifacewriter.generate_pll(block, plat.device, verbose=False), pll.name)

    def decode(self, pll, cfg, req):
        bad = []
        n = len(req.outs)
        if cfg.get("passthrough"):
            for k in ("M", "N", "O", "VCO_FREQ", "CLKOUT0_DIV"):
                if k in cfg:
                    bad.append(("pass.config", "%s = %r stored although LiteX computes no configuration for this request" % (k, cfg[k])))
            bad += self.check_passthrough(pll, req)
            return None, None, [], bad
        if cfg.get("feedback") != self.fb_index(req):
            bad.append(("config.fb", "block['feedback'] = %r but output %r was declared is_feedback" % (cfg.get("feedback"), self.fb_index(req))))
        vals = [cfg.get(k) for k in ["N", "M", "O"] + ["CLKOUT%d_DIV" % i for i in range(n)]]
        if not all(isinstance(v, int) and not isinstance(v, bool) for v in vals):
            bad.append(("config.missing", "block lacks integer M/N/O/CLKOUTi_DIV entries: %r" % cfg))
            return None, None, [], bad
        N, M, O = vals[:3]
        Cs = vals[3:]
        fb = self.fb_index(req)
        if N > 0:
            vco = fr(req.fin) / N * M * O * Cs[fb]
            if not close(cfg.get("VCO_FREQ", 0), vco):
                bad.append(("config.vco", "block['VCO_FREQ'] = %r but fin/N*M*O*Cfbk = %.3f (Cfbk = CLKOUT%d_DIV = %d)" % (
                    cfg.get("VCO_FREQ"), float(vco), fb, Cs[fb])))
        self._O = O
        return N, M, Cs, bad

    def ref_verify(self, pll, req, dec, tol):
        N, M, Cs = dec
        return verify(self.limits(pll), req.fin, req.outs, self.fb_index(req), N, M, self._O, Cs, tol)

    def _common_script_checks(self, pll, req, block, P, bad):
        def want(key, val, rule=None):
            got = P.get(key)
            if not got or any(g != val for g in got):
                bad.append((rule or ("inst." + key), "interface script: %s = %r but the configuration says %r" % (key, got, val)))
        got = P.get("REFCLK_FREQ")
        try:
            ok = bool(got) and all(close(Fr(g) * 10**6, fr(req.fin), 1e-12) for g in got)
        except (ValueError, ZeroDivisionError):
            ok = False
        if not ok:
            bad.append(("inst.REFCLK_FREQ", "interface script: REFCLK_FREQ = %r MHz but the input is %r Hz" % (got, req.fin)))
        want("CORE_CLK_PIN", "c20_core_clk")
        for i, (f, p, m) in enumerate(req.outs):
            want("CLKOUT%d_PIN" % i, block["clk_out"][i][0])
            if i > 0:
                want("CLKOUT%d_EN" % i, "1")
        for k in P:
            mm = re.match(r"(?:target\.)?CLKOUT(\d+)_", k)
            if mm and int(mm.group(1)) >= len(req.outs):
                bad.append(("inst.extra", "interface script: %s emitted for an output that was not requested" % k))
        return want

    def check_instance(self, pll, cfg, req, dec):
        N, M, Cs = dec
        bad = []
        block, P = self.script(pll)
        want = self._common_script_checks(pll, req, block, P, bad)
        fb = self.fb_index(req)
        want("M", str(M))
        want("N", str(N))
        want("O", str(self._O))
        for i, (f, p, m) in enumerate(req.outs):
            want("CLKOUT%d_DIV" % i, str(Cs[i]))
            want("CLKOUT%d_PHASE" % i, str(p))
        want("FEEDBACK_CLK", "CLK%d" % fb)
        want("FEEDBACK_MODE", "LOCAL" if fb == 0 else "CORE")       # Trion: local feedback exists on CLKOUT0 only
        if any(k.startswith("target.") for k in P):
            bad.append(("inst.autocalc", "interface script also asks the vendor tool to compute the dividers (target_freq)"))
        return bad

    def check_passthrough(self, pll, req):
        """no configuration is computed by LiteX: the script must carry the request itself, unchanged"""
        bad = []
        block, P = self.script(pll)
        self._common_script_checks(pll, req, block, P, bad)
        v3 = block["version"] == "V3"
        fb = self.fb_index(req)
        for i, (f, p, m) in enumerate(req.outs):
            got = P.get("target.CLKOUT%d_FREQ" % i)
            try:
                ok = bool(got) and all(close(Fr(g) * 10**6, fr(f), 1e-12) for g in got)
            except (ValueError, ZeroDivisionError):
                ok = False
            if not ok:
                bad.append(("pass.freq", "interface script: target CLKOUT%d_FREQ = %r MHz but %r Hz was requested" % (i, got, f)))
            if P.get("target.CLKOUT%d_PHASE" % i) != [str(p)]:
                bad.append(("pass.phase", "interface script: target CLKOUT%d_PHASE = %r but %r was requested" % (i, P.get("target.CLKOUT%d_PHASE" % i), p)))
            if v3:
                if P.get("CLKOUT%d_PHASE_SETTING" % i) != [str(p // 45)]:
                    bad.append(("pass.phase", "interface script: CLKOUT%d_PHASE_SETTING = %r for %r degrees (45 degree steps)" % (
                        i, P.get("CLKOUT%d_PHASE_SETTING" % i), p)))
            elif P.get("CLKOUT%d_PHASE" % i) != [str(p)]:
                bad.append(("pass.phase", "interface script: CLKOUT%d_PHASE = %r but %r was requested" % (i, P.get("CLKOUT%d_PHASE" % i), p)))
        for k in ("M", "N", "O"):
            if k in P:
                bad.append(("pass.config", "interface script sets %s = %r although nothing was computed" % (k, P[k])))
        if v3:
            # "Titanium/Topaz has always a feedback (local: CLK0, CORE: any output)"
            exp = ("LOCAL", "CLK0") if (fb is None or fb < 1) else ("CORE", "CLK%d" % fb)
            if (P.get("FEEDBACK_MODE"), P.get("FEEDBACK_CLK")) != ([exp[0]], [exp[1]]):
                bad.append(("pass.feedback", "interface script: FEEDBACK_MODE/CLK = %r/%r, expected %s/%s" % (
                    P.get("FEEDBACK_MODE"), P.get("FEEDBACK_CLK"), exp[0], exp[1])))
        elif P.get("FEEDBACK_MODE") != ["INTERNAL"]:
            bad.append(("pass.feedback", "interface script: FEEDBACK_MODE = %r without a feedback output" % (P.get("FEEDBACK_MODE"),)))
        return bad

    def used_nontrivially(self, dec):
        N, M, Cs = dec
        return dict(input_div_gt1=int(N > 1), postdiv_gt1=int(self._O > 1), mult_gt1=int(M > 1))


def selftest(count=60, seed=3):
    """validate `search` against `brute` (and its witnesses against `verify`) on a seeded sample of the quick grid:
    /venv/bin/python -m checks.c20_efinix [count]"""
    import random
    from checks import c20_pll as C
    from checks.c20_ref import WIDE as W
    cfg = [c for c in C.configs("quick") if c[0].startswith("TRIONPLL")][0]
    fam = C.families()[cfg[1]]
    probe = fam.new(fam.variants()[cfg[2]][1])
    L = fam.limits(probe)
    reqs = [r for r in C.grid_for(fam, probe, "quick").requests() if fam.fb_index(r) is not None]
    random.Random(seed).shuffle(reqs)
    sat = unsat = 0
    for r in reqs[:count]:
        fb = fam.fb_index(r)
        a, b = search(L, r.fin, r.outs, fb, W), brute(L, r.fin, r.outs, fb, W)
        assert (a is None) == (b is None), ("search and brute force disagree", r, a, b)
        if a is None:
            unsat += 1
            continue
        sat += 1
        bad = verify(L, r.fin, r.outs, fb, int(a["D"]), int(a["M"]), a["postdiv_O"], [int(p[2]) for p in a["picks"]], W)
        assert not bad, ("witness of search does not verify", r, a, bad)
    return dict(requests=sat + unsat, satisfiable=sat, unsatisfiable=unsat)


if __name__ == "__main__":
    import sys
    print(selftest(int(sys.argv[1]) if len(sys.argv) > 1 else 60))
