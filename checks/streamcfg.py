"""Configuration menu of stream elements for C03/C04 (DESIGN.md §4 C03 cfg).  REGISTRY: name -> (tier, factory of a
fresh StreamHarness).  Every factory builds the *real* LiteX object."""
import fsmc  # noqa
from migen import *
from litex.soc.interconnect import stream
from checks.streamlib import *

REGISTRY = {}


def reg(name, tier, mk):
    assert name not in REGISTRY, name
    REGISTRY[name] = (tier, mk)


def L(dw, pw=2):
    return stream.EndpointDescription([("data", dw)], [("p", pw)] if pw else [])


def ident(capacity, **kw):
    return lambda H: Identity(H.sink.paybits, capacity, **kw)


def add_identity(name, tier, factory, capacity, dw=None, **kw):
    """queue-like element carrying tokens unchanged; M = 2*capacity + 2 ids"""
    M = 2*capacity + 2
    reg(name + "/ids", tier, lambda: StreamHarness(name + "/ids", factory, ident(capacity + 1), M=M, **kw))


def bits_for_ids(capacity):
    return max(2, (2*capacity + 1).bit_length())


# --- buffers, pipes, delays, FIFOs -------------------------------------------------------------------
for nm, cls in (("PipeValid", stream.PipeValid), ("PipeReady", stream.PipeReady)):
    add_identity(nm, "quick", (lambda cls=cls: cls(L(2))), 1)
    reg(nm + "/free", "quick", (lambda nm=nm, cls=cls: StreamHarness(nm + "/free", lambda: cls(L(2, 1)), ident(2), mode="free", M=4, maxpkt=2)))
for pv in (False, True):
    for pr in (False, True):
        cap = int(pv) + int(pr)
        nm = f"Buffer(pipe_valid={pv},pipe_ready={pr})"
        add_identity(nm, "quick", (lambda pv=pv, pr=pr, cap=cap: stream.Buffer(L(bits_for_ids(max(cap, 1))), pv, pr)), max(cap, 1))
for n in (1, 2, 3):
    add_identity(f"Delay(n={n})", "quick", (lambda n=n: stream.Delay(L(bits_for_ids(n), 1), n)), n,
                 maxpkt=2)
for depth in (0, 1, 2, 3, 4):
    for buffered in ((False, True) if depth >= 2 else (False,)):
        cap = max(depth, 1) + (1 if buffered else 0)
        nm = f"SyncFIFO(depth={depth},buffered={buffered})"
        tier = "quick" if depth <= 3 else "thorough"
        add_identity(nm, tier, (lambda depth=depth, buffered=buffered, cap=cap: stream.SyncFIFO(L(bits_for_ids(cap), 1), depth, buffered)),
                     cap, maxpkt=2, nparam=2)
for buffered in (False, True):
    def mk_async(buffered=buffered):
        f = stream.AsyncFIFO(L(4, 0), 4, buffered)
        return ClockDomainsRenamer({"write": "sys", "read": "sys"})(f)
    add_identity(f"AsyncFIFO(depth=4,buffered={buffered})@1clk", "quick", mk_async, 4 + 2*int(buffered) + 1,
                 maxpkt=2)
for buffered in (False, True):
    add_identity(f"ClockDomainCrossing(sys->sys,buffered={buffered})", "quick",
                 (lambda buffered=buffered: stream.ClockDomainCrossing(L(2), "sys", "sys", buffered=buffered)), 1)

# --- width converters ----------------------------------------------------------------------------------
for ratio in (2, 3, 4):
    for rev in (False, True):
        for vtc in (False, True):
            w = 2 if ratio < 4 else 1
            tier = "quick"
            # up: tokens of w bits -> words; every w-bit value as id
            nm = f"Converter(up x{ratio},reverse={rev},vtc={vtc})"
            def mk_up(nm=nm, ratio=ratio, rev=rev, vtc=vtc, w=w):
                def model(H):
                    v = (ratio*w, len(H.dut.source.valid_token_count)) if vtc else None
                    return Up(ratio, w, capacity=3, reverse=rev, vtc=v, param=None)
                return StreamHarness(nm, lambda: stream.Converter(w, ratio*w, rev, vtc), model, M=2**w, maxpkt=ratio + 1)
            reg(nm, tier, mk_up)
            nm = f"Converter(down x{ratio},reverse={rev},vtc={vtc})"
            def mk_dn(nm=nm, ratio=ratio, rev=rev, vtc=vtc, w=w):
                def model(H):
                    v = (w, 1) if vtc else None
                    return Down(ratio, w, reverse=rev, vtc=v)
                # ids mode: the id is replicated over the chunks with a stride that is not the chunk width
                return StreamHarness(nm, lambda: stream.Converter(ratio*w, w, rev, vtc), model, M=4, idbits=3 if w == 2 else 2, maxpkt=2)
            reg(nm, tier, mk_dn)
    # free mode: every value of the wide word
    nm = f"Converter(down x{ratio})/free"
    def mk_dnf(nm=nm, ratio=ratio):
        return StreamHarness(nm, lambda: stream.Converter(ratio, 1), lambda H: Down(ratio, 1), mode="free",
                             alphabet=list(range(2**ratio)), M=2**ratio, maxpkt=1)
    reg(nm, "quick", mk_dnf)
    nm = f"Converter(up x{ratio})/free"
    def mk_upf(nm=nm, ratio=ratio):
        return StreamHarness(nm, lambda: stream.Converter(1, ratio), lambda H: Up(ratio, 1, param=None), mode="free",
                             alphabet=[0, 1], M=2, maxpkt=ratio)
    reg(nm, "quick", mk_upf)
reg("Converter(identity)", "quick", lambda: StreamHarness("Converter(identity)", lambda: stream.Converter(2, 2), ident(1), M=4))


# --- StrideConverter (field-wise; with params) ---------------------------------------------------------
def stride_place(fields_narrow, ratio):
    """position token `pos` (narrow raw bits) inside the wide record: wide field f = ratio*w_f bits, sub-slice pos"""
    offs_n, offs_w = [], []
    o = 0
    for n, w in fields_narrow:
        offs_n.append(o)
        o += w
    o = 0
    for n, w in fields_narrow:
        offs_w.append(o)
        o += w*ratio
    def place(pos, raw):
        b = m = 0
        for (n, w), on, ow in zip(fields_narrow, offs_n, offs_w):
            fm = (1 << w) - 1
            b |= ((raw >> on) & fm) << (ow + pos*w)
            m |= fm << (ow + pos*w)
        return b, m
    def pick(pos, wide):
        b = m = 0
        for (n, w), on, ow in zip(fields_narrow, offs_n, offs_w):
            fm = (1 << w) - 1
            b |= ((wide >> (ow + pos*w)) & fm) << on
            m |= fm << on
        return b, m
    return place, pick


for ratio in (2, 3):
    for rev in (False, True):
        narrow = [("a", 1), ("b", 2)]
        wide = [("a", 1*ratio), ("b", 2*ratio)]
        place, pick = stride_place(narrow, ratio)
        tier = "quick"
        nm = f"StrideConverter(up x{ratio},reverse={rev},params)"
        def mk_su(nm=nm, ratio=ratio, rev=rev, narrow=narrow, wide=wide, place=place):
            return StreamHarness(nm, lambda: stream.StrideConverter(stream.EndpointDescription(narrow, [("p", 2)]),
                                                                    stream.EndpointDescription(wide, [("p", 2)]), rev),
                                 lambda H: Up(ratio, 3, reverse=rev, place=place, param="last"), M=8, maxpkt=ratio + 1)
        reg(nm, tier, mk_su)
        nm = f"StrideConverter(down x{ratio},reverse={rev},params)"
        def mk_sd(nm=nm, ratio=ratio, rev=rev, narrow=narrow, wide=wide, pick=pick):
            return StreamHarness(nm, lambda: stream.StrideConverter(stream.EndpointDescription(wide, [("p", 2)]),
                                                                    stream.EndpointDescription(narrow, [("p", 2)]), rev),
                                 lambda H: Down(ratio, 3, reverse=rev, pick=pick), M=4, idbits=2, maxpkt=2)
        reg(nm, tier, mk_sd)

# --- Gearbox ---------------------------------------------------------------------------------------------
for (i_dw, o_dw, tier) in ((2, 3, "quick"), (3, 2, "quick"), (2, 4, "quick"), (4, 6, "thorough"), (3, 5, "thorough"), (4, 2, "quick"),
                           (8, 10, "thorough"), (10, 8, "thorough")):
    for msb in (True, False):
        nm = f"Gearbox({i_dw},{o_dw},msb_first={msb})"
        def mk_g(nm=nm, i_dw=i_dw, o_dw=o_dw, msb=msb):
            big = i_dw > 4
            alpha = list(range(2**i_dw)) if not big else [0, 2**i_dw - 1, 0x2AA & (2**i_dw - 1), 0x155 & (2**i_dw - 1), 1, 2**(i_dw-1), 0x0F3 & (2**i_dw-1)]
            io_lcm = stream.lcm(i_dw, o_dw)
            return StreamHarness(nm, lambda: stream.Gearbox(i_dw, o_dw, msb), lambda H: Bits(i_dw, o_dw, msb, 4*io_lcm + i_dw),
                                 mode="free", alphabet=alpha, M=len(alpha), maxpkt=1, cap=3_000_000)
        reg(nm, tier, mk_g)

# --- Pack / Unpack -----------------------------------------------------------------------------------------
for n in (2, 3):
    for rev in (False, True):
        tier = "quick"
        nm = f"Pack(n={n},reverse={rev},params)"
        def mk_p(nm=nm, n=n, rev=rev):
            return StreamHarness(nm, lambda: stream.Pack(stream.EndpointDescription([("data", 2)], [("p", 2)]), n, rev),
                                 lambda H: Up(n, 2, reverse=rev, param="last"), M=4, maxpkt=n + 1)
        reg(nm, tier, mk_p)
        nm = f"Unpack(n={n},reverse={rev},params)"
        def mk_u(nm=nm, n=n, rev=rev):
            return StreamHarness(nm, lambda: stream.Unpack(n, stream.EndpointDescription([("data", 2)], [("p", 2)]), rev),
                                 lambda H: Down(n, 2, reverse=rev), M=4, idbits=3, maxpkt=2)
        reg(nm, tier, mk_u)


# --- compositions ------------------------------------------------------------------------------------------------
class _Chain(Module):
    def __init__(self, *mods):
        self.submodules += mods
        for a, b in zip(mods, mods[1:]):
            self.comb += a.source.connect(b.sink)
        self.sink, self.source = mods[0].sink, mods[-1].source


def mk_chain_up_fifo_down():
    nm = "chain(up x2 -> SyncFIFO(2) -> down x2)"
    return StreamHarness(nm, lambda: _Chain(stream.Converter(2, 4), stream.SyncFIFO([("data", 4)], 2), stream.Converter(4, 2)),
                         lambda H: Chain(Up(2, 2, param=None), Identity(4, 8, use_last=True), Down(2, 2), capacity=12), M=4, maxpkt=3, nparam=1)
reg("chain(up x2 -> SyncFIFO(2) -> down x2)", "quick", mk_chain_up_fifo_down)


def mk_chain_down_up():
    nm = "chain(down x2 -> PipeValid -> up x2)"
    return StreamHarness(nm, lambda: _Chain(stream.Converter(4, 2), stream.PipeValid([("data", 2)]), stream.Converter(2, 4)),
                         lambda H: Chain(Down(2, 2), Identity(2, 8), Up(2, 2, param=None), capacity=6), M=4, idbits=3, maxpkt=2, nparam=1)
reg("chain(down x2 -> PipeValid -> up x2)", "quick", mk_chain_down_up)


def mk_chain_gear():
    nm = "chain(Gearbox(2,3) -> Gearbox(3,2))"
    return StreamHarness(nm, lambda: _Chain(stream.Gearbox(2, 3), stream.Gearbox(3, 2)),
                         lambda H: Bits(2, 2, True, 40), mode="free", alphabet=[0, 1, 2, 3], M=4, maxpkt=1, cap=3_000_000)
reg("chain(Gearbox(2,3) -> Gearbox(3,2))", "thorough", mk_chain_gear)


def mk_pipeline():
    nm = "Pipeline(PipeValid, PipeReady, Buffer)"
    def f():
        m = Module()
        a, b, c = stream.PipeValid(L(3)), stream.PipeReady(L(3)), stream.Buffer(L(3))
        m.submodules += a, b, c
        p = stream.Pipeline(a, b, c)
        m.submodules += p
        m.sink, m.source = p.sink, p.source
        return m
    return StreamHarness(nm, f, ident(4), M=8, maxpkt=2)
reg("Pipeline(PipeValid, PipeReady, Buffer)", "quick", mk_pipeline)


def mk_bufferize():
    nm = "BufferizeEndpoints(Converter(up x2))"
    def f():
        c = stream.BufferizeEndpoints({"sink": stream.DIR_SINK, "source": stream.DIR_SOURCE})(stream._UpConverter(2, 4, 2, False))
        return c
    def model(H):
        return Up(2, 2, capacity=5, vtc=(4, 2), param=None)
    return StreamHarness(nm, f, model, M=4, maxpkt=3, nparam=1)
reg("BufferizeEndpoints(Converter(up x2))", "quick", mk_bufferize)


# --- purely combinational routing elements: Multiplexer, Demultiplexer, Gate, Cast --------------------------------------
LD = [("data", 4)]
for n in (2, 3, 4, 5):
    nm = f"Multiplexer(n={n})"
    def mk_mux(nm=nm, n=n):
        nsel = 2 if n == 2 else (4 if n <= 4 else 8)
        return MultiStreamHarness(nm, lambda: stream.Multiplexer(LD, n), [f"sink{i}" for i in range(n)], ["source"],
                                  CombRouteOracle(lambda cc, n=n: (cc[0], 0) if cc[0] < n else None, lambda i, cc: 0),
                                  ctrl=[("sel", range(nsel))], liveness=False, maxpkt=2 if n <= 3 else 1, idbits=1 if n >= 3 else 2)
    reg(nm, "quick" if n <= 4 else "thorough", mk_mux)        # n = 5: 4.2 M transitions (five free producers), thorough
    nm = f"Demultiplexer(n={n})"
    def mk_demux(nm=nm, n=n):
        nsel = 2 if n == 2 else (4 if n <= 4 else 8)
        return MultiStreamHarness(nm, lambda: stream.Demultiplexer(LD, n), ["sink"], [f"source{i}" for i in range(n)],
                                  CombRouteOracle(lambda cc, n=n: (0, cc[0]) if cc[0] < n else None, lambda i, cc: 0),
                                  ctrl=[("sel", range(nsel))], liveness=False, maxpkt=2)
    reg(nm, "quick", mk_demux)
for srwd in (False, True):
    nm = f"Gate(sink_ready_when_disabled={srwd})"
    def mk_gate(nm=nm, srwd=srwd):
        return MultiStreamHarness(nm, lambda: stream.Gate(LD, srwd), ["sink"], ["source"],
                                  CombRouteOracle(lambda cc: (0, 0) if cc[0] else None, lambda i, cc, srwd=srwd: int(srwd)),
                                  ctrl=[("enable", (0, 1))], liveness=False, maxpkt=2)
    reg(nm, "quick", mk_gate)


def _bitrev_fields(raw, widths_from, widths_to, rev_from, rev_to):
    """reference for Cast: Cat(*sigs_to) = Cat(*sigs_from) with optional reversal of the field lists"""
    offs, o = [], 0
    for w in widths_from:
        offs.append((o, w))
        o += w
    vals = [(raw >> a) & ((1 << w) - 1) for a, w in offs]
    if rev_from:
        vals, wf = vals[::-1], widths_from[::-1]
    else:
        wf = widths_from
    bits, o = 0, 0
    for val, w in zip(vals, wf):
        bits |= val << o
        o += w
    wt = widths_to[::-1] if rev_to else widths_to
    outv, o = [], 0
    for w in wt:
        outv.append((bits >> o) & ((1 << w) - 1))
        o += w
    if rev_to:
        outv = outv[::-1]
    out, o = 0, 0
    for val, w in zip(outv, widths_to):
        out |= val << o
        o += w
    return out


for rf in (False, True):
    for rt in (False, True):
        nm = f"Cast([a:1,b:3]->[c:2,d:2],reverse_from={rf},reverse_to={rt})"
        def mk_cast(nm=nm, rf=rf, rt=rt):
            return StreamHarness(nm, lambda: stream.Cast([("a", 1), ("b", 3)], [("c", 2), ("d", 2)], rf, rt),
                                 lambda H: Identity(4, 1, mapraw=lambda raw: _bitrev_fields(raw, [1, 3], [2, 2], rf, rt)),
                                 mode="free", alphabet=list(range(16)), M=16, maxpkt=2, nparam=1)
        reg(nm, "quick", mk_cast)
reg("Cast(4->[a:1,b:3])", "quick", lambda: StreamHarness("Cast(4->[a:1,b:3])", lambda: stream.Cast(4, [("a", 1), ("b", 3)]),
                                                       lambda H: Identity(4, 1), mode="free", alphabet=list(range(16)), M=16, maxpkt=2, nparam=1))


# --- Shifter (PipelinedActor, latency 2): token k leaves as {data of the following pipeline slot, data k} >> shift; only the
# low dw - shift bits are a function of the token itself and are compared, the rest depends on whatever follows in the pipe
def _shifter_model(s, dw=4):
    def mk(H):
        m = Identity(dw, 3, mapraw=lambda raw: (raw & ((1 << dw) - 1)) >> s)
        m.mask = (1 << (dw - s)) - 1
        return m
    return mk


for s in (0, 1, 3):
    nm = f"Shifter(dw=4,shift={s})/ids"
    reg(nm, "quick" if s != 1 else "thorough", (lambda nm=nm, s=s: StreamHarness(nm, lambda: stream.Shifter(4), _shifter_model(s), M=6, maxpkt=2, nparam=1,
                                                                                 ctrl=[("shift", [s])])))
