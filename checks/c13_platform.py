"""C13 part (d): ConstraintManager request / request_all / request_remaining / lookup_request / add_extension histories.

Unit of accounting: one ENTRY of the IO table (identity of the tuple the user put into the table; an entry that the
user adds twice counts twice).  Reference:
  * multiset(available) + multiset(matched resources) == multiset(all entries added so far)      (nothing lost/duplicated)
  * every successful request returns a NEW object whose shape is that of the entry it consumed, the entry's name is the
    requested name and its number the requested number (if one was given)
  * lookup_request(name[:sub], number) returns (the sub-signal of) an object that was handed out for an entry with that
    name / number if there is one, and fails (None if loose) if there is none
  * get_sig_constraints lists every granted leaf signal exactly once, with the pins of its entry
  * a failed call leaves available / matched untouched (request_all and loose lookups rely on it)
"""
import fsmc  # noqa: F401
import types, collections

from migen import Signal, Record
from migen.fhdl.structure import Cat
from litex.build.generic_platform import ConstraintManager, Pins, Subsignal, IOStandard, Misc

from checks.c13_common import guarded, MachineryError, reset_migen_tracer

T0 = [
    ("clk",    0, Pins("A1"), IOStandard("LVCMOS33")),
    ("led",    0, Pins("L0")),
    ("led",    1, Pins("L1")),
    ("led",    2, Pins("L2")),
    ("serial", 0, Subsignal("tx", Pins("T1")), Subsignal("rx", Pins("R1")), IOStandard("LVCMOS33")),
    ("sw",     0, Pins("S0 S1"), Misc("PULLUP")),
]
EXTS = {
    "new+dupkey": [("led", 3, Pins("L3")), ("led", 0, Pins("Z0"))],   # a new number and a second entry keyed ("led", 0)
    "same-entry": [T0[2]],                                            # the very same ("led", 1) entry added again
}
UNIVERSE = T0 + EXTS["new+dupkey"]
ENTRY_INDEX = {id(e): i for i, e in enumerate(UNIVERSE)}

NAMES = ["clk", "led", "serial", "sw", "nope"]
NUMBERS = [None, 0, 1, 3]


def entry_pins(entry):
    """{subsignal name or None: [pin identifiers]} of an entry (independent of litex' _resource_type)."""
    d = {}
    for el in entry[2:]:
        if isinstance(el, Pins):
            d[None] = list(el.identifiers)
        elif isinstance(el, Subsignal):
            d[el.name] = [p for c in el.constraints if isinstance(c, Pins) for p in c.identifiers]
    return d


class PlatformModel:
    key = "cm|T0"

    def __init__(self):
        self.cover = collections.Counter()
        calls = []
        for name in NAMES:
            for num in NUMBERS:
                for loose in (False, True):
                    calls.append(("request", name, num, loose))
        calls += [("request_all", n) for n in ("clk", "led", "sw", "nope")]
        calls += [("request_remaining", n) for n in ("led", "sw", "nope")]   # plain-signal resources only (Cat of a Record raises)
        for name in ("clk", "led", "serial", "serial:tx", "nope"):
            for num in (None, 0, 1):
                for loose in (False, True):
                    calls.append(("lookup_request", name, num, loose))
        calls += [("add_extension", e, p) for e in EXTS for p in (False, True)]
        self.calls = calls

    def params(self):
        return dict(part="cm")

    def fresh(self):
        reset_migen_tracer()
        cm = ConstraintManager(T0, [])
        return types.SimpleNamespace(cm=cm, added=list(T0), handed=[], last=None)   # handed: (entry, obj) in grant order

    def info(self, ctx):
        return ()

    def menu(self, info):
        return self.calls

    def roots(self):
        return list(self.calls)

    def step(self, ctx, call, idx):
        cm = ctx.cm
        ctx.last = dict(navail=len(cm.available), nmatched=len(cm.matched), avail=[id(e) for e in cm.available],
                        matched=[(id(r), id(o)) for r, o in cm.matched])
        k = call[0]
        if k == "request":
            out = guarded(lambda: cm.request(call[1], call[2], loose=call[3]))
        elif k == "request_all":
            out = guarded(lambda: cm.request_all(call[1]))
        elif k == "request_remaining":
            out = guarded(lambda: cm.request_remaining(call[1]))
        elif k == "lookup_request":
            out = guarded(lambda: cm.lookup_request(call[1], call[2], loose=call[3]))
        elif k == "add_extension":
            out = guarded(lambda: cm.add_extension(EXTS[call[1]], prepend=call[2]))
            if out[0] == "ok":
                ctx.added += list(EXTS[call[1]])
        else:
            raise MachineryError(f"unknown call {call}")
        if out[0] == "ok":          # harness-side record of what was handed out (also maintained while replaying a prefix)
            ctx.last["new"] = list(cm.matched[ctx.last["nmatched"]:])
            ctx.handed += ctx.last["new"]
        return out

    def canon(self, ctx):
        cm = ctx.cm
        return (tuple(ENTRY_INDEX.get(id(e), -1) for e in cm.available), tuple(ENTRY_INDEX.get(id(r), -1) for r, _ in cm.matched))

    def jstate(self, ctx):
        cm = ctx.cm
        return dict(available=[f"{e[0]}:{e[1]}" for e in cm.available], matched=[f"{r[0]}:{r[1]}" for r, _ in cm.matched])

    def jcall(self, call):
        return list(call)

    # ------------------------------------------------------------------------------------------------------------------
    def _shape_ok(self, entry, obj):
        pins = entry_pins(entry)
        if None in pins and len(pins) == 1:
            return isinstance(obj, Signal) and len(obj) == len(pins[None])
        if not isinstance(obj, Record):
            return False
        return all(hasattr(obj, n) and len(getattr(obj, n)) == len(p) for n, p in pins.items() if n is not None)

    def check_call(self, ctx, call, idx, ret, before):
        cm, L = ctx.cm, ctx.last
        viol = []
        k = call[0]
        new = L["new"]
        # accounting of entries
        have = collections.Counter(id(e) for e in cm.available) + collections.Counter(id(r) for r, _ in cm.matched)
        want = collections.Counter(id(e) for e in ctx.added)
        if have != want:
            lost = [f"{e[0]}:{e[1]}" for e in ctx.added if have[id(e)] < want[id(e)]]
            dup = [f"{e[0]}:{e[1]}" for e in ctx.added if have[id(e)] > want[id(e)]]
            viol.append(dict(rule="resource.accounting", msg=f"after {list(call)}: available+matched differs from the entries added "
                             f"(granted but still available / duplicated: {sorted(set(dup))}, lost: {sorted(set(lost))})"))
        if [(id(r), id(o)) for r, o in cm.matched[:L["nmatched"]]] != L["matched"]:
            viol.append(dict(rule="resource.regrant", msg=f"{list(call)} changed earlier grants"))
        objs = [id(o) for _, o in cm.matched]
        if len(set(objs)) != len(objs):
            viol.append(dict(rule="resource.regrant", msg=f"after {list(call)} the same object is recorded for two grants"))
        # per call
        if k == "request":
            _, name, num, loose = call
            if ret is None:
                if not loose or new or len(cm.available) != L["navail"]:
                    viol.append(dict(rule="request.result", msg=f"{list(call)} returned None" + (" but consumed a resource" if new else "")))
            else:
                self.cover["grants"] += 1
                if len(new) != 1 or new[0][1] is not ret:
                    viol.append(dict(rule="request.result", msg=f"{list(call)} returned an object that is not the one recorded as granted "
                                     f"({len(new)} new grant(s))"))
                else:
                    e = new[0][0]
                    if e[0] != name or (num is not None and e[1] != num):
                        viol.append(dict(rule="request.result", msg=f"{list(call)} consumed entry {e[0]}:{e[1]}"))
                    if not self._shape_ok(e, ret):
                        viol.append(dict(rule="request.result", msg=f"{list(call)} returned {type(ret).__name__} of the wrong shape for entry {e[0]}:{e[1]}"))
                    if L["avail"].count(id(e)) < 1:
                        viol.append(dict(rule="resource.regrant", msg=f"{list(call)} granted entry {e[0]}:{e[1]} which was not available"))
        elif k in ("request_all", "request_remaining"):
            self.cover["grants"] += len(new)
            parts = list(ret.l) if isinstance(ret, Cat) else None
            if parts is None or len(parts) != len(new) or any(p is not o for p, (_, o) in zip(parts, new)) or not new:
                viol.append(dict(rule="request.result", msg=f"{list(call)} did not return the concatenation of exactly the objects it was granted"))
            for i, (e, o) in enumerate(new):
                if e[0] != call[1] or (k == "request_all" and e[1] != i) or L["avail"].count(id(e)) < 1 or not self._shape_ok(e, o):
                    viol.append(dict(rule="request.result", msg=f"{list(call)}: grant {i} consumed entry {e[0]}:{e[1]}"))
                    break
        elif k == "lookup_request":
            _, name, num, loose = call
            base, _, sub = name.partition(":")
            cands = [o for e, o in ctx.handed if e[0] == base and (num is None or e[1] == num)]
            if sub:
                cands = [getattr(o, sub, None) for o in cands]
            if new or len(cm.available) != L["navail"]:
                viol.append(dict(rule="lookup.result", msg=f"{list(call)} changed available/matched"))
            if ret is None:
                if cands or not loose:
                    viol.append(dict(rule="lookup.result", msg=f"{list(call)} returned None although {len(cands)} matching grant(s) exist"))
            elif not any(ret is c for c in cands):
                viol.append(dict(rule="lookup.result", msg=f"{list(call)} returned an object that was not handed out for {name}:{num}"))
            else:
                self.cover["lookups_answered"] += 1
        elif k == "add_extension":
            if new or len(cm.available) != L["navail"] + len(EXTS[call[1]]):
                viol.append(dict(rule="resource.accounting", msg=f"{list(call)} did not add exactly its entries to the available list"))
        return viol

    def check_reject(self, ctx, call, idx, before, after):
        cm, L = ctx.cm, ctx.last
        viol = []
        if [id(e) for e in cm.available] != L["avail"] or [(id(r), id(o)) for r, o in cm.matched] != L["matched"]:
            viol.append(dict(rule="reject.residue", msg=f"{list(call)} raised an error but changed available/matched"))
        if call[0] == "lookup_request":
            base, _, sub = call[1].partition(":")
            cands = [o for e, o in ctx.handed if e[0] == base and (call[2] is None or e[1] == call[2])]
            if cands and (not sub or any(hasattr(o, sub) for o in cands)):
                viol.append(dict(rule="lookup.result", msg=f"{list(call)} failed although {len(cands)} matching grant(s) exist"))
        return viol

    def check_state(self, ctx):
        """get_sig_constraints: each granted leaf signal exactly once, with the pins of its entry."""
        cm = ctx.cm
        out, sc = guarded(cm.get_sig_constraints)
        if out != "ok":
            return [dict(rule="constraints.list", msg=f"get_sig_constraints {out}: {sc}")]
        viol = []
        want = []       # (id(sig), pins, (name, number, sub))
        for e, o in cm.matched:
            for sub, pins in entry_pins(e).items():
                sig = o if sub is None else getattr(o, sub, None)
                want.append((id(sig), pins, (e[0], e[1], sub)))
        got = [(id(s), list(p), tuple(n)) for s, p, _, n in sc]
        if sorted(got, key=repr) != sorted(want, key=repr):
            viol.append(dict(rule="constraints.list", msg=f"get_sig_constraints lists {[g[2] for g in got]} (with pins {[g[1] for g in got]}), "
                             f"granted are {[w[2] for w in want]} (pins {[w[1] for w in want]})"))
        sigs = [g[0] for g in got]
        if len(set(sigs)) != len(sigs):
            viol.append(dict(rule="constraints.list", msg="get_sig_constraints lists a signal twice"))
        pins = [p for _, ps, _ in got for p in ps]
        if len(set(pins)) != len(pins):
            self.cover["states_with_a_pin_granted_twice_via_an_entry_the_user_added_twice(not a violation)"] += 1
        self.cover["constraint_lists_checked"] += 1
        return viol
