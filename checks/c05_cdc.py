"""C05 — clock-domain crossings never corrupt, drop, duplicate or reorder data (DESIGN.md §4 C05).

Two base clocks `a` and `b`; every step one of {a}, {b}, {a,b} rises (all interleavings, simultaneous edges included).
Every `MultiReg` of the elaborated design is lowered by a *tagging* lowerer to the unmodified `MultiRegImpl`; whenever the
input of a tagged synchroniser differs before/after an instant in which its destination clock rises together with the other
clock, its first flop takes every per-bit mixture of the old and the new value (one successor per mixture).
Environment processes are registers of their own domain: the producer only moves on `a` ticks, the consumer on `b` ticks.
"""
import fsmc  # noqa  (first: sys.path + tracer shim)
import itertools
from migen import *
from migen.fhdl.specials import Memory, READ_FIRST
from migen.genlib.cdc import MultiReg, MultiRegImpl, PulseSynchronizer
from fsmc.explore import Harness, Explorer, replay_stock, PROGRESS, OUTPROG, TICK_A, TICK_B
from fsmc.design import MachineryError
from checks.streamlib import Port, Identity, par_raw

PROPERTY = "C05"
LEVEL = "model_checking"
RULE = ("BFS to closure of (real two-clock FHDL x domain-registered producer/consumer x scoreboard) under every edge schedule "
        "{a},{b},{a,b} per step, every handshake choice and every per-bit old/new resolution of the first flop of each tagged "
        "MultiReg whose input changes in a sampling instant; a state is distinct by its 96-bit digest; fair-cycle search "
        "(both clocks tick) on the closed graph; per-config counts in per_config")
ASSUMPTIONS = [
    "2-state zero-delay FHDL semantics of litex.gen.sim; simultaneous edges: all rising domains read pre-edge values (LiteX's rule)",
    "metastability = a first synchroniser flop sampling a changing input latches old or new per bit and is decided one destination period later; "
    "longer metastability, clock glitches and the real AsyncResetSynchronizer are not modelled",
    "sampling faults are applied to tagged MultiReg first stages only (every crossing of the designs under test goes through a MultiReg; "
    "the dual-clock memory is a second crossing: see the 'emitted+collide' variants)",
    "a changing synchroniser input is attributed to the other clock whenever both base clocks rise in the instant (over-approximation)",
    "producer is a register process of domain a (holds valid + token until accepted, adversarial idle garbage), consumer of domain b (ready free per b tick)",
    "token ids mod M (M = 2*capacity+2), first/last/param derived from the id (data independence of FIFO storage)",
    "BusSynchronizer: relative drift bounded by R (at most R edges of one clock between two edges of the other), time-out T = 8*(R+1) > one round trip; "
    "input restricted to even-parity code words so that any torn word is a non-code word",
    "weak fairness of both clocks for liveness",
    "parameters limited to the listed configurations; tracer shim (names only)",
]

# harness-owned edge flags (bits >= 32; 8 and 16 are TICK_A / TICK_B)
OFFER, RDY, PENDING, INPROG = 32, 64, 128, 256
STABLE, MISMATCH = 512, 1024
TICKSETS = (("a",), ("b",), ("a", "b"), ())         # index 3: no clock rises (an asynchronous environment event)
TICKFLAGS = (TICK_A, TICK_B, TICK_A | TICK_B, 0)
CLOCKED = ((0, ("a",)), (1, ("b",)), (2, ("a", "b")))


def _tagger(store):
    class TaggingMultiReg:
        """lowers to the unmodified MultiRegImpl and remembers it (input expression, first flop, destination domain)"""
        @staticmethod
        def lower(dr):
            impl = MultiRegImpl(dr.i, dr.o, dr.odomain, dr.n, dr.reset)
            store.append(impl)
            return impl
    return TaggingMultiReg


def force_emitted_memory_modes(frag):
    """what litex/gen/fhdl/memory.py does when it prints a memory whose ports use different clocks: every port READ_FIRST
    (data register clocked by the port's own clock instead of the simulator's transparent address register)."""
    n = 0
    for mem in frag.specials:
        if isinstance(mem, Memory):
            cds = [p.clock.cd for p in mem.ports]
            if cds.count(cds[0]) != len(cds):
                for p in mem.ports:
                    p.mode = READ_FIRST
                n += 1
    return n


class CdcHarness(Harness):
    """Common part: tagged synchronisers, sampling faults, cover counters."""
    clocks = ("a", "b")
    conf_every = 211
    conf_first = 300

    def __init__(self, name, factory, mem="sim", fault=True):
        self.name, self.factory, self.mem, self.fault = name, factory, mem, fault
        self.tagged = []
        self.special_overrides = {MultiReg: _tagger(self.tagged)}
        self.rise = {"a": ("a",), "b": ("b",)}      # base clock -> every domain of the design that rises with it
        self.n_simul = self.n_cross = self.n_faults = self.n_collide = 0
        self.max_fault_bits = 0
        self.emitted_mems = 0

    # -- elaboration ----------------------------------------------------------------------------------------
    def build(self):
        self.dut = dut = self.factory()
        frag = dut.get_fragment()
        self.mems = [m for m in frag.specials if isinstance(m, Memory)]
        self.memports = [(m, list(m.ports)) for m in self.mems]
        if self.mem != "sim":
            self.emitted_mems = force_emitted_memory_modes(frag)
            if not self.emitted_mems:
                raise MachineryError(f"{self.name}: no dual-clock memory to switch to READ_FIRST")
        return frag

    def base_of(self, cd):
        for b, ds in self.rise.items():
            if cd in ds:
                return b
        raise MachineryError(f"{self.name}: clock domain {cd} is not attached to a base clock")

    def bind_cdc(self, D):
        self.D = D
        c = D.fs.c
        n0 = len(c.sigs)
        self.mr = []
        for impl in self.tagged:
            r0 = impl.regs[0]
            if r0.signed:
                raise MachineryError("signed synchroniser: not supported by the sampling-fault model")
            fn = eval("lambda v: " + c.ex(impl.i))
            self.mr.append((impl.odomain, self.base_of(impl.odomain), c.idx[r0], fn, (1 << len(r0)) - 1, len(r0)))
        # dual-clock memories with a registered (READ_FIRST) read port: read-during-write collisions
        self.coll = []
        if self.mem == "emitted+collide":
            for mem, ports in self.memports:
                arr = D.sim.evaluator.replaced_memories[mem]
                wr = [p for p in ports if p.we is not None]
                rd = [p for p in ports if p.we is None and not p.async_read]
                for r in rd:
                    for w in wr:
                        if r.clock.cd != w.clock.cd:
                            if r.re is not None or len(w.we) != 1:
                                raise MachineryError("collision model: read-enable / write-granularity not supported")
                            self.coll.append((self.base_of(r.clock.cd), self.base_of(w.clock.cd), c.idx[r.dat_r],
                                              eval("lambda v: " + c.ex(r.adr)), eval("lambda v: " + c.ex(w.adr)),
                                              eval("lambda v: " + c.ex(w.we)), (1 << len(r.dat_r)) - 1, len(arr)))
            if not self.coll:
                raise MachineryError(f"{self.name}: no dual-clock read/write port pair for the collision model")
        if len(c.sigs) != n0:
            raise MachineryError("a synchroniser input mentions a signal outside the lowered fragment")
        if self.fault and not self.mr:
            raise MachineryError(f"{self.name}: no MultiReg was tagged")

    # -- schedule -------------------------------------------------------------------------------------------
    def tickset(self, ch):
        return TICKSETS[ch[0]]

    def ticks(self, env, ch):
        ts = self.tickset(ch)
        if len(ts) == 2:
            self.n_simul += 1
        out = ()
        for b in ts:
            out += self.rise[b]
        return out

    def next_inputs(self, env, ch):
        """{signal index: value} of environment-driven inputs that change *in this instant* (registers of the ticking domain)"""
        return None

    # -- sampling faults ------------------------------------------------------------------------------------
    def faults(self, vpre, vpost, env, ch, cds):
        ts = self.tickset(ch)
        if len(ts) < 2:
            return None            # a single clock rises: nothing of the other domain changes in this instant
        vp = vpost
        nx = self.next_inputs(env, ch)
        if nx:
            vp = list(vpost)
            for i, x in nx.items():
                vp[i] = x
        opts = []
        if self.fault:
            for od, base, r0, fn, mask, w in self.mr:
                old, new = fn(vpre) & mask, fn(vp) & mask
                if vpost[r0] != old:
                    raise MachineryError(f"{self.name}: first flop of a tagged MultiReg did not latch its pre-edge input")
                if old != new:
                    diff = old ^ new
                    bits = [b for b in range(w) if (diff >> b) & 1]
                    if len(bits) > self.max_fault_bits:
                        self.max_fault_bits = len(bits)
                    vals = []
                    for sub in range(1 << len(bits)):
                        x = old
                        for j, b in enumerate(bits):
                            if (sub >> j) & 1:
                                x ^= 1 << b
                        vals.append(x)
                    opts.append((r0, old, vals))
        common = {}
        for rb, wb, dat_r, radr, wadr, we, mask, depth in self.coll:
            # READ_FIRST data register loaded from the word that the other clock writes in the same instant: a real
            # dual-clock RAM returns undefined data; modelled as the complement of what the simulator latched.
            if we(vpre) & 1 and (radr(vpre) % depth) == (wadr(vpre) % depth):
                common[dat_r] = (~vpost[dat_r]) & mask
                self.n_collide += 1
        if not opts:
            return [common] if common else None
        self.n_cross += 1
        alts = []
        for combo in itertools.product(*[o[2] for o in opts]):
            d = dict(common)
            for (r0, old, vals), x in zip(opts, combo):
                if x != old:
                    d[r0] = x
            alts.append(d)
        self.n_faults += len(alts) - 1
        return alts

    def describe(self, c):
        return c

    def cdc_cover(self):
        return dict(simultaneous_edge_steps=self.n_simul, steps_with_crossing_change_in_sampling_instant=self.n_cross,
                    fault_successors=self.n_faults, max_bits_changing_in_one_sample=self.max_fault_bits,
                    tagged_multiregs=[(od, w) for od, base, r0, fn, mask, w in self.mr],
                    memory_variant=self.mem, read_during_write_collisions=self.n_collide)


# ---------------------------------------------------------------------------------------------------------------
# Streams: AsyncFIFO / ClockDomainCrossing / UART FIFO
# ---------------------------------------------------------------------------------------------------------------
class CdcStreamHarness(CdcHarness):
    """env = (nid, pd, rd, mon): next token id; producer drive (0/1 = idle with all-0/all-1 garbage, 2 = offering token nid);
    consumer ready; scoreboard.  choice = (tick set, producer's next drive (taken at an a tick), consumer's next ready (b tick))."""
    live_queries = (
        ("live.deadlock", OFFER | RDY, PROGRESS, (TICK_A, TICK_B),
         "producer offers, consumer is ready, both clocks keep ticking, no handshake at all"),
        ("live.starve_out", RDY | PENDING, OUTPROG, (TICK_A, TICK_B),
         "an accepted element is pending, consumer ready and both clocks tick for ever, never delivered"),
        ("live.starve_in", OFFER | RDY, INPROG, (TICK_A, TICK_B),
         "producer offers, consumer drains and both clocks tick for ever, the offered element is never accepted"),
    )

    def __init__(self, name, factory, capacity, mem="sim", fault=True, idle_patterns=(1,), cap=None,
                 sink="sink", source="source"):
        CdcHarness.__init__(self, name, factory, mem, fault)
        self.capacity = capacity
        self.M = 2*capacity + 2
        self.idle_patterns = tuple(idle_patterns)     # 1: all lines high while valid = 0 (never equals a token), 0: all low
        self.sink_name, self.source_name = sink, source
        if cap:
            self.cap = cap
        self.hs = set()
        self.maxq = 0

    def bind(self, D):
        self.bind_cdc(D)
        self.sink = S = Port(D, getattr(self.dut, self.sink_name))
        self.source = Port(D, getattr(self.dut, self.source_name))
        self.model = Identity(S.paybits, self.capacity)
        idb = max(1, (self.M - 1).bit_length())
        if S.paybits < idb:
            raise MachineryError(f"{self.name}: payload of {S.paybits} bits cannot carry ids mod {self.M}")
        rep, k = 0, 0
        while k < S.paybits:
            rep |= 1 << k
            k += idb
        self.alphabet = [(i * rep) & ((1 << S.paybits) - 1) for i in range(self.M)]

    def token(self, nid):
        return (self.alphabet[nid], nid & 1, (nid >> 1) & 1, par_raw(nid & 1, self.sink.parbits))

    def env_init(self):
        return (0, self.idle_patterns[0], 0, self.model.init())

    def choices(self, env):
        npds = self.idle_patterns + (2,)
        out = []
        for t, ts in CLOCKED:
            for npd in (npds if "a" in ts else (None,)):
                for nrd in ((0, 1) if "b" in ts else (None,)):
                    out.append((t, npd, nrd))
        return out

    def drive(self, v, env, ch):
        nid, pd, rd, mon = env
        if pd == 2:
            self.sink.drive_token(v, *self.token(nid))
        else:
            self.sink.drive_idle(v, pd)
        v[self.source.ready] = rd

    def observe(self, v, env, ch):
        nid, pd, rd, mon = env
        t, npd, nrd = ch
        ts = TICKSETS[t]
        S, O = self.sink, self.source
        in_hs = pd == 2 and v[S.ready] and "a" in ts
        out_hs = v[O.valid] and rd and "b" in ts
        self.hs.add((pd == 2, v[S.ready], v[O.valid], rd, t))
        pending = self.model.pending(mon)
        err = None
        if out_hs:
            mon, err = self.model.out(mon, O.read(v))
        if in_hs and err is None:
            mon, err = self.model.offer(mon, self.token(nid))
        if err is not None:
            return env, err, 0
        if len(mon[1]) > self.maxq:
            self.maxq = len(mon[1])
        nid2 = (nid + 1) % self.M if in_hs else nid
        pd2 = pd
        if "a" in ts and not (pd == 2 and not in_hs):
            pd2 = npd
        rd2 = nrd if "b" in ts else rd
        flags = TICKFLAGS[t]
        if pd == 2:
            flags |= OFFER
        if rd:
            flags |= RDY
        if pending:
            flags |= PENDING
        if in_hs:
            flags |= INPROG | PROGRESS
        if out_hs:
            flags |= OUTPROG | PROGRESS
        return (nid2, pd2, rd2, mon), None, flags

    def cover_report(self):
        d = self.cdc_cover()
        d.update(handshake_patterns=len(self.hs), max_occupancy=self.maxq, capacity_bound=self.capacity, ids_mod=self.M)
        return d

    def vacuity(self):
        if self.maxq < self.capacity - 2:
            return f"occupancy never above {self.maxq}"
        if not self.n_simul:
            return "no simultaneous-edge step"
        if self.fault and not self.n_cross:
            return "no crossing signal ever changed in a sampling instant"
        return None


# ---------------------------------------------------------------------------------------------------------------
# BusSynchronizer
# ---------------------------------------------------------------------------------------------------------------
def code_words(width):
    """even-parity words: two different code words differ in >= 2 bits and every proper per-bit mixture of two code words that
    differ in exactly 2 bits has odd parity; for width 2 ({00, 11}) and width 3 ({000, 011, 101, 110}) every pair differs in
    exactly 2 bits, so every torn word is a non-code word."""
    return tuple(x for x in range(1 << width) if bin(x).count("1") % 2 == 0) if width > 1 else (0, 1)


class BusSyncHarness(CdcHarness):
    """env = (ci, drift, o_prev, hist): value the a-domain register driving `i` holds; edges of one clock since the other ticked
    (+: a, -: b); last value seen at `o`; bit set of the values `i` has held since `o` last changed.
    choice = (tick set, next value of i (taken at an a tick))."""
    live_queries = (
        ("live.bus_stuck", STABLE | MISMATCH, 0, (TICK_A, TICK_B),
         "input held constant, both clocks keep ticking (drift <= R), output never becomes equal to the input"),
    )

    def __init__(self, name, width, R, T, fault=True, cap=None):
        from litex.gen.genlib.cdc import BusSynchronizer
        CdcHarness.__init__(self, name, lambda: BusSynchronizer(width, "a", "b", timeout=T), "sim", fault)
        self.width, self.R, self.T = width, R, T
        self.codes = code_words(width)
        if width in (2, 3):
            for x in self.codes:
                for y in self.codes:
                    assert x == y or bin(x ^ y).count("1") == 2
        if cap:
            self.cap = cap
        self.conf_every = 7 if width <= 2 else 211
        self.o_changes = 0
        self.o_seen = set()

    def bind(self, D):
        self.bind_cdc(D)
        self.I, self.O = D.i(self.dut.i), D.i(self.dut.o)

    def env_init(self):
        return (0, 0, 0, 1)

    def choices(self, env):
        ci, drift, op, hist = env
        out = []
        for t, ts in CLOCKED:
            nd = self.drift(drift, t)
            if abs(nd) > self.R:
                continue
            for ni in (self.codes if "a" in ts else (None,)):
                out.append((t, ni))
        return out

    @staticmethod
    def drift(drift, t):
        if t == 0:
            return max(drift, 0) + 1
        if t == 1:
            return min(drift, 0) - 1
        return 0

    def drive(self, v, env, ch):
        v[self.I] = env[0]

    def next_inputs(self, env, ch):
        t, ni = ch
        if ni is not None and ni != env[0]:
            return {self.I: ni}
        return None

    def observe(self, v, env, ch):
        ci, drift, op, hist = env
        t, ni = ch
        flags = TICKFLAGS[t]
        if ni is None or ni == ci:
            flags |= STABLE
        if v[self.O] != ci:
            flags |= MISMATCH
        # 5th element: value present at the input during this step (consumed by post)
        return (ci if ni is None else ni, self.drift(drift, t), op, hist | (1 << ci), ci), None, flags

    def post(self, v, env2, ch):
        ci2, nd, op, hist, ci = env2
        o = v[self.O]
        if o not in self.codes:
            return env2[:4], ("bus.torn", f"o = {o:0{self.width}b} is not a word that was ever present at i (code words "
                                          f"{[format(c, '0%db' % self.width) for c in self.codes]}): torn word")
        if o != op:
            if not (hist >> o) & 1:
                return env2[:4], ("bus.stale", f"o changed {op:0{self.width}b} -> {o:0{self.width}b} although i has not held that "
                                               f"value since o last changed")
            self.o_changes += 1
            self.o_seen.add(o)
            return (ci2, nd, o, 1 << ci), None
        return env2[:4], None

    def cover_report(self):
        d = self.cdc_cover()
        d.update(o_changes=self.o_changes, o_values_seen=sorted(self.o_seen), R=self.R, timeout=self.T, code_words=list(self.codes))
        return d

    def vacuity(self):
        if len(self.o_seen) < len(self.codes):
            return f"o only showed {sorted(self.o_seen)}"
        if self.fault and not self.n_cross:
            return "no crossing signal ever changed in a sampling instant"
        return None


# ---------------------------------------------------------------------------------------------------------------
# ClockDomainCrossing(with_common_rst=True) with reset pulses of either domain
# ---------------------------------------------------------------------------------------------------------------
class CommonRstWrapper(Module):
    """the two user domains with real reset inputs + the crossing"""
    def __init__(self, layout, depth, buffered):
        from litex.soc.interconnect import stream
        self.clock_domains.cd_a = ClockDomain("a")
        self.clock_domains.cd_b = ClockDomain("b")
        self.submodules.cdc = cdc = stream.ClockDomainCrossing(layout, "a", "b", depth=depth, buffered=buffered, with_common_rst=True)
        self.sink, self.source = cdc.sink, cdc.source


class CdcStreamResetHarness(CdcStreamHarness):
    """env = (nid, pd, rd, mon, rs); rs = 0 or (which, phase, ca, cb): a reset pulse on rst_a (which=0) / rst_b (which=1) is in
    progress.  Phase 0 lasts until each clock has risen `hold[0]` times (both pointer sets cleared), phase 1 until each has risen
    `hold[1]` more times (the reset-less synchroniser flops flushed); then the pulse ends.  The pulse starts asynchronously
    (a step in which no clock rises); producer and consumer are reset with it (idle / not ready), the scoreboard is emptied."""

    def __init__(self, name, factory, capacity, hold=(1, 2), **kw):
        CdcStreamHarness.__init__(self, name, factory, capacity, **kw)
        self.hold = hold
        self.resets = self.resets_nonempty = self.resets_done = 0

    def build(self):
        frag = CdcStreamHarness.build(self)
        names = [cd.name for cd in frag.clock_domains]
        fr = [n for n in names if n.startswith("from")]
        to = [n for n in names if n.startswith("to")]
        if len(fr) != 1 or len(to) != 1:
            raise MachineryError(f"{self.name}: expected one derived from*/to* domain pair, found {names}")
        self.rise = {"a": ("a", fr[0]), "b": ("b", to[0])}
        self.clocks = ("a", "b", fr[0], to[0])
        return frag

    def bind(self, D):
        CdcStreamHarness.bind(self, D)
        self.rst = (D.i(self.dut.cd_a.rst), D.i(self.dut.cd_b.rst))

    def env_init(self):
        return CdcStreamHarness.env_init(self) + (0,)

    def choices(self, env):
        rs = env[4]
        if rs == 0:
            return [c + (None,) for c in CdcStreamHarness.choices(self, env[:4])] + [(3, None, None, 0), (3, None, None, 1)]
        return [(0, None, None, None), (1, None, None, None), (2, None, None, None)]

    def drive(self, v, env, ch):
        CdcStreamHarness.drive(self, v, env[:4], ch)
        rs = env[4]
        v[self.rst[0]] = 1 if rs != 0 and rs[0] == 0 else 0
        v[self.rst[1]] = 1 if rs != 0 and rs[0] == 1 else 0

    def observe(self, v, env, ch):
        rs = env[4]
        t = ch[0]
        if rs == 0:
            if t == 3:      # asynchronous start of a reset pulse
                nid, pd, rd, mon = env[:4]
                self.resets += 1
                if mon[1]:
                    self.resets_nonempty += 1
                return (nid, self.idle_patterns[0], 0, self.model.init(), (ch[3], 0, 0, 0)), None, 0
            e2, err, flags = CdcStreamHarness.observe(self, v, env[:4], ch[:3])
            return (e2 + (0,) if err is None else env), err, flags
        which, phase, ca, cb = rs
        ts = TICKSETS[t]
        need = self.hold[phase]
        ca, cb = min(need, ca + ("a" in ts)), min(need, cb + ("b" in ts))
        if ca >= need and cb >= need:
            phase, ca, cb = phase + 1, 0, 0
            while phase < 2 and self.hold[phase] == 0:
                phase += 1
        if phase >= 2:
            self.resets_done += 1
            rs2 = 0
        else:
            rs2 = (which, phase, ca, cb)
        return env[:4] + (rs2,), None, TICKFLAGS[t]

    def cover_report(self):
        d = CdcStreamHarness.cover_report(self)
        d.update(reset_pulses_started=self.resets, reset_pulses_started_with_elements_in_flight=self.resets_nonempty,
                 reset_pulse_hold=list(self.hold))
        return d

    def vacuity(self):
        if not self.resets_nonempty:
            return "no reset pulse started while elements were in flight"
        return CdcStreamHarness.vacuity(self)
