"""C05 — clock-domain crossings never corrupt, drop, duplicate or reorder data (DESIGN.md §4 C05).

Two base clocks `a` and `b`; every step one of {a}, {b}, {a,b} rises (all interleavings, simultaneous edges included; unbounded
drift for the FIFO crossings, drift <= R for the time-out based BusSynchronizer).  Environment processes are registers of their
own domain: the producer / master only moves on `a` ticks, the consumer / slave on `b` ticks.

Sampling faults.  Every `MultiReg` of the elaborated design is lowered by a *tagging* lowerer (Harness.special_overrides) to the
unmodified `MultiRegImpl`; the lowerer only remembers (input expression, first register, destination domain).  The input expression
is compiled with the fast stepper's own expression compiler and evaluated on the valuation before and after the edge.  Whenever it
differs in an instant in which both base clocks rise, the first flop takes every per-bit mixture of old and new (2^d successors,
cross product over all synchronisers that are hit); the forced values travel in the trace as `(choice, {signal index: value})` and
are applied in the same way when a counterexample is re-played through LiteX's own Evaluator.
Limits (kept simple on purpose): unsigned synchronisers only; a change is attributed to the other clock whenever both clocks rise
(over-approximation); environment inputs may reach a synchroniser only as its plain input signal (BusSynchronizer width 1);
faults are injected at MultiReg first stages only — that this covers every crossing is *checked* per configuration by a structural
pass over the lowered fragment (rules struct.first_flop_exposed / struct.unsynchronised_crossing), the one exempted crossing, the
words of a dual-clock memory, is attacked by the 'emitted+collide' variant (a READ_FIRST data register that reads the word being
written by the other clock in the same instant gets the complement of what the simulator latched).

Memory variants.  'sim': the fragment exactly as LiteX simulates it (transparent address register).  'emitted': every port of a
memory whose ports use different clocks is switched to READ_FIRST before elaboration, which is what litex/gen/fhdl/memory.py does
when it prints the memory, so that what is explored is what is synthesised.
"""
import fsmc  # noqa  (first: sys.path + tracer shim)
import itertools
from migen import *
from migen.fhdl.structure import _Assign
from migen.fhdl.specials import Memory, READ_FIRST
from migen.fhdl.tools import list_signals, list_targets
from migen.genlib.cdc import MultiReg, MultiRegImpl, PulseSynchronizer
from fsmc.explore import Harness, Explorer, replay_stock, PROGRESS, OUTPROG, TICK_A, TICK_B
from fsmc.design import MachineryError
from checks.streamlib import Port, Identity, par_raw, flat_fields

PROPERTY = "C05"
LEVEL = "model_checking"
RULE = ("BFS to closure of (real two-clock FHDL x domain-registered producer/consumer x scoreboard) under every edge schedule "
        "{a},{b},{a,b} per step, every handshake choice and every per-bit old/new resolution of the first flop of each tagged "
        "MultiReg whose input changes in a sampling instant; a state is distinct by its 96-bit digest; fair-cycle search "
        "(both clocks tick) on the closed graph; per-config counts in per_config")
ASSUMPTIONS = [
    "2-state zero-delay FHDL semantics of litex.gen.sim; simultaneous edges: all rising domains read pre-edge values (LiteX's rule)",
    "metastability = a first synchroniser flop sampling a changing input latches old or new per bit and is decided one destination period later; "
    "longer metastability, glitches on combinational synchroniser inputs, clock glitches and the real AsyncResetSynchronizer are not modelled",
    "sampling faults are injected at tagged MultiReg first stages; that no other register samples the other clock's state (except words of a "
    "dual-clock memory, attacked by the emitted+collide variant) and that only the second stage reads a first flop is checked structurally (struct.* rules)",
    "a changing synchroniser input is attributed to the other clock whenever both base clocks rise in the instant (over-approximation)",
    "producer is a register process of domain a (holds valid + token until accepted, all-ones idle garbage; all-zeros too in one thorough variant), "
    "consumer a register process of domain b (ready free per b tick)",
    "token ids mod M (M = 2*capacity+2), first/last/param derived from the id; data independence is checked syntactically (no payload line reaches a condition, Mux select or Array key)",
    "occupancy bound: depth, +2 for the buffered variants (DESIGN C05); measured maximum reported per configuration",
    "BusSynchronizer: relative drift bounded by R (at most R edges of one clock between two edges of the other), time-out T = 8*(R+1) > one round trip; "
    "input restricted to even-parity code words so that any torn word is a non-code word; o may only change to a value i has held since o last changed",
    "with_common_rst: a reset pulse on rst_a or rst_b starts asynchronously and is held until each clock has risen once (both pointer sets cleared) and then twice "
    "more (reset-less synchroniser flops flushed) - what the real two-flop AsyncResetSynchronizer gives for a pulse covering one edge of each clock; the simulator's "
    "combinational stand-in does not stretch the pulse.  Producer and consumer are reset with it; elements in flight are dropped by design",
    "AXILiteClockDomainCrossing: one outstanding operation, one address, two alternating data marks, slave accepts what it can hold and answers one b tick later, all-ones idle garbage on all five channels",
    "stream.Monitor: a reset/latch line is pulsed again only after the previous pulse was delivered (PulseSynchronizer's premise); only the pulse path is judged, "
    "the multi-bit count crossing through a plain MultiReg is outside the property",
    "weak fairness of both clocks for liveness",
    "sensitivity runs (cover key sensitivity_not_a_verdict) violate a premise on purpose and are never verdicts",
    "parameters limited to the listed configurations; tracer shim (names only)",
]

# harness-owned edge flags (bits >= 32; 8 and 16 are TICK_A / TICK_B)
OFFER, RDY, PENDING, INPROG = 32, 64, 128, 256
STABLE, MISMATCH = 512, 1024
TICKSETS = (("a",), ("b",), ("a", "b"), ())         # index 3: no clock rises (an asynchronous environment event)
TICKFLAGS = (TICK_A, TICK_B, TICK_A | TICK_B, 0)
CLOCKED = ((0, ("a",)), (1, ("b",)), (2, ("a", "b")))


def _tagger(store):
    class TaggingMultiReg:
        """lowers to the unmodified MultiRegImpl and remembers it (input expression, first flop, destination domain)"""
        @staticmethod
        def lower(dr):
            impl = MultiRegImpl(dr.i, dr.o, dr.odomain, dr.n, dr.reset)
            store.append(impl)
            return impl
    return TaggingMultiReg


def force_emitted_memory_modes(frag):
    """what litex/gen/fhdl/memory.py does when it prints a memory whose ports use different clocks: every port READ_FIRST
    (data register clocked by the port's own clock instead of the simulator's transparent address register)."""
    n = 0
    for mem in frag.specials:
        if isinstance(mem, Memory):
            cds = [p.clock.cd for p in mem.ports]
            if cds.count(cds[0]) != len(cds):
                for p in mem.ports:
                    p.mode = READ_FIRST
                n += 1
    return n


def _direct_deps(stmts, ctx, out):
    """target -> signals read to compute it (right-hand side, index expressions, enclosing If/Case conditions)"""
    for st in stmts:
        if isinstance(st, _Assign):
            tg = list_targets(st)
            rd = ctx | list_signals(st.r) | (list_signals(st.l) - tg)
            for t in tg:
                out.setdefault(t, set()).update(rd)
        elif isinstance(st, If):
            c = ctx | list_signals(st.cond)
            _direct_deps(st.t, c, out)
            _direct_deps(st.f, c, out)
        elif isinstance(st, Case):
            c = ctx | list_signals(st.test)
            for body in st.cases.values():
                _direct_deps(body, c, out)
        elif isinstance(st, (list, tuple)):
            _direct_deps(st, ctx, out)
        elif isinstance(st, (Display, Finish)):
            pass
        else:
            raise MachineryError(f"crossing lint: unknown statement {type(st)}")


def _expr_selectors(e, out):
    """signals that *select* inside an expression: Mux conditions and Array keys"""
    from migen.fhdl.structure import _Operator, _Slice, _ArrayProxy
    from migen.fhdl.specials import _MemoryLocation
    if isinstance(e, _Operator):
        if e.op == "m":
            out |= list_signals(e.operands[0])
        for o in e.operands:
            _expr_selectors(o, out)
    elif isinstance(e, _Slice):
        _expr_selectors(e.value, out)
    elif isinstance(e, Cat):
        for o in e.l:
            _expr_selectors(o, out)
    elif isinstance(e, Replicate):
        _expr_selectors(e.v, out)
    elif isinstance(e, _ArrayProxy):
        out |= list_signals(e.key)
        _expr_selectors(e.key, out)
        for c in e.choices:
            _expr_selectors(c, out)
    elif isinstance(e, _MemoryLocation):
        out |= list_signals(e.index)


def control_signals(f):
    """every signal that can influence *which* assignment happens or *where* data goes (If/Case conditions, Mux selects, Array
    keys), closed over combinational logic.  Used to check the data-independence assumption behind token ids."""
    sel = set()
    def walk(stmts):
        for st in stmts:
            if isinstance(st, _Assign):
                _expr_selectors(st.l, sel)
                _expr_selectors(st.r, sel)
            elif isinstance(st, If):
                sel.update(list_signals(st.cond))
                walk(st.t)
                walk(st.f)
            elif isinstance(st, Case):
                sel.update(list_signals(st.test))
                for body in st.cases.values():
                    walk(body)
            elif isinstance(st, (list, tuple)):
                walk(st)
    walk(f.comb)
    for st in f.sync.values():
        walk(st)
    comb = {}
    _direct_deps(f.comb, set(), comb)
    seen, todo = set(), list(sel)
    while todo:
        x = todo.pop()
        if x in seen:
            continue
        seen.add(x)
        todo += list(comb.get(x, ()))
    return seen


def crossing_lint(D, tagged, base_of, input_domain, storage, sampled_inputs=()):
    """Side-condition of the fault model, *checked* instead of assumed: sampling faults are injected at the first flop of every
    MultiReg, which is only sound if (1) nothing but the next synchroniser stage reads a first flop and (2) no other register
    samples state (or declared inputs) of the other clock.  Exempt: words of a dual-clock memory read by the other port (a data
    path that the pointer protocol keeps stable; the 'emitted+collide' variant attacks it separately).
    Returns [(rule, msg)]."""
    f = D.f
    comb = {}
    _direct_deps(f.comb, set(), comb)
    sync = {}
    dom = {}
    for cd, st in f.sync.items():
        d = {}
        _direct_deps(st, set(), d)
        for t, rd in d.items():
            sync.setdefault(t, set()).update(rd)
            dom[t] = base_of(cd)
    def leaves(sigs):
        seen, todo, out = set(), list(sigs), set()
        while todo:
            x = todo.pop()
            if x in seen:
                continue
            seen.add(x)
            if x in comb and x not in sync:
                todo += list(comb[x])
            else:
                out.add(x)
        return out
    def nm(x):
        return x.backtrace[-1][0] if getattr(x, "backtrace", None) else repr(x)
    out = []
    first = {impl.regs[0]: impl for impl in tagged}
    for impl in tagged:
        r0 = impl.regs[0]
        # environment inputs reach a synchroniser only as its plain input signal (then the harness tells the fault model their next
        # value, see next_inputs); through logic they would change unseen by the fault model
        for x in leaves(list_signals(impl.i)):
            if x in input_domain and not (x in sampled_inputs and impl.i is x):
                # a synchroniser fed by combinational logic of the other domain: its first flop can latch a glitch of that logic and a
                # source pulse shorter than a destination period is simply not seen - not a registered crossing (and nothing the
                # per-flop fault model could follow)
                out.append(("struct.comb_into_synchroniser", f"the synchroniser into domain {impl.odomain} samples combinational logic of the other "
                            f"domain (input {nm(x)} through logic), not a register"))
                break
        allowed = impl.regs[1] if len(impl.regs) > 1 else None
        readers = [t for m in (comb, sync) for t, rd in m.items() if r0 in rd and t is not allowed and t is not r0]
        if readers:
            out.append(("struct.first_flop_exposed", f"first (possibly undecided) flop of the {len(impl.regs)}-stage synchroniser into domain "
                        f"{impl.odomain} is read by {sorted(nm(t) for t in readers)}"))
    for r, rd in sync.items():
        if r in first:
            continue
        here = dom[r]
        bad = []
        for x in leaves(rd):
            if x in storage:
                continue
            xd = dom.get(x, input_domain.get(x))
            if xd is not None and xd != here:
                bad.append(x)
        if bad:
            out.append(("struct.unsynchronised_crossing", f"register {nm(r)} of clock {here} samples {sorted(nm(x) for x in bad)} "
                        f"of the other clock without a synchroniser"))
    return sorted(set(out))


def _driven(ep, master):
    """signals of a stream endpoint that the environment drives as the master (valid + payload) or as the slave (ready)"""
    if not master:
        return [ep.ready]
    return [ep.valid, ep.first, ep.last] + [x[2] for x in flat_fields(ep.payload)] + [x[2] for x in flat_fields(ep.param)]


class CdcHarness(Harness):
    """Common part: tagged synchronisers, sampling faults, cover counters."""
    clocks = ("a", "b")
    conf_every = 211
    conf_first = 300
    time_cap = 3000        # the binding caps are the deterministic state caps below; wall-clock is only a safety net

    def __init__(self, name, factory, mem="sim", fault=True):
        self.name, self.factory, self.mem, self.fault = name, factory, mem, fault
        self.tagged = []
        self.special_overrides = {MultiReg: _tagger(self.tagged)}
        self.rise = {"a": ("a",), "b": ("b",)}      # base clock -> every domain of the design that rises with it
        self.n_simul = self.n_cross = self.n_faults = self.n_collide = 0
        self.max_fault_bits = 0
        self.emitted_mems = 0

    # -- elaboration ----------------------------------------------------------------------------------------
    def build(self):
        self.dut = dut = self.factory()
        frag = dut.get_fragment()
        self.mems = [m for m in frag.specials if isinstance(m, Memory)]
        self.memports = [(m, list(m.ports)) for m in self.mems]
        if self.mem != "sim":
            self.emitted_mems = force_emitted_memory_modes(frag)
            if not self.emitted_mems:
                raise MachineryError(f"{self.name}: no dual-clock memory to switch to READ_FIRST")
        return frag

    def base_of(self, cd):
        for b, ds in self.rise.items():
            if cd in ds:
                return b
        raise MachineryError(f"{self.name}: clock domain {cd} is not attached to a base clock")

    def bind_cdc(self, D):
        self.D = D
        c = D.fs.c
        n0 = len(c.sigs)
        self.mr = []
        for impl in self.tagged:
            r0 = impl.regs[0]
            if r0.signed:
                raise MachineryError("signed synchroniser: not supported by the sampling-fault model")
            fn = eval("lambda v: " + c.ex(impl.i))
            self.mr.append((impl.odomain, self.base_of(impl.odomain), c.idx[r0], fn, (1 << len(r0)) - 1, len(r0)))
        # dual-clock memories with a registered (READ_FIRST) read port: read-during-write collisions
        self.coll = []
        if self.mem == "emitted+collide":
            for mem, ports in self.memports:
                arr = D.sim.evaluator.replaced_memories[mem]
                wr = [p for p in ports if p.we is not None]
                rd = [p for p in ports if p.we is None and not p.async_read]
                for r in rd:
                    for w in wr:
                        if r.clock.cd != w.clock.cd:
                            if r.re is not None or len(w.we) != 1:
                                raise MachineryError("collision model: read-enable / write-granularity not supported")
                            self.coll.append((self.base_of(r.clock.cd), self.base_of(w.clock.cd), c.idx[r.dat_r],
                                              eval("lambda v: " + c.ex(r.adr)), eval("lambda v: " + c.ex(w.adr)),
                                              eval("lambda v: " + c.ex(w.we)), (1 << len(r.dat_r)) - 1, len(arr)))
            if not self.coll:
                raise MachineryError(f"{self.name}: no dual-clock read/write port pair for the collision model")
        if len(c.sigs) != n0:
            raise MachineryError("a synchroniser input mentions a signal outside the lowered fragment")
        if self.fault and not self.mr:
            raise MachineryError(f"{self.name}: no MultiReg was tagged")

    def input_domains(self):
        """{input Signal: base clock of the environment register that drives it}"""
        return {}

    def lint(self):
        storage = set()
        for arr in self.D.sim.evaluator.replaced_memories.values():
            storage |= set(arr)
        return crossing_lint(self.D, self.tagged, self.base_of, self.input_domains(), storage, self.sampled_inputs())

    def sampled_inputs(self):
        """environment inputs that are the plain input of a synchroniser and are reported by next_inputs"""
        return ()

    # -- schedule -------------------------------------------------------------------------------------------
    def tickset(self, ch):
        return TICKSETS[ch[0]]

    def ticks(self, env, ch):
        ts = self.tickset(ch)
        if len(ts) == 2:
            self.n_simul += 1
        out = ()
        for b in ts:
            out += self.rise[b]
        return out

    def next_inputs(self, env, ch):
        """{signal index: value} of environment-driven inputs that change *in this instant* (registers of the ticking domain)"""
        return None

    # -- sampling faults ------------------------------------------------------------------------------------
    def faults(self, vpre, vpost, env, ch, cds):
        ts = self.tickset(ch)
        if len(ts) < 2:
            return None            # a single clock rises: nothing of the other domain changes in this instant
        vp = vpost
        nx = self.next_inputs(env, ch)
        if nx:
            vp = list(vpost)
            for i, x in nx.items():
                vp[i] = x
        opts = []
        if self.fault:
            for od, base, r0, fn, mask, w in self.mr:
                old, new = fn(vpre) & mask, fn(vp) & mask
                if vpost[r0] != old:
                    raise MachineryError(f"{self.name}: first flop of a tagged MultiReg did not latch its pre-edge input")
                if old != new:
                    diff = old ^ new
                    bits = [b for b in range(w) if (diff >> b) & 1]
                    if len(bits) > self.max_fault_bits:
                        self.max_fault_bits = len(bits)
                    vals = []
                    for sub in range(1 << len(bits)):
                        x = old
                        for j, b in enumerate(bits):
                            if (sub >> j) & 1:
                                x ^= 1 << b
                        vals.append(x)
                    opts.append((r0, old, vals))
        common = {}
        for rb, wb, dat_r, radr, wadr, we, mask, depth in self.coll:
            # READ_FIRST data register loaded from the word that the other clock writes in the same instant: a real
            # dual-clock RAM returns undefined data; modelled as the complement of what the simulator latched.
            if we(vpre) & 1 and (radr(vpre) % depth) == (wadr(vpre) % depth):
                common[dat_r] = (~vpost[dat_r]) & mask
                self.n_collide += 1
        if not opts:
            return [common] if common else None
        self.n_cross += 1
        alts = []
        for combo in itertools.product(*[o[2] for o in opts]):
            d = dict(common)
            for (r0, old, vals), x in zip(opts, combo):
                if x != old:
                    d[r0] = x
            alts.append(d)
        self.n_faults += len(alts) - 1
        return alts

    def describe(self, c):
        return c

    def cdc_cover(self):
        return dict(simultaneous_edge_steps=self.n_simul, steps_with_crossing_change_in_sampling_instant=self.n_cross,
                    fault_successors=self.n_faults, max_bits_changing_in_one_sample=self.max_fault_bits,
                    tagged_multiregs=[(od, w) for od, base, r0, fn, mask, w in self.mr],
                    memory_variant=self.mem, read_during_write_collisions=self.n_collide)


# ---------------------------------------------------------------------------------------------------------------
# Streams: AsyncFIFO / ClockDomainCrossing / UART FIFO
# ---------------------------------------------------------------------------------------------------------------
class CdcStreamHarness(CdcHarness):
    """env = (nid, pd, rd, mon): next token id; producer drive (0/1 = idle with all-0/all-1 garbage, 2 = offering token nid);
    consumer ready; scoreboard.  choice = (tick set, producer's next drive (taken at an a tick), consumer's next ready (b tick))."""
    live_queries = (
        ("live.deadlock", OFFER | RDY, PROGRESS, (TICK_A, TICK_B),
         "producer offers, consumer is ready, both clocks keep ticking, no handshake at all"),
        ("live.starve_out", RDY | PENDING, OUTPROG, (TICK_A, TICK_B),
         "an accepted element is pending, consumer ready and both clocks tick for ever, never delivered"),
        ("live.starve_in", OFFER | RDY, INPROG, (TICK_A, TICK_B),
         "producer offers, consumer drains and both clocks tick for ever, the offered element is never accepted"),
    )

    def __init__(self, name, factory, capacity, mem="sim", fault=True, idle_patterns=(1,), cap=None,
                 sink="sink", source="source"):
        CdcHarness.__init__(self, name, factory, mem, fault)
        self.capacity = capacity
        self.M = 2*capacity + 2
        self.idle_patterns = tuple(idle_patterns)     # 1: all lines high while valid = 0 (never equals a token), 0: all low
        self.sink_name, self.source_name = sink, source
        if cap:
            self.cap = cap
        self.hs = set()
        self.maxq = 0

    def bind(self, D):
        self.bind_cdc(D)
        self.sink = S = Port(D, getattr(self.dut, self.sink_name))
        self.source = Port(D, getattr(self.dut, self.source_name))
        self.model = Identity(S.paybits, self.capacity)
        idb = max(1, (self.M - 1).bit_length())
        if S.paybits < idb:
            raise MachineryError(f"{self.name}: payload of {S.paybits} bits cannot carry ids mod {self.M}")
        rep, k = 0, 0
        while k < S.paybits:
            rep |= 1 << k
            k += idb
        self.alphabet = [(i * rep) & ((1 << S.paybits) - 1) for i in range(self.M)]
        # data independence (token ids instead of all payload values) is checked, not assumed: no payload / param / first / last
        # line of the sink may reach an If/Case condition, a Mux select or an Array key of the lowered fragment
        ctl = control_signals(D.f)
        leak = [x for x in _driven(S.ep, True)[1:] if x in ctl]
        if leak:
            raise MachineryError(f"{self.name}: control depends on payload lines {[x.backtrace[-1][0] for x in leak]}: ids are not enough")

    def input_domains(self):
        d = {x: "a" for x in _driven(self.sink.ep, True)}
        d.update({x: "b" for x in _driven(self.source.ep, False)})
        return d

    def token(self, nid):
        return (self.alphabet[nid], nid & 1, (nid >> 1) & 1, par_raw(nid & 1, self.sink.parbits))

    def env_init(self):
        return (0, self.idle_patterns[0], 0, self.model.init())

    def choices(self, env):
        npds = self.idle_patterns + (2,)
        out = []
        for t, ts in CLOCKED:
            for npd in (npds if "a" in ts else (None,)):
                for nrd in ((0, 1) if "b" in ts else (None,)):
                    out.append((t, npd, nrd))
        return out

    def drive(self, v, env, ch):
        nid, pd, rd, mon = env
        if pd == 2:
            self.sink.drive_token(v, *self.token(nid))
        else:
            self.sink.drive_idle(v, pd)
        v[self.source.ready] = rd

    def observe(self, v, env, ch):
        nid, pd, rd, mon = env
        t, npd, nrd = ch
        ts = TICKSETS[t]
        S, O = self.sink, self.source
        in_hs = pd == 2 and v[S.ready] and "a" in ts
        out_hs = v[O.valid] and rd and "b" in ts
        self.hs.add((pd == 2, v[S.ready], v[O.valid], rd, t))
        pending = self.model.pending(mon)
        err = None
        if out_hs:
            mon, err = self.model.out(mon, O.read(v))
        if in_hs and err is None:
            mon, err = self.model.offer(mon, self.token(nid))
        if err is not None:
            return env, err, 0
        if len(mon[1]) > self.maxq:
            self.maxq = len(mon[1])
        nid2 = (nid + 1) % self.M if in_hs else nid
        pd2 = pd
        if "a" in ts and not (pd == 2 and not in_hs):
            pd2 = npd
        rd2 = nrd if "b" in ts else rd
        flags = TICKFLAGS[t]
        if pd == 2:
            flags |= OFFER
        if rd:
            flags |= RDY
        if pending:
            flags |= PENDING
        if in_hs:
            flags |= INPROG | PROGRESS
        if out_hs:
            flags |= OUTPROG | PROGRESS
        return (nid2, pd2, rd2, mon), None, flags

    def cover_report(self):
        d = self.cdc_cover()
        d.update(handshake_patterns=len(self.hs), max_occupancy=self.maxq, capacity_bound=self.capacity, ids_mod=self.M)
        return d

    def vacuity(self):
        if self.maxq < self.capacity - 2:
            return f"occupancy never above {self.maxq}"
        if not self.n_simul:
            return "no simultaneous-edge step"
        if self.fault and not self.n_cross:
            return "no crossing signal ever changed in a sampling instant"
        return None


class SameDomainWrapper(Module):
    """ClockDomainCrossing's cd_from == cd_to shortcut in a domain that is NOT "sys", next to an unrelated "sys" clock"""
    def __init__(self, layout, buffered):
        from litex.soc.interconnect import stream
        self.clock_domains.cd_a = ClockDomain("a")
        self.clock_domains.cd_sys = ClockDomain("sys")
        self.submodules.cdc = cdc = stream.ClockDomainCrossing(layout, "a", "a", buffered=buffered)
        self.sink, self.source = cdc.sink, cdc.source


class SameDomainHarness(CdcStreamHarness):
    """Producer AND consumer are register processes of domain a; base clock b only drives "sys", which the element must not use.
    choice = (tick set, producer's next drive, consumer's next ready), both taken at an a tick."""

    def __init__(self, name, factory, capacity, passthrough=False, **kw):
        CdcStreamHarness.__init__(self, name, factory, capacity, fault=False, **kw)
        self.passthrough = passthrough
        self.rise = {"a": ("a",), "b": ("sys",)}
        self.clocks = ("a", "sys")

    def input_domains(self):
        d = {x: "a" for x in _driven(self.sink.ep, True)}
        d.update({x: "a" for x in _driven(self.source.ep, False)})
        return d

    def choices(self, env):
        npds = self.idle_patterns + (2,)
        out = []
        for t, ts in CLOCKED:
            if "a" in ts:
                out += [(t, npd, nrd) for npd in npds for nrd in (0, 1)]
            else:
                out.append((t, None, None))
        return out

    def observe(self, v, env, ch):
        nid, pd, rd, mon = env
        t, npd, nrd = ch
        ts = TICKSETS[t]
        S, O = self.sink, self.source
        in_hs = pd == 2 and v[S.ready] and "a" in ts
        out_hs = v[O.valid] and rd and "a" in ts
        self.hs.add((pd == 2, v[S.ready], v[O.valid], rd, t))
        pending = self.model.pending(mon)
        err = None
        if self.passthrough:
            # unbuffered shortcut = a combinational connection: the token accepted in this instant is the one handed over
            if in_hs:
                mon, err = self.model.offer(mon, self.token(nid))
            if len(mon[1]) > self.maxq:
                self.maxq = len(mon[1])
            if out_hs and err is None:
                mon, err = self.model.out(mon, O.read(v))
        else:
            if out_hs:
                mon, err = self.model.out(mon, O.read(v))
            if in_hs and err is None:
                mon, err = self.model.offer(mon, self.token(nid))
        if err is not None:
            return env, err, 0
        if len(mon[1]) > self.maxq:
            self.maxq = len(mon[1])
        nid2 = (nid + 1) % self.M if in_hs else nid
        pd2 = pd
        if "a" in ts and not (pd == 2 and not in_hs):
            pd2 = npd
        rd2 = nrd if "a" in ts else rd
        flags = TICKFLAGS[t]
        if pd == 2:
            flags |= OFFER
        if rd:
            flags |= RDY
        if pending:
            flags |= PENDING
        if in_hs:
            flags |= INPROG | PROGRESS
        if out_hs:
            flags |= OUTPROG | PROGRESS
        return (nid2, pd2, rd2, mon), None, flags

    def vacuity(self):
        if not self.n_simul:
            return "no simultaneous-edge step"
        if self.maxq < 1:
            return "nothing was ever held"
        return None


# ---------------------------------------------------------------------------------------------------------------
# BusSynchronizer
# ---------------------------------------------------------------------------------------------------------------
def code_words(width):
    """even-parity words: two different code words differ in >= 2 bits and every proper per-bit mixture of two code words that
    differ in exactly 2 bits has odd parity; for width 2 ({00, 11}) and width 3 ({000, 011, 101, 110}) every pair differs in
    exactly 2 bits, so every torn word is a non-code word."""
    return tuple(x for x in range(1 << width) if bin(x).count("1") % 2 == 0) if width > 1 else (0, 1)


class BusSyncHarness(CdcHarness):
    """env = (ci, drift, o_prev, hist): value the a-domain register driving `i` holds; edges of one clock since the other ticked
    (+: a, -: b); last value seen at `o`; bit set of the values `i` has held since `o` last changed.
    choice = (tick set, next value of i (taken at an a tick))."""
    live_queries = (
        ("live.bus_stuck", STABLE | MISMATCH, 0, (TICK_A, TICK_B),
         "input held constant, both clocks keep ticking (drift <= R), output never becomes equal to the input"),
    )

    def __init__(self, name, width, R, T, fault=True, cap=None):
        from litex.gen.genlib.cdc import BusSynchronizer
        CdcHarness.__init__(self, name, lambda: BusSynchronizer(width, "a", "b", timeout=T), "sim", fault)
        self.width, self.R, self.T = width, R, T
        self.codes = code_words(width)
        if width in (2, 3):
            for x in self.codes:
                for y in self.codes:
                    assert x == y or bin(x ^ y).count("1") == 2
        if cap:
            self.cap = cap
        self.conf_every = 7 if width <= 2 else 211
        self.o_changes = 0
        self.o_seen = set()

    def bind(self, D):
        self.bind_cdc(D)
        self.I, self.O = D.i(self.dut.i), D.i(self.dut.o)

    def input_domains(self):
        return {self.dut.i: "a"}

    def sampled_inputs(self):
        return (self.dut.i,)

    def env_init(self):
        return (0, 0, 0, 1)

    def choices(self, env):
        ci, drift, op, hist = env
        out = []
        for t, ts in CLOCKED:
            nd = self.drift(drift, t)
            if abs(nd) > self.R:
                continue
            for ni in (self.codes if "a" in ts else (None,)):
                out.append((t, ni))
        return out

    @staticmethod
    def drift(drift, t):
        if t == 0:
            return max(drift, 0) + 1
        if t == 1:
            return min(drift, 0) - 1
        return 0

    def drive(self, v, env, ch):
        v[self.I] = env[0]

    def next_inputs(self, env, ch):
        t, ni = ch
        if ni is not None and ni != env[0]:
            return {self.I: ni}
        return None

    def observe(self, v, env, ch):
        ci, drift, op, hist = env
        t, ni = ch
        flags = TICKFLAGS[t]
        if ni is None or ni == ci:
            flags |= STABLE
        if v[self.O] != ci:
            flags |= MISMATCH
        # 5th element: value present at the input during this step (consumed by post)
        return (ci if ni is None else ni, self.drift(drift, t), op, hist | (1 << ci), ci), None, flags

    def post(self, v, env2, ch):
        ci2, nd, op, hist, ci = env2
        o = v[self.O]
        if o not in self.codes:
            return env2[:4], ("bus.torn", f"o = {o:0{self.width}b} is not a word that was ever present at i (code words "
                                          f"{[format(c, '0%db' % self.width) for c in self.codes]}): torn word")
        if o != op:
            if not (hist >> o) & 1:
                return env2[:4], ("bus.stale", f"o changed {op:0{self.width}b} -> {o:0{self.width}b} although i has not held that "
                                               f"value since o last changed")
            self.o_changes += 1
            self.o_seen.add(o)
            return (ci2, nd, o, 1 << ci), None
        return env2[:4], None

    def cover_report(self):
        d = self.cdc_cover()
        d.update(o_changes=self.o_changes, o_values_seen=sorted(self.o_seen), R=self.R, timeout=self.T, code_words=list(self.codes))
        return d

    def vacuity(self):
        if len(self.o_seen) < len(self.codes):
            return f"o only showed {sorted(self.o_seen)}"
        if self.fault and not self.n_cross:
            return "no crossing signal ever changed in a sampling instant"
        return None


# ---------------------------------------------------------------------------------------------------------------
# ClockDomainCrossing(with_common_rst=True) with reset pulses of either domain
# ---------------------------------------------------------------------------------------------------------------
class CommonRstWrapper(Module):
    """the two user domains with real reset inputs + the crossing"""
    def __init__(self, layout, depth, buffered):
        from litex.soc.interconnect import stream
        self.clock_domains.cd_a = ClockDomain("a")
        self.clock_domains.cd_b = ClockDomain("b")
        cdc = stream.ClockDomainCrossing(layout, "a", "b", depth=depth, buffered=buffered, with_common_rst=True)
        # the crossing names its two internal domains after its DUID ("from<n>", "to<n>"), which differs from one elaboration to the
        # next; give them fixed names so that a recorded edge schedule can be replayed on a fresh elaboration
        names = [cd.name for cd in cdc._fragment.clock_domains]
        ren = {n: ("from_cdc" if n.startswith("from") else "to_cdc") for n in names if n.startswith(("from", "to"))}
        if sorted(ren.values()) != ["from_cdc", "to_cdc"]:
            raise MachineryError(f"ClockDomainCrossing(with_common_rst): expected one from*/to* domain pair, found {names}")
        self.sink, self.source = cdc.sink, cdc.source
        self.submodules.cdc = ClockDomainsRenamer(ren)(cdc)


class CdcStreamResetHarness(CdcStreamHarness):
    """env = (nid, pd, rd, mon, rs); rs = 0 or (which, phase, ca, cb): a reset pulse on rst_a (which=0) / rst_b (which=1) is in
    progress.  Phase 0 lasts until each clock has risen `hold[0]` times (both pointer sets cleared), phase 1 until each has risen
    `hold[1]` more times (the reset-less synchroniser flops flushed); then the pulse ends.  The pulse starts asynchronously
    (a step in which no clock rises); producer and consumer are reset with it (idle / not ready), the scoreboard is emptied."""

    def __init__(self, name, factory, capacity, hold=(1, 2), **kw):
        CdcStreamHarness.__init__(self, name, factory, capacity, **kw)
        self.hold = hold
        self.resets = self.resets_nonempty = self.resets_done = 0

    def build(self):
        frag = CdcStreamHarness.build(self)
        names = [cd.name for cd in frag.clock_domains]
        fr = [n for n in names if n.startswith("from")]
        to = [n for n in names if n.startswith("to")]
        if len(fr) != 1 or len(to) != 1:
            raise MachineryError(f"{self.name}: expected one derived from*/to* domain pair, found {names}")
        self.rise = {"a": ("a", fr[0]), "b": ("b", to[0])}
        self.clocks = ("a", "b", fr[0], to[0])
        return frag

    def bind(self, D):
        CdcStreamHarness.bind(self, D)
        self.rst = (D.i(self.dut.cd_a.rst), D.i(self.dut.cd_b.rst))

    def env_init(self):
        return CdcStreamHarness.env_init(self) + (0,)

    def choices(self, env):
        rs = env[4]
        if rs == 0:
            return [c + (None,) for c in CdcStreamHarness.choices(self, env[:4])] + [(3, None, None, 0), (3, None, None, 1)]
        return [(0, None, None, None), (1, None, None, None), (2, None, None, None)]

    def drive(self, v, env, ch):
        CdcStreamHarness.drive(self, v, env[:4], ch)
        rs = env[4]
        v[self.rst[0]] = 1 if rs != 0 and rs[0] == 0 else 0
        v[self.rst[1]] = 1 if rs != 0 and rs[0] == 1 else 0

    def observe(self, v, env, ch):
        rs = env[4]
        t = ch[0]
        if rs == 0:
            if t == 3:      # asynchronous start of a reset pulse
                nid, pd, rd, mon = env[:4]
                self.resets += 1
                if mon[1]:
                    self.resets_nonempty += 1
                return (nid, self.idle_patterns[0], 0, self.model.init(), (ch[3], 0, 0, 0)), None, 0
            e2, err, flags = CdcStreamHarness.observe(self, v, env[:4], ch[:3])
            return (e2 + (0,) if err is None else env), err, flags
        which, phase, ca, cb = rs
        ts = TICKSETS[t]
        need = self.hold[phase]
        ca, cb = min(need, ca + ("a" in ts)), min(need, cb + ("b" in ts))
        if ca >= need and cb >= need:
            phase, ca, cb = phase + 1, 0, 0
            while phase < 2 and self.hold[phase] == 0:
                phase += 1
        if phase >= 2:
            self.resets_done += 1
            rs2 = 0
        else:
            rs2 = (which, phase, ca, cb)
        return env[:4] + (rs2,), None, TICKFLAGS[t]

    def cover_report(self):
        d = CdcStreamHarness.cover_report(self)
        d.update(reset_pulses_started=self.resets, reset_pulses_started_with_elements_in_flight=self.resets_nonempty,
                 reset_pulse_hold=list(self.hold))
        return d

    def vacuity(self):
        if not self.resets_nonempty:
            return "no reset pulse started while elements were in flight"
        return CdcStreamHarness.vacuity(self)


# ---------------------------------------------------------------------------------------------------------------
# AXILiteClockDomainCrossing: single-outstanding master in domain a, memory slave in domain b
# ---------------------------------------------------------------------------------------------------------------
BUSY = 2048


class AxiLiteCdcWrapper(Module):
    def __init__(self):
        from litex.soc.interconnect.axi import AXILiteInterface, AXILiteClockDomainCrossing
        # address wider than the data word, and an address with bits above the data width set: every channel FIFO must carry its own layout
        self.m = AXILiteInterface(data_width=8, address_width=10)
        self.s = AXILiteInterface(data_width=8, address_width=10)
        self.submodules.cdc = AXILiteClockDomainCrossing(self.m, self.s, "a", "b")


class AxiLiteCdcHarness(CdcHarness):
    """env = (mph, k, mref, dl, slave) with
       mph   master phase: 0 idle, (1, awp, wp) write address/data still to be accepted, 2 waiting for B, 3 AR offered, 4 waiting for R
       k     parity of the number of writes issued (write data alternates between two marks)
       mref  data of the last write (what a read must return)
       dl    (aw, w, ar) parts of the current operation already delivered to the slave
       slave (aw, wdat, bv, rv, smem): address / data received, B / R being offered, memory word
    choice = (tick set, master action when idle at an a tick: 0 stay idle, 1 write, 2 read).  The slave is deterministic (accepts
    whatever it can hold, answers one b tick later); all five channels carry all-ones garbage while not valid."""
    ADDR, PROT, BRESP, RRESP = 0x2A6, 0b101, 0b10, 0b01
    DATA = (0xA5, 0x3C)
    live_queries = (
        ("live.axi_hang", BUSY, PROGRESS, (TICK_A, TICK_B),
         "an operation is outstanding, the slave cooperates, both clocks keep ticking, no channel handshake ever happens"),
    )

    def __init__(self, name, mem="sim", fault=True, cap=None, acts=(0, 1, 2)):
        CdcHarness.__init__(self, name, AxiLiteCdcWrapper, mem, fault)
        if cap:
            self.cap = cap
        self.acts = tuple(acts)          # what an idle master may do: 0 stay idle, 1 write, 2 read
        self.done = [0, 0]

    def bind(self, D):
        self.bind_cdc(D)
        m, s = self.dut.m, self.dut.s
        self.P = {(side, ch): Port(D, getattr(itf, ch)) for side, itf in (("m", m), ("s", s)) for ch in ("aw", "w", "b", "ar", "r")}

    def input_domains(self):
        d = {}
        for itf, dom, master in ((self.dut.m, "a", True), (self.dut.s, "b", False)):
            for ch in ("aw", "w", "ar"):
                d.update({x: dom for x in _driven(getattr(itf, ch), master)})
            for ch in ("b", "r"):
                d.update({x: dom for x in _driven(getattr(itf, ch), not master)})
        return d

    def env_init(self):
        return (0, 0, 0, (0, 0, 0), (0, None, 0, None, 0))

    def choices(self, env):
        idle = env[0] == 0
        return [(t, act) for t, ts in CLOCKED for act in (self.acts if idle and "a" in ts else (None,))]

    @staticmethod
    def _pack(P, **f):
        raw = 0
        for n, w, i, off in P.pay:
            raw |= (f[n] & ((1 << w) - 1)) << off
        return raw

    def drive(self, v, env, ch):
        mph, k, mref, dl, (saw, swd, sbv, srv, smem) = env
        P = self.P
        w = isinstance(mph, tuple)
        # master side (domain a registers)
        if w and mph[1]:
            P["m", "aw"].drive_token(v, self._pack(P["m", "aw"], addr=self.ADDR, prot=self.PROT), 0, 0, 0)
        else:
            P["m", "aw"].drive_idle(v, 1)
        if w and mph[2]:
            P["m", "w"].drive_token(v, self._pack(P["m", "w"], data=self.DATA[k], strb=1), 0, 0, 0)
        else:
            P["m", "w"].drive_idle(v, 1)
        if mph == 3:
            P["m", "ar"].drive_token(v, self._pack(P["m", "ar"], addr=self.ADDR, prot=self.PROT), 0, 0, 0)
        else:
            P["m", "ar"].drive_idle(v, 1)
        v[P["m", "b"].ready] = 1 if mph == 2 else 0
        v[P["m", "r"].ready] = 1 if mph == 4 else 0
        # slave side (domain b registers)
        v[P["s", "aw"].ready] = 1 if (not saw and not sbv) else 0
        v[P["s", "w"].ready] = 1 if (swd is None and not sbv) else 0
        v[P["s", "ar"].ready] = 1 if srv is None else 0
        if sbv:
            P["s", "b"].drive_token(v, self._pack(P["s", "b"], resp=self.BRESP), 0, 0, 0)
        else:
            P["s", "b"].drive_idle(v, 1)
        if srv is not None:
            P["s", "r"].drive_token(v, self._pack(P["s", "r"], resp=self.RRESP, data=srv), 0, 0, 0)
        else:
            P["s", "r"].drive_idle(v, 1)

    def _field(self, P, v, name):
        for n, w, i, off in P.pay:
            if n == name:
                return v[i]
        raise KeyError(name)

    def observe(self, v, env, ch):
        mph, k, mref, dl, (saw, swd, sbv, srv, smem) = env
        t, act = ch
        ts = TICKSETS[t]
        P = self.P
        prog = False
        daw, dw, dar = dl
        w = isinstance(mph, tuple)
        # responses must only be visible while the master waits for them
        if v[P["m", "b"].valid] and mph != 2:
            return env, ("axi.invented_b", "B response presented to the master without an outstanding write"), 0
        if v[P["m", "r"].valid] and mph != 4:
            return env, ("axi.invented_r", "R response presented to the master without an outstanding read"), 0
        # ---- slave side, b ticks
        if "b" in ts:
            if v[P["s", "aw"].valid] and v[P["s", "aw"].ready]:
                if daw or not (w or mph == 2):
                    return env, ("axi.dup_aw", "slave receives a write address that no outstanding write owes it"), 0
                got = (self._field(P["s", "aw"], v, "addr"), self._field(P["s", "aw"], v, "prot"))
                if got != (self.ADDR, self.PROT):
                    return env, ("axi.data_aw", f"AW payload (addr, prot) = {got}, sent {(self.ADDR, self.PROT)}"), 0
                saw, daw, prog = 1, 1, True
            if v[P["s", "w"].valid] and v[P["s", "w"].ready]:
                if dw or not (w or mph == 2):
                    return env, ("axi.dup_w", "slave receives write data that no outstanding write owes it"), 0
                got = (self._field(P["s", "w"], v, "data"), self._field(P["s", "w"], v, "strb"))
                if got != (self.DATA[k], 1):
                    return env, ("axi.data_w", f"W payload (data, strb) = {got}, sent {(self.DATA[k], 1)}"), 0
                swd, dw, prog = got[0], 1, True
            if v[P["s", "ar"].valid] and v[P["s", "ar"].ready]:
                if dar or mph not in (3, 4):
                    return env, ("axi.dup_ar", "slave receives a read address that no outstanding read owes it"), 0
                got = (self._field(P["s", "ar"], v, "addr"), self._field(P["s", "ar"], v, "prot"))
                if got != (self.ADDR, self.PROT):
                    return env, ("axi.data_ar", f"AR payload (addr, prot) = {got}, sent {(self.ADDR, self.PROT)}"), 0
                srv, dar, prog = smem, 1, True
            else:
                if srv is not None and v[P["s", "r"].ready]:
                    srv, prog = None, True
            if sbv:
                if v[P["s", "b"].ready]:
                    sbv, prog = 0, True
            elif saw and swd is not None:
                smem, saw, swd, sbv = swd, 0, None, 1
        # ---- master side, a ticks
        if "a" in ts:
            if w:
                awp, wp = mph[1], mph[2]
                if awp and v[P["m", "aw"].ready]:
                    awp, prog = 0, True
                if wp and v[P["m", "w"].ready]:
                    wp, prog = 0, True
                mph = (1, awp, wp) if (awp or wp) else 2
            elif mph == 2:
                if v[P["m", "b"].valid]:
                    got = self._field(P["m", "b"], v, "resp")
                    if got != self.BRESP:
                        return env, ("axi.data_b", f"B resp = {got}, sent {self.BRESP}"), 0
                    if not (daw and dw):
                        return env, ("axi.invented_b", "B response before the slave received both address and data"), 0
                    mph, k, daw, dw, prog = 0, k ^ 1, 0, 0, True
                    self.done[0] += 1
            elif mph == 3:
                if v[P["m", "ar"].ready]:
                    mph, prog = 4, True
            elif mph == 4:
                if v[P["m", "r"].valid]:
                    got = (self._field(P["m", "r"], v, "data"), self._field(P["m", "r"], v, "resp"))
                    if not dar:
                        return env, ("axi.invented_r", "R response before the slave received the address"), 0
                    if got != (mref, self.RRESP):
                        return env, ("axi.data_r", f"R (data, resp) = {got}, expected {(mref, self.RRESP)}"), 0
                    mph, dar, prog = 0, 0, True
                    self.done[1] += 1
            elif act == 1:
                mph, mref = (1, 1, 1), self.DATA[k]
            elif act == 2:
                mph = 3
        flags = TICKFLAGS[t]
        if env[0] != 0:
            flags |= BUSY
        if prog:
            flags |= PROGRESS
        return (mph, k, mref, (daw, dw, dar), (saw, swd, sbv, srv, smem)), None, flags

    def cover_report(self):
        d = self.cdc_cover()
        d.update(writes_completed=self.done[0], reads_completed=self.done[1])
        return d

    def vacuity(self):
        if (1 in self.acts and not self.done[0]) or (2 in self.acts and not self.done[1]):
            return f"completed (writes, reads) = {self.done}"
        return None


# ---------------------------------------------------------------------------------------------------------------
# stream.Monitor(clock_domain != sys): reset / latch pulses carried by PulseSynchronizers
# ---------------------------------------------------------------------------------------------------------------
PEND0, PEND1, DELIV0, DELIV1 = 4096, 8192, 16384, 32768


class MonitorPulseHarness(CdcHarness):
    """env = (l0, l1): state of the `reset` and `latch` lines (0 idle, 1 pulse driven during this a period, 2 sent and not yet seen in
    domain b).  A line is pulsed again only after the previous pulse has been delivered (PulseSynchronizer's documented premise:
    two toggles inside one destination period cancel).  Every pulse must appear exactly once, one b period long, at the output of
    its synchroniser, and must eventually appear."""
    conf_every = 3
    live_queries = (
        ("live.pulse_lost.reset", PEND0, DELIV0, (TICK_A, TICK_B), "a reset pulse was sent, both clocks keep ticking, it never arrives"),
        ("live.pulse_lost.latch", PEND1, DELIV1, (TICK_A, TICK_B), "a latch pulse was sent, both clocks keep ticking, it never arrives"),
    )

    def __init__(self, name, fault=True):
        def mk():
            from litex.soc.interconnect import stream
            self.ep = stream.Endpoint([("data", 1)])
            mon = stream.Monitor(self.ep, count_width=2, clock_domain="b", with_tokens=True)
            # the strobes as the counter sees them in domain b, whatever carries them across: the conditions of the counter's two
            # register updates, `If(reset, ..).Elif(enable, ..)` and `If(reset, ..).Elif(latch, ..)`
            from migen.fhdl.structure import If as _If, Signal as _Sig
            sy = mon.token_counter._fragment.sync.get("b", [])
            flat = []
            def walk(x):
                for y in (x if isinstance(x, (list, tuple)) else [x]):
                    if isinstance(y, (list, tuple)):
                        walk(y)
                    else:
                        flat.append(y)
            walk(sy)
            ifs = [x for x in flat if isinstance(x, _If)]
            try:
                rst_b = ifs[0].cond
                lat_b = ifs[1].f[0].cond            # the Elif of the second statement
                assert isinstance(rst_b, _Sig) and isinstance(lat_b, _Sig) and ifs[1].cond is rst_b
            except Exception:
                raise MachineryError("stream.Monitor: could not locate the reset / latch strobes of the token counter")
            self.strobes = (rst_b, lat_b)
            self.lines = (mon.reset, mon.latch)
            return ClockDomainsRenamer({"sys": "a"})(mon)
        CdcHarness.__init__(self, name, mk, "sim", fault)
        self.delivered = [0, 0]

    def bind(self, D):
        self.bind_cdc(D)
        self.L = [D.i(s) for s in self.lines]
        self.Oo = [D.i(x) for x in self.strobes]

    def input_domains(self):
        d = {x: "a" for x in self.lines}
        d.update({self.ep.valid: "b", self.ep.ready: "b"})
        return d

    def env_init(self):
        return (0, 0)

    def choices(self, env):
        out = []
        for t, ts in CLOCKED:
            if "a" in ts:
                for s0 in ((0, 1) if env[0] == 0 else (0,)):
                    for s1 in ((0, 1) if env[1] == 0 else (0,)):
                        out.append((t, (s0, s1)))
            else:
                out.append((t, None))
        return out

    def drive(self, v, env, ch):
        for j in (0, 1):
            v[self.L[j]] = 1 if env[j] == 1 else 0

    def observe(self, v, env, ch):
        t, st = ch
        ts = TICKSETS[t]
        flags = TICKFLAGS[t]
        new = list(env)
        for j in (0, 1):
            if env[j] == 2:
                flags |= (PEND0, PEND1)[j]
            if "b" in ts and v[self.Oo[j]]:
                if env[j] != 2:
                    return env, ("pulse.invented", f"{('reset', 'latch')[j]} pulse seen in domain b although none is in flight "
                                                   f"(duplicated, stretched or spurious pulse)"), 0
                new[j] = 0
                flags |= (DELIV0, DELIV1)[j]
                self.delivered[j] += 1
            if "a" in ts:
                if env[j] == 1:
                    new[j] = 2
                elif env[j] == 0 and st[j]:
                    new[j] = 1
        return tuple(new), None, flags

    def cover_report(self):
        d = self.cdc_cover()
        d.update(pulses_delivered=dict(reset=self.delivered[0], latch=self.delivered[1]))
        return d

    def vacuity(self):
        if not all(self.delivered):
            return f"pulses delivered {self.delivered}"
        if self.fault and not self.n_cross:
            return "no crossing signal ever changed in a sampling instant"
        return None


# ---------------------------------------------------------------------------------------------------------------
# Configuration menu
# ---------------------------------------------------------------------------------------------------------------
REGISTRY = {}       # name -> (tier, factory of a fresh harness)
SENSITIVITY = {}    # name -> [(label, factory of a harness whose premise is deliberately violated, expected rule)]


def reg(name, tier, mk):
    assert name not in REGISTRY, name
    REGISTRY[name] = (tier, mk)


def _layout(capacity):
    from litex.soc.interconnect import stream
    M = 2*capacity + 2
    return stream.EndpointDescription([("data", (M - 1).bit_length())], [("p", 2)])


def _async_fifo(depth, buffered):
    def mk():
        from litex.soc.interconnect import stream
        cap = depth + (2 if buffered else 0)
        return ClockDomainsRenamer({"write": "a", "read": "b"})(stream.AsyncFIFO(_layout(cap), depth, buffered))
    return mk


def _cdc(buffered):
    def mk():
        from litex.soc.interconnect import stream
        cap = 4 + (2 if buffered else 0)
        return stream.ClockDomainCrossing(_layout(cap), "a", "b", buffered=buffered)
    return mk


def _uart_fifo():
    from litex.soc.cores import uart
    return uart._get_uart_fifo(4, sink_cd="a", source_cd="b")


def _uart_rx_path():
    """the real UART (no PHY object, FIFO depth 4) with its PHY side in domain a and everything else in sys = b: bytes offered at
    uart.sink (PHY domain) must come out of the RX FIFO in the system domain.  Without a CSR bank the read strobe of the RXTX register
    is a free input: with rx_fifo_rx_we it pops the FIFO, which makes it the consumer's ready."""
    from litex.soc.cores import uart
    from litex.soc.interconnect import stream
    class W(Module):
        def __init__(self):
            self.submodules.uart = u = uart.UART(phy=None, tx_fifo_depth=4, rx_fifo_depth=4, rx_fifo_rx_we=True, phy_cd="a")
            self.sink = u.sink
            self.source = src = stream.Endpoint([("data", 8)])
            self.comb += [src.valid.eq(u.rx_fifo.source.valid), src.data.eq(u.rx_fifo.source.data), src.first.eq(u.rx_fifo.source.first),
                          src.last.eq(u.rx_fifo.source.last), u._rxtx.we.eq(src.ready)]
    return ClockDomainsRenamer({"sys": "b"})(W())


def _menu():
    Q, T = "quick", "thorough"
    # stream.AsyncFIFO: depth x buffered x memory variant (occupancy bound: depth, +2 when buffered, DESIGN C05)
    for depth in (4, 8):
        for buffered in (False, True):
            cap = depth + (2 if buffered else 0)
            for mem in ("sim", "emitted", "emitted+collide"):
                tier = Q if depth == 4 and (mem != "emitted+collide" or not buffered) else T
                if depth == 8 and mem == "emitted+collide":
                    continue
                nm = f"AsyncFIFO(depth={depth},buffered={buffered})/mem={mem}"
                reg(nm, tier, (lambda nm=nm, depth=depth, buffered=buffered, cap=cap, mem=mem:
                               CdcStreamHarness(nm, _async_fifo(depth, buffered), cap, mem=mem, cap=4_000_000)))
    nm = "AsyncFIFO(depth=4,buffered=False)/mem=sim/idle=0s+1s"
    reg(nm, T, lambda nm=nm: CdcStreamHarness(nm, _async_fifo(4, False), 4, idle_patterns=(0, 1)))
    # stream.ClockDomainCrossing a -> b (default depth)
    for buffered in (False, True):
        cap = 4 + (2 if buffered else 0)
        nm = f"ClockDomainCrossing(a->b,buffered={buffered})/mem=sim"
        reg(nm, Q, (lambda nm=nm, buffered=buffered, cap=cap: CdcStreamHarness(nm, _cdc(buffered), cap)))
        nm = f"ClockDomainCrossing(a->b,buffered={buffered},with_common_rst)/reset_pulses"
        mkw = (lambda buffered=buffered, cap=cap: CommonRstWrapper(_layout(cap), None, buffered))
        reg(nm, Q if not buffered else T, (lambda nm=nm, mkw=mkw, cap=cap: CdcStreamResetHarness(nm, mkw, cap, hold=(1, 2), cap=4_000_000)))
        if not buffered:
            SENSITIVITY[nm] = [("reset pulse released as soon as each clock has risen once (reset-less synchroniser flops not yet flushed)",
                                (lambda nm=nm, mkw=mkw, cap=cap: CdcStreamResetHarness(nm + "/short", mkw, cap, hold=(1, 0))), "dup.invented")]
    # the cd_from == cd_to shortcut in a domain other than "sys" (an unrelated sys clock runs next to it)
    nm = "ClockDomainCrossing(a->a,buffered=True)/next to an unrelated sys clock"
    reg(nm, Q, lambda nm=nm: SameDomainHarness(nm, (lambda: SameDomainWrapper(_layout(2), True)), 2))
    nm = "ClockDomainCrossing(a->a,buffered=False)/next to an unrelated sys clock"
    reg(nm, Q, lambda nm=nm: SameDomainHarness(nm, (lambda: SameDomainWrapper(_layout(2), False)), 2, passthrough=True))
    # UART FIFO wrapper
    nm = "uart._get_uart_fifo(4,a->b)/mem=sim"
    reg(nm, Q, lambda nm=nm: CdcStreamHarness(nm, _uart_fifo, 4))
    nm = "uart.UART(phy_cd=a) RX path: uart.sink (a) -> rx_fifo -> sys (b)/mem=sim"
    reg(nm, Q, lambda nm=nm: CdcStreamHarness(nm, _uart_rx_path, 4))
    nm = "uart._get_uart_fifo(4,a->b)/mem=emitted"
    reg(nm, T, lambda nm=nm: CdcStreamHarness(nm, _uart_fifo, 4, mem="emitted"))
    # BusSynchronizer
    for width, R, tier in ((1, 1, Q), (1, 3, Q), (2, 1, Q), (2, 2, Q), (2, 3, Q), (3, 1, Q), (3, 2, T), (3, 3, T)):
        Tmo = 8*(R + 1)
        nm = f"BusSynchronizer(width={width},timeout={Tmo})/drift<={R}"
        reg(nm, tier, (lambda nm=nm, width=width, R=R, Tmo=Tmo: BusSyncHarness(nm, width, R, Tmo, cap=4_000_000)))
        if width == 2 and R == 1:
            SENSITIVITY[nm] = [("time-out 8 shorter than the request/acknowledge round trip (premise violated)",
                                (lambda nm=nm: BusSyncHarness(nm + "/short", 2, 1, 8)), "bus.torn")]
    # stream.Monitor pulse path
    nm = "stream.Monitor(clock_domain=b)/reset+latch pulses"
    reg(nm, Q, lambda nm=nm: MonitorPulseHarness(nm))
    # AXILiteClockDomainCrossing (capped)
    for mem in ("sim", "emitted"):
        nm = f"AXILiteClockDomainCrossing(a->b)/single-outstanding/mem={mem}"
        reg(nm, T, lambda nm=nm, mem=mem: AxiLiteCdcHarness(nm, mem=mem, cap=AXI_CAP))
    # quick: the same crossing with a master that only writes / only reads (three / two of the five channel FIFOs move)
    for tag, acts in (("writes only", (0, 1)), ("reads only", (0, 2))):
        nm = f"AXILiteClockDomainCrossing(a->b)/single-outstanding,{tag}/mem=sim"
        reg(nm, Q, lambda nm=nm, acts=acts: AxiLiteCdcHarness(nm, mem="sim", cap=AXI_CAP, acts=acts))


AXI_CAP = 1_000_000
_menu()


def configs(tier):
    return [(n,) for n, (t, f) in REGISTRY.items() if t == "quick" or tier == "thorough"]


def _decode_step(c):
    """a trace step as the explorer produced it or as it comes back from a replay file (JSON: lists, string keys)"""
    if isinstance(c, (list, tuple)) and len(c) == 2 and isinstance(c[1], dict):
        return (_tuple_deep(c[0]), {int(k): int(x) for k, x in c[1].items()})
    return _tuple_deep(c)


def _tuple_deep(x):
    return tuple(_tuple_deep(y) for y in x) if isinstance(x, (list, tuple)) else x


def _validate_trace(mk, steps):
    """A recorded trace is only meaningful on the tree it is replayed on if every step is a choice the environment offers in
    that state and every forced first-flop value is one of the sampling resolutions the fault model allows in that instant
    (replay_stock applies forced values by signal index without asking the harness).  -> None or a reason."""
    from fsmc.design import Design
    H = mk()
    D = Design(H.build(), clocks=H.clocks, special_overrides=H.special_overrides)
    H.bind(D)
    fs = D.fs
    d, env = D.reset_state(), H.env_init()
    for k, step in enumerate(steps):
        ch, forced = (step if isinstance(step, tuple) and len(step) == 2 and isinstance(step[1], dict) else (step, None))
        if ch not in H.choices(env):
            return f"step {k}: choice {ch} is not offered by the environment in this state"
        v = D.load(d)
        H.drive(v, env, ch)
        fs.settle()
        env2, err, flags = H.observe(v, env, ch)
        if err is not None:
            return None if k == len(steps) - 1 else f"step {k}: violation before the end of the trace"
        cds = H.ticks(env, ch)
        vpre = list(v)
        fs.tick(cds)
        alts = [a or {} for a in (H.faults(vpre, v, env, ch, cds) or [None])]
        if (forced or {}) not in alts:
            return f"step {k}: forced values {forced} are not a possible sampling resolution on this tree (possible: {alts[:4]}...)"
        if forced:
            for i, x in forced.items():
                v[i] = x
            fs.settle()
        if H.post is not None:
            env2, err = H.post(v, env2, ch)
            if err is not None:
                return None if k == len(steps) - 1 else f"step {k}: violation before the end of the trace"
        d, env = D.state(), env2
    return None


def _replay(mk, rule, trace, cycle):
    H = mk()
    tr = [_decode_step(c) for c in trace]
    cyc = [_decode_step(c) for c in cycle] if cycle else None
    q = [q for q in H.live_queries if q[0] == rule][0] if cyc else None
    why = _validate_trace(mk, tr + (cyc * 2 if cyc else []))
    if why is not None:
        return dict(reproduced=False, path="trace validation", err=None, cycles=len(tr), invalid=why)
    return replay_stock(mk, tr, cyc, q)


# ---------------------------------------------------------------------------------------------------------------
# ClockDomainCrossing under domain NAMES that coincide with the FIFO's internal ones ("write" / "read"): each side must still end up
# in its own domain.  Structural (elaboration only): the registers that `sink.ready` depends on belong to cd_from, those that
# `source.valid` depends on to cd_to, and both domains carry logic.
# ---------------------------------------------------------------------------------------------------------------
CDC_NAMES = "ClockDomainCrossing(domain names a->b, a->write, write->b, a->read, read->b): each side clocked by its own domain"
NAME_PAIRS = (("a", "b"), ("a", "write"), ("write", "b"), ("a", "read"), ("read", "b"))


def run_cdc_names(name):
    from litex.soc.interconnect import stream
    from migen.fhdl.tools import list_signals as _ls, list_targets as _lt
    from fsmc.design import Design
    viol = []
    n = 0
    for cf, ct in NAME_PAIRS:
        class W(Module):
            def __init__(self):
                self.clock_domains.cd_f = ClockDomain(cf)
                self.clock_domains.cd_t = ClockDomain(ct)
                self.submodules.cdc = stream.ClockDomainCrossing([("data", 2)], cf, ct)
        w = W()
        D = Design(w, clocks=(cf, ct))
        n += 1
        dom = {}
        for cd, st in D.f.sync.items():
            for t in _lt(st):
                dom[t] = cd
        comb = {}
        def scan(stmts):
            for st in stmts:
                if isinstance(st, (list, tuple)):
                    scan(st)
                else:
                    rd = _ls(st)
                    for t in _lt(st):
                        comb.setdefault(t, set()).update(rd)
        scan(D.f.comb)
        def reg_leaves(sig):
            seen, todo, out = set(), [sig], set()
            while todo:
                x = todo.pop()
                if x in seen:
                    continue
                seen.add(x)
                if x in dom:
                    out.add(x)
                else:
                    todo += list(comb.get(x, ()))
            return out
        side = {"sink.ready": (w.cdc.sink.ready, cf), "source.valid": (w.cdc.source.valid, ct)}
        for lab, (sig, want) in side.items():
            doms = sorted({dom[r] for r in reg_leaves(sig)})
            if doms != [want]:
                viol.append(dict(rule="struct.cdc_side_in_wrong_domain",
                                 msg=f"ClockDomainCrossing({cf!r} -> {ct!r}): {lab} depends on registers of domain(s) {doms}, expected only {want!r}",
                                 trace=None, detail=dict(cd_from=cf, cd_to=ct, port=lab, domains=doms)))
    first = {}
    for v in viol:
        first.setdefault((v["detail"]["cd_from"], v["detail"]["cd_to"]), v)
    return dict(cfg=name, states=n, transitions=n, conformed=0, exhaustive=True, violations=list(first.values()),
                cover=dict(name_pairs=[f"{a}->{b}" for a, b in NAME_PAIRS]), sample=[dict(cd_from="a", cd_to="write")])


_configs_cdc = configs


def configs(tier):
    return _configs_cdc(tier) + [(CDC_NAMES,)]


def run_config(cfg, seed, tier):
    name = cfg[0]
    if name == CDC_NAMES:
        return run_cdc_names(name)
    mk = REGISTRY[name][1]
    H = mk()
    X = Explorer(H, seed=seed, max_viol_rules=2)
    structural = H.lint()
    if structural:
        # the fault model's side-condition is broken: the dynamic exploration is only run for additional evidence, bounded
        H.cap = min(H.cap, 50_000)
    out = X.run().as_dict()
    out["cover"]["crossing_discipline_findings"] = len(structural)
    for v in out["violations"]:
        # every reported violation is first re-played from reset through LiteX's own Evaluator (edge schedule + forced first flops)
        rp = _replay(mk, v["rule"], v["trace"], v.get("cycle"))
        v["replayed"] = dict(reproduced=rp["reproduced"], path=rp["path"], cycles=rp["cycles"])
        if not rp["reproduced"]:
            raise MachineryError(f"{name}: violation {v['rule']} does not reproduce on LiteX's evaluator: {rp}")
    for rule, msg in structural:
        if not any(v["rule"] == rule for v in out["violations"]):
            out["violations"].append(dict(rule=rule, msg=msg, trace=None, detail=dict(kind="structural", all=[m for r, m in structural if r == rule])))
    # sensitivity demonstrations: NOT verdicts (the premise of the property is violated on purpose); they only show that the
    # fault model is sharp enough to see the failure the premise protects against
    for label, mks, rule in SENSITIVITY.get(name, ()):
        r = Explorer(mks(), max_viol_rules=1, seed=seed).run()
        hit = [v for v in r.violations if v["rule"] == rule]
        rep = _replay(mks, rule, hit[0]["trace"], None)["reproduced"] if hit else None
        out["cover"].setdefault("sensitivity_not_a_verdict", []).append(dict(
            premise_violated=label, expected_rule=rule, found=bool(hit), reproduced_on_litex_evaluator=rep, states=r.states,
            shortest_trace_steps=len(hit[0]["trace"]) if hit else None, rules_seen=sorted(v["rule"] for v in r.violations)))
    return out


def replay(rec):
    if rec["cfg"] == CDC_NAMES:
        r = run_cdc_names(rec["cfg"])
        hit = [v for v in r["violations"] if v["detail"].get("cd_from") == rec.get("detail", {}).get("cd_from") and v["detail"].get("cd_to") == rec.get("detail", {}).get("cd_to")]
        return dict(cfg=rec["cfg"], rule=rec["rule"], reproduced=bool(hit), path="elaboration")
    mk = REGISTRY[rec["cfg"]][1]
    if rec["rule"].startswith("struct."):
        H = mk()
        Explorer(H)
        found = [m for r, m in H.lint() if r == rec["rule"]]
        return dict(cfg=rec["cfg"], rule=rec["rule"], reproduced=bool(found), findings=found, path="elaboration + crossing lint")
    rp = _replay(mk, rec["rule"], rec["trace"], rec.get("cycle"))
    return dict(cfg=rec["cfg"], rule=rec["rule"], reproduced=rp["reproduced"], err=rp["err"], path=rp["path"], cycles=rp["cycles"],
                invalid=rp.get("invalid"))


def extra_coverage(results):
    tot = dict(simultaneous_edge_steps=0, steps_with_crossing_change_in_sampling_instant=0, fault_successors=0,
               read_during_write_collisions=0)
    for r in results:
        c = r.get("cover") or {}
        for k in tot:
            tot[k] += int(c.get(k, 0) or 0)
    tot["non_exhaustive_configs"] = [r["cfg"] for r in results if not r.get("exhaustive", True)]
    return dict(cdc=tot)
