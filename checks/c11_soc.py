"""SoC part of C11: the time-out error pulse of the SoC's own interconnect reaches SoCController's saturating bus error
counter (soc.py: SoCController.bus_errors, SoC.finalize wiring).  A real SoCCore (no CPU, one test-bench Wishbone master added
through soc.bus.add_master, so the adapters of the chosen bus standard are inserted by soc.py) is explored to closure: every
order of mapped reads (ROM, the bus_errors CSR at its exported address) and reads/writes to an unmapped address, started
after every idle gap, from counter value 0 and from 2**32 - 2 (saturation)."""
import io, json, contextlib
import fsmc  # noqa
from migen import *
from fsmc.explore import Explorer, replay_stock, Harness
from fsmc.design import MachineryError

WBSIG = ("adr", "dat_w", "dat_r", "sel", "cyc", "stb", "ack", "we", "cti", "bte", "err")
SAT = 2**32 - 1
ROM_INIT = [0x11111111, 0x22222222, 0x33333333, 0x44444444]
UNMAPPED = (0x50000000, 0x6000_0040)
MAXGAP = 2


def build_soc(std, T):
    from litex.build.generic_platform import GenericPlatform
    from litex.soc.integration.soc_core import SoCCore
    from litex.soc.interconnect import wishbone
    cls = type("TBSoC", (SoCCore,), dict(csr_map={}, interrupt_map={}, mem_map={"csr": 0x82000000}))
    platform = GenericPlatform("", io=[])
    with contextlib.redirect_stdout(io.StringIO()):
        soc = cls(platform, clk_freq=int(1e6), cpu_type=None, bus_standard=std, bus_data_width=32, bus_interconnect="shared",
                  bus_timeout=T, csr_data_width=32, integrated_rom_size=0, integrated_sram_size=0, integrated_main_ram_size=0, with_uart=False, with_timer=False,
                  with_ctrl=True, ident="")
        soc.add_rom("rom", origin=0x01000000, size=0x10, contents=list(ROM_INIT))
        m = wishbone.Interface(data_width=32, address_width=32, addressing="word")
        soc.bus.add_master("tb", m)
        soc.finalize()
    return soc, m


class SocErrHarness(Harness):
    """env = None before the first step, then (base, count, phase, op, age)
         base   counter value the run starts from (0, or 2**32-2 forced into the register in the first step)
         count  requests that timed out so far (the counter must show min(base + count, 2**32-1))
         phase  0 idle (age = idle cycles so far, saturating) | 1 request up (age = cycles so far)
         op     0 read ROM word 1 | 1 read ctrl.bus_errors | 2 read unmapped | 3 write unmapped"""
    conf_first = 60
    conf_every = 17
    cap = 400_000
    OPS = ("read rom", "read ctrl.bus_errors", "read unmapped", "write unmapped")

    def __init__(self, name, std, T, maxerr=3):
        self.name, self.std, self.T, self.maxerr = name, std, T, maxerr
        # measured on the pinned tree: T + 1 cycles (Wishbone), T + 5 (through the AXI-Lite / AXI adapters of the test-bench master)
        self.deadline = T + (3 if std == "wishbone" else 7)
        self.cov = dict(timeouts=0, mapped_reads=0, counter_reads=0, saturated=0, max_latency_unmapped=0, max_latency_mapped=0)

    def build(self):
        from litex.soc.integration import export
        self.soc, self.m = build_soc(self.std, self.T)
        js = json.loads(export.get_csr_json(self.soc.csr_regions, self.soc.constants, self.soc.mem_regions))
        self.a_errors = js["csr_registers"]["ctrl_bus_errors"]["addr"]
        self.a_rom = js["memories"]["rom"]["base"] + 4
        return self.soc

    def bind(self, D):
        self.M = {n: D.i(getattr(self.m, n)) for n in WBSIG}
        self.status = D.i(self.soc.ctrl._bus_errors.status)
        regs = [s for s in D.state_sigs if len(s) == 32 and s.backtrace and s.backtrace[-1][0] == "bus_errors"]
        if len(regs) != 1:
            raise MachineryError(f"{self.name}: expected exactly one 32-bit bus_errors register, found {len(regs)}")
        self.cnt = D.i(regs[0])

    def env_init(self):
        return None

    def choices(self, env):
        if env is None:
            return [("init", 0), ("init", SAT - 1)]
        base, count, phase, op, age = env
        if phase == 1:
            return [("hold",)]
        out = [("idle",)] if age < MAXGAP else []
        out += [("start", 0), ("start", 1)]
        if count < self.maxerr:
            out += [("start", 2), ("start", 3)]
        return out

    def request(self, op):
        if op == 0:
            return self.a_rom, 0
        if op == 1:
            return self.a_errors, 0
        return UNMAPPED[op - 2], op - 2

    def drive(self, v, env, ch):
        M = self.M
        op = None
        if env is not None:
            if ch[0] == "start":
                op = ch[1]
            elif ch[0] == "hold":
                op = env[3]
        if op is None:
            v[M["cyc"]] = v[M["stb"]] = 0
            v[M["adr"]], v[M["we"]], v[M["sel"]], v[M["dat_w"]] = 0x3FFFFFFF, 1, 0xF, 0xFFFFFFFF
        else:
            a, we = self.request(op)
            v[M["cyc"]] = v[M["stb"]] = 1
            v[M["adr"]], v[M["we"]], v[M["sel"]], v[M["dat_w"]] = a >> 2, we, 0xF, 0xA5A5A5A5
        v[M["cti"]] = v[M["bte"]] = 0

    def faults(self, vpre, v, env, ch, cds):
        if env is None and ch[1]:
            return [{self.cnt: ch[1]}]
        return None

    def observe(self, v, env, ch):
        M = self.M
        ack, err = v[M["ack"]], v[M["err"]]
        if env is None:
            if ack or err:
                return env, ("resp.stray", "ack/err without a request"), 0
            return (ch[1], 0, 0, 0, 0), None, 0
        base, count, phase, op, age = env
        exp = min(base + count, SAT)
        st = v[self.status]
        if ch[0] == "idle":
            if ack or err:
                return env, ("resp.stray", "ack/err without a request"), 0
            if age >= 1 and st != exp:
                return env, ("soc.bus_errors", f"bus_errors shows {st:#x} after {count} timed-out request(s) starting from {base:#x} (expected {exp:#x})"), 0
            return (base, count, 0, 0, min(age + 1, MAXGAP)), None, 0
        if ch[0] == "start":
            op, n = ch[1], 0
            if age >= 1 and st != exp:
                return env, ("soc.bus_errors", f"bus_errors shows {st:#x} after {count} timed-out request(s) starting from {base:#x} (expected {exp:#x})"), 0
        else:
            n = age
        un = op >= 2
        if st not in ((exp, min(exp + 1, SAT)) if un else (exp,)) and not (ch[0] == "start" and age < 1):
            return env, ("soc.bus_errors", f"bus_errors shows {st:#x} during '{self.OPS[op]}' after {count} timed-out request(s) from {base:#x}"), 0
        if ack or err:
            lat = n + 1
            if un:
                self.cov["timeouts"] += 1
                self.cov["max_latency_unmapped"] = max(self.cov["max_latency_unmapped"], lat)
                if self.std == "wishbone" and op == 2 and v[M["dat_r"]] != 0xFFFFFFFF:
                    return env, ("timeout.data", f"timed-out read returns {v[M['dat_r']]:#x}, not all ones"), 0
                if exp == SAT:
                    self.cov["saturated"] += 1
                return (base, count + 1 if exp < SAT else count, 0, 0, 0), None, 0
            self.cov["max_latency_mapped"] = max(self.cov["max_latency_mapped"], lat)
            if err or not ack:
                return env, ("timeout.disturbed", f"'{self.OPS[op]}' (mapped, answered in time) terminated with err"), 0
            want = ROM_INIT[1] if op == 0 else None
            got = v[M["dat_r"]]
            if op == 0:
                self.cov["mapped_reads"] += 1
                if got != want:
                    return env, ("timeout.disturbed", f"ROM read returns {got:#x}, expected {want:#x}"), 0
            else:
                self.cov["counter_reads"] += 1
                if got != exp:
                    return env, ("soc.bus_errors", f"read of ctrl.bus_errors at its exported address {self.a_errors:#x} returns {got:#x} after {count} "
                                 f"timed-out request(s) starting from {base:#x} (expected {exp:#x})"), 0
            return (base, count, 0, 0, 0), None, 0
        if n + 1 > self.deadline:
            return env, ("timeout.late", f"'{self.OPS[op]}' not terminated after {n + 1} cycles (bus_timeout={self.T})"), 0
        return (base, count, 1, op, n + 1), None, 0

    def cover_report(self):
        return dict(self.cov)

    def vacuity(self):
        if not self.cov["timeouts"]:
            return "no request ever timed out"
        if not self.cov["saturated"]:
            return "the counter never sat at 2**32-1 while a request timed out"
        if not self.cov["counter_reads"]:
            return "ctrl.bus_errors never read"
        return None


class CtrlCounterHarness(Harness):
    """SoCController alone with a free `bus_error` input: the interconnects signal one error cycle per timed-out request (two
    requests timing out in adjacent cycles give two adjacent error cycles), so the counter has to count error CYCLES, from 0
    and from 2**32-3 (forced), saturating at 2**32-1.  env = None | (base, cycles with bus_error high so far, capped)"""
    conf_first = 40
    conf_every = 7
    MAXN = 4

    def __init__(self, name):
        self.name = name
        self.cov = dict(adjacent=0, saturated=0)

    def build(self):
        from litex.soc.integration.soc import SoCController
        self.dut = SoCController()
        return self.dut

    def bind(self, D):
        self.err = D.i(self.dut.bus_error)
        self.status = D.i(self.dut._bus_errors.status)
        regs = [s for s in D.state_sigs if len(s) == 32 and s.backtrace and s.backtrace[-1][0] == "bus_errors"]
        if len(regs) != 1:
            raise MachineryError(f"{self.name}: expected exactly one 32-bit bus_errors register, found {len(regs)}")
        self.cnt = D.i(regs[0])

    def env_init(self):
        return None

    def choices(self, env):
        if env is None:
            return [("init", 0), ("init", SAT - 2)]
        base, n, prev = env
        return [(0,), (1,)] if n < self.MAXN else [(0,)]

    def drive(self, v, env, ch):
        v[self.err] = 0 if env is None else ch[0]

    def faults(self, vpre, v, env, ch, cds):
        if env is None and ch[1]:
            return [{self.cnt: ch[1]}]
        return None

    def observe(self, v, env, ch):
        if env is None:
            return (ch[1], 0, 0), None, 0
        base, n, prev = env
        exp = min(base + n, SAT)
        if v[self.status] != exp:
            return env, ("soc.bus_errors", f"bus_errors shows {v[self.status]:#x} after {n} cycle(s) with bus_error high starting from {base:#x} (expected {exp:#x})"), 0
        if ch[0] and prev:
            self.cov["adjacent"] += 1
        if ch[0] and exp == SAT:
            self.cov["saturated"] += 1
        return (base, n + ch[0], ch[0]), None, 0

    def cover_report(self):
        return dict(self.cov)

    def vacuity(self):
        if not self.cov["adjacent"] or not self.cov["saturated"]:
            return f"adjacent error cycles / saturation never exercised: {self.cov}"
        return None


def build_soc_axil(T):
    """the same SoC on an AXI-Lite main bus with a NATIVE AXI-Lite test-bench master (no adapter in between): its write and read
    channels are independent, so a write and a read can wait for a silent slave at the same time"""
    from litex.build.generic_platform import GenericPlatform
    from litex.soc.integration.soc_core import SoCCore
    from litex.soc.interconnect import axi
    cls = type("TBSoC", (SoCCore,), dict(csr_map={}, interrupt_map={}, mem_map={"csr": 0x82000000}))
    platform = GenericPlatform("", io=[])
    with contextlib.redirect_stdout(io.StringIO()):
        soc = cls(platform, clk_freq=int(1e6), cpu_type=None, bus_standard="axi-lite", bus_data_width=32, bus_interconnect="shared",
                  bus_timeout=T, csr_data_width=32, integrated_rom_size=0, integrated_sram_size=0, integrated_main_ram_size=0, with_uart=False, with_timer=False,
                  with_ctrl=True, ident="")
        soc.add_rom("rom", origin=0x01000000, size=0x10, contents=list(ROM_INIT))
        m = axi.AXILiteInterface(data_width=32, address_width=32)
        soc.bus.add_master("tb", m)
        soc.finalize()
    return soc, m


class SocAxilErrHarness(Harness):
    """env = (w, r, nerr, quiet): w / r = 0 idle | 1 request up (AW+W resp. AR held until taken) | 2 waiting for the response;
    nerr = cycles in which the time-out responder took over at least one request (= error pulses owed); quiet = idle cycles since the last response (saturating at 3).
    Both directions only address unmapped memory, may start in any cycle while idle (so a write and a read can expire in the same
    cycle, in adjacent cycles, or apart) and accept their responses at once.  Once both are idle for 3 cycles the counter must equal
    the number of error responses received."""
    conf_first = 60
    conf_every = 17
    cap = 400_000

    def __init__(self, name, T, maxerr=4):
        self.name, self.T, self.maxerr = name, T, maxerr
        self.cov = dict(errors=0, overlapping=0, adjacent_responses=0)

    def build(self):
        self.soc, self.m = build_soc_axil(self.T)
        return self.soc

    def bind(self, D):
        m = self.m
        g = lambda ch, f: D.i(getattr(getattr(m, ch), f))
        self.P = {ch: dict(valid=g(ch, "valid"), ready=g(ch, "ready")) for ch in ("aw", "w", "b", "ar", "r")}
        self.aw_addr, self.ar_addr = g("aw", "addr"), g("ar", "addr")
        self.w_data, self.w_strb = g("w", "data"), g("w", "strb")
        self.b_resp, self.r_resp = g("b", "resp"), g("r", "resp")
        self.status = D.i(self.soc.ctrl._bus_errors.status)

    def env_init(self):
        return (0, 0, 0, 3, 0)

    def choices(self, env):
        w, r, nerr, quiet, last = env
        started = nerr + (1 if w else 0) + (1 if r else 0)
        cw = [0, 1] if (w == 0 and started < self.maxerr) else [0]
        cr = [0, 1] if (r == 0 and started + 0 < self.maxerr) else [0]
        return [(a, b) for a in cw for b in cr if not (a and b and started + 2 > self.maxerr)]

    def drive(self, v, env, ch):
        w, r, nerr, quiet, last = env
        P = self.P
        wup = w == 1 or ch[0]
        rup = r == 1 or ch[1]
        v[P["aw"]["valid"]] = v[P["w"]["valid"]] = int(wup)
        v[self.aw_addr] = UNMAPPED[1] if wup else 0xFFFFFFFC
        v[self.w_data], v[self.w_strb] = 0xA5A5A5A5, 0xF
        v[P["ar"]["valid"]] = int(rup)
        v[self.ar_addr] = UNMAPPED[0] if rup else 0xFFFFFFFC
        v[P["b"]["ready"]] = v[P["r"]["ready"]] = 1

    def observe(self, v, env, ch):
        w, r, nerr, quiet, last = env
        P = self.P
        hs = lambda c: bool(v[P[c]["valid"]] and v[P[c]["ready"]])
        wup, rup = (w == 1 or ch[0]), (r == 1 or ch[1])
        w2, r2 = (1 if wup else w), (1 if rup else r)
        if wup and (hs("aw") != hs("w")):
            return env, ("soc.axil.write_split", "AW and W of the timed-out write were not absorbed together"), 0
        absorbed = 0
        if wup and hs("aw"):
            w2, absorbed = 2, 1
        if rup and hs("ar"):
            r2, absorbed = 2, 1
        got = 0
        if hs("b"):
            if w != 2 or v[self.b_resp] != 2:
                return env, ("timeout.resp", f"B handshake in write phase {w} with resp {v[self.b_resp]}"), 0
            w2, got = 0, got + 1
        if hs("r"):
            if r != 2 or v[self.r_resp] != 2:
                return env, ("timeout.resp", f"R handshake in read phase {r} with resp {v[self.r_resp]}"), 0
            r2, got = 0, got + 1
        if w and r:
            self.cov["overlapping"] += 1
        if got and last == 1:
            self.cov["adjacent_responses"] += 1
        # the module's error output is the OR of its write and read direction: two expiries in ONE cycle are one pulse (the responder
        # takes both requests over in the same cycle then); expiries in different cycles are separate pulses.  nerr counts take-over cycles.
        nerr2 = nerr + absorbed
        self.cov["errors"] += got
        busy = w2 or r2
        quiet2 = 0 if (busy or got) else min(quiet + 1, 3)
        if quiet >= 3 and not (w or r) and v[self.status] != nerr:
            return env, ("soc.bus_errors", f"bus_errors shows {v[self.status]} after {nerr} expiry cycle(s) of the native AXI-Lite master "
                         "(write and read time-outs expiring in adjacent cycles are two errors, in the same cycle one pulse)"), 0
        return (w2, r2, nerr2, quiet2, 1 if got else (2 if last == 1 else 0)), None, 0

    def cover_report(self):
        return dict(self.cov)

    def vacuity(self):
        if not self.cov["overlapping"] or not self.cov["adjacent_responses"]:
            return f"write and read time-outs never overlapped / never answered in adjacent cycles: {self.cov}"
        return None


V = {}
AXIL = "soc.bus_errors(axi-lite,shared,bus_timeout=4,native AXI-Lite master: concurrent write / read time-outs)"
CTRL = "soc.controller.bus_errors(free bus_error input)"
for std, T, tier in (("wishbone", 8, "quick"), ("axi-lite", 12, "quick"), ("axi", 12, "quick"), ("wishbone", 5, "quick")):
    V[f"soc.bus_errors({std},shared,bus_timeout={T})"] = (tier, dict(std=std, T=T))


def configs(tier):
    return [(n,) for n, (t, kw) in V.items() if t == "quick" or tier == "thorough"] + [(CTRL,), (AXIL,)]


def mk(name):
    if name == CTRL:
        return lambda: CtrlCounterHarness(name)
    if name == AXIL:
        return lambda: SocAxilErrHarness(name, 4)
    kw = V[name][1]
    return lambda: SocErrHarness(name, **kw)


def tuple_deep(x):
    if isinstance(x, dict):
        return {int(k): v for k, v in x.items()}      # forced register values (signal index -> value) after a JSON round trip
    return tuple(tuple_deep(y) for y in x) if isinstance(x, (list, tuple)) else x


def run_config(cfg, seed, tier):
    name = cfg[0]
    f = mk(name)
    out = Explorer(f(), seed=seed).run().as_dict()
    for v in out["violations"]:
        rp = replay_stock(f, [tuple_deep(c) for c in v["trace"]])
        v["replayed"] = dict(reproduced=rp["reproduced"], path=rp.get("path"))
        if not rp["reproduced"]:
            raise MachineryError(f"{name}: violation {v['rule']} does not reproduce on the stock simulator: {rp}")
    return out


def replay(rec):
    rp = replay_stock(mk(rec["cfg"]), [tuple_deep(c) for c in rec["trace"]])
    return dict(cfg=rec["cfg"], rule=rec["rule"], reproduced=rp["reproduced"], err=rp.get("err"))
